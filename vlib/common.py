"""Shared machinery of the pdsh verification checks (see DESIGN.md section 2.2).

Every check follows the same procedure:
  consts -> lake build (proofs) -> audit -> harness build from /repo -> cases
  (impl vs model = correspondence; impl vs spec = oracle) -> classify against
  known_findings.json -> verdict -> evidence.
"""
import fcntl
import hashlib
import json
import os
import random
import re
import shutil
import subprocess
import sys
import tempfile
import time

VERIF = os.path.dirname(os.path.dirname(os.path.abspath(__file__)))
REPO = os.environ.get("VERIF_REPO", "/repo")
COV_OUT = os.environ.get("VERIF_COV")   # coverage mode: directory for per-run coverage JSON (tools/coverage_report.py)
LEAN_DIR = os.path.join(VERIF, "lean")
HARNESS = os.path.join(VERIF, "harness")
ALLOWED_AXIOMS = {"propext", "Classical.choice", "Quot.sound"}
FORBIDDEN = re.compile(
    r"\bsorry\b|\badmit\b|^\s*axiom\s|native_decide|bv_decide|implemented_by|"
    r"\bunsafe\s|maxHeartbeats\s+0\b|\bopaque\s|@\[extern|\bpartial\s+def\b", re.M)


def strip_lean_comments(src):
    """Remove -- line comments, /- -/ block comments (nested) and string literals."""
    out = []
    i, n, depth = 0, len(src), 0
    while i < n:
        if src.startswith("/-", i):
            depth += 1
            i += 2
            continue
        if depth and src.startswith("-/", i):
            depth -= 1
            i += 2
            continue
        if depth:
            if src[i] == "\n":
                out.append("\n")
            i += 1
            continue
        if src.startswith("--", i):
            while i < n and src[i] != "\n":
                i += 1
            continue
        if src[i] == '"':
            i += 1
            while i < n and src[i] != '"':
                i += 2 if src[i] == "\\" else 1
            i += 1
            out.append('""')
            continue
        out.append(src[i])
        i += 1
    return "".join(out)


def run(cmd, timeout=None, cwd=None, env=None, input=None, check=False):
    p = subprocess.run(cmd, shell=isinstance(cmd, str), cwd=cwd, env=env,
                       input=input, stdout=subprocess.PIPE, stderr=subprocess.PIPE,
                       timeout=timeout)
    if check and p.returncode != 0:
        raise RuntimeError("command failed (%d): %s\n%s\n%s" % (
            p.returncode, cmd, p.stdout.decode("utf-8", "replace")[-4000:],
            p.stderr.decode("utf-8", "replace")[-4000:]))
    return p


def load_findings():
    """known findings: /verif/known_findings.json merged with /verif/findings/*.json (one file per
    property keeps concurrent edits apart); committed files, never written at run time"""
    out = {"findings": []}
    paths = [os.path.join(VERIF, "known_findings.json")]
    fdir = os.path.join(VERIF, "findings")
    if os.path.isdir(fdir):
        paths += [os.path.join(fdir, f) for f in sorted(os.listdir(fdir)) if f.endswith(".json")]
    for p in paths:
        if os.path.exists(p):
            out["findings"] += json.load(open(p)).get("findings", [])
    return out


class Broken(Exception):
    """A proof obligation or the correspondence no longer checks."""


class Ctx:
    def __init__(self, prop, tier, seed):
        self.prop = prop
        self.tier = tier
        self.seed = seed
        self.rng = random.Random((seed << 8) ^ int(prop[1:]))
        self.t0 = time.time()
        base = os.environ.get("TMPDIR") or "/var/tmp"
        self.scratch = tempfile.mkdtemp(prefix="pdshverif-%s-" % prop, dir=base)
        if COV_OUT:
            # coverage mode: every instrumented process (root or uid 1000, chrooted or not) writes its counters
            # below GCOV_PREFIX instead of next to the objects (which may be read-only for it)
            os.umask(0)
            os.chmod(self.scratch, 0o755)
            self.gcov_prefix = os.path.join(self.scratch, "gcovp")
            os.makedirs(self.gcov_prefix, exist_ok=True)
            os.chmod(self.gcov_prefix, 0o1777)
            os.environ["GCOV_PREFIX"] = self.gcov_prefix
        self.findings = load_findings()
        self.violations = []      # (signature, what, case)  -- not listed
        self.known_hits = {}      # finding id -> count
        self.broken = []          # (kind, name, detail)  P-BROKEN / C-BROKEN
        self.theorems = {}        # name -> axioms
        self.obligations = []     # (name, discharged: bool)
        self.notes = []
        self.repo_copy = None
        self._lines = []

    # ------------------------------------------------------------------ util
    def log(self, *a):
        print("[%s %6.1fs]" % (self.prop, time.time() - self.t0), *a, flush=True)

    def cleanup(self):
        if COV_OUT:
            try:
                self._collect_coverage()
            except Exception as e:     # never let the coverage report change a verdict
                self.log("coverage collection failed:", e)
        shutil.rmtree(self.scratch, ignore_errors=True)

    def _cov_dirs(self, dirs):
        """coverage mode: libgcov creates missing directories 0755 as whoever runs first; create them 0777 now so
        that root and uid-1000 processes can both drop their counters (files are 0666 under umask 0)"""
        for d in dirs:
            path = self.gcov_prefix
            for part in d.strip("/").split("/"):
                path = os.path.join(path, part)
                if not os.path.isdir(path):
                    os.mkdir(path)
                    os.chmod(path, 0o777)

    def _collect_coverage(self):
        """coverage mode only: gcov --json-format over every .gcda under the scratch directory, reduced to
        per-function line and branch counts of files that belong to the repository under test."""
        import gzip
        funcs = {}
        gcdas = []
        for root, _, files in os.walk(self.scratch):
            gcdas += [os.path.join(root, f) for f in files if f.endswith(".gcda")]
        work = tempfile.mkdtemp(prefix="gcovw-", dir=self.scratch)
        for n, g in enumerate(gcdas):
            d = os.path.dirname(g)
            if "/gcovp/" in g:
                # written below GCOV_PREFIX (possibly inside a chroot jail): the notes file is where the object was built
                gcno = "/" + g.split("/gcovp/", 1)[1][:-5] + ".gcno"
                if not os.path.exists(gcno):
                    continue
                d = os.path.join(work, str(n))
                os.makedirs(d)
                shutil.copy(g, d)
                shutil.copy(gcno, d)
            p = run(["gcov", "--json-format", "--branch-probabilities", "--stdout", os.path.basename(g)], cwd=d, timeout=120)
            if p.returncode != 0 or not p.stdout:
                continue
            for doc in p.stdout.decode("utf-8", "replace").splitlines():
                try:
                    j = json.loads(doc)
                except Exception:
                    continue
                for fobj in j.get("files", []):
                    fn = os.path.normpath(os.path.join(j.get("current_working_directory", ""), fobj.get("file", "")))
                    m = re.search(r"(src/(?:pdsh|common|modules)/[^/]+\.c)$", fn)
                    if not m:
                        continue
                    rel = m.group(1)
                    for ln in fobj.get("lines", []):
                        key = (rel, ln.get("function_name") or "?")
                        e = funcs.setdefault(key, {"lines": {}, "branches": {}})
                        n = ln["line_number"]
                        e["lines"][n] = e["lines"].get(n, 0) + ln.get("count", 0)
                        for bi, b in enumerate(ln.get("branches", [])):
                            e["branches"][(n, bi)] = e["branches"].get((n, bi), 0) + b.get("count", 0)
        out = {}
        for (rel, f), e in funcs.items():
            out["%s:%s" % (rel, f)] = {
                "lines": len(e["lines"]), "lines_hit": sum(1 for c in e["lines"].values() if c > 0),
                "branches": len(e["branches"]), "branches_hit": sum(1 for c in e["branches"].values() if c > 0),
                "lines_missed": sorted(n for n, c in e["lines"].items() if c == 0)[:60],
                "branches_missed": sorted("%d.%d" % k for k, c in e["branches"].items() if c == 0)[:60]}
        os.makedirs(COV_OUT, exist_ok=True)
        with open(os.path.join(COV_OUT, "%s-%s-seed%d.json" % (self.prop, self.tier, self.seed)), "w") as f:
            json.dump({"gcda": len(gcdas), "functions": out}, f, indent=1, sort_keys=True)

    def quick(self):
        return self.tier == "quick"

    # ---------------------------------------------------------------- consts
    def gen_consts(self, sections=None):
        """Regenerate lean/PdshVerif/Gen/<Section>.lean from /repo's working tree: every
        harness/consts/<section>.c is compiled against /repo and prints Lean definitions."""
        cdir = os.path.join(HARNESS, "consts")
        names = sorted(f[:-2] for f in os.listdir(cdir) if f.endswith(".c"))
        if sections is not None:
            names = [n for n in names if n in sections]
        ok = True
        for name in names:
            exe = os.path.join(self.scratch, "probe_" + name)
            p = run(["gcc", "-w", "-DHAVE_CONFIG_H", "-D_GNU_SOURCE", "-I" + REPO, "-I" + REPO + "/src/pdsh",
                     "-I" + REPO + "/src/common", "-I" + REPO + "/src/modules", os.path.join(cdir, name + ".c"),
                     "-o", exe, "-lpthread"])
            if p.returncode != 0:
                self.broken.append(("P-BROKEN", "Gen." + name.capitalize(),
                                    "constants probe does not compile against /repo: " +
                                    p.stderr.decode("utf-8", "replace")[-1500:]))
                ok = False
                continue
            q = run([exe], timeout=20)
            if q.returncode != 0:
                self.broken.append(("P-BROKEN", "Gen." + name.capitalize(), "constants probe failed"))
                ok = False
                continue
            text = ("-- GENERATED by vlib/common.py:gen_consts from /repo's working tree "
                    "(harness/consts/%s.c). DO NOT EDIT.\nnamespace PdshVerif.Gen\n\n%s\nend PdshVerif.Gen\n"
                    % (name, q.stdout.decode()))
            path = os.path.join(LEAN_DIR, "PdshVerif", "Gen", name.capitalize() + ".lean")
            with open(os.path.join(LEAN_DIR, ".lock"), "w") as lk:
                fcntl.flock(lk, fcntl.LOCK_EX)
                old = open(path).read() if os.path.exists(path) else None
                if old != text:
                    with open(path, "w") as f:
                        f.write(text)
                    self.log("Gen/%s.lean changed (regenerated from /repo)" % name.capitalize())
        return ok

    # ----------------------------------------------------------------- proofs
    def lean_build(self, targets, timeout=3000):
        """lake build under a lock.  Returns True when every target builds.
        Third tie to the source (besides constants and differential execution): the small pure C functions whose
        model definitions this property uses are RE-TRANSLATED from the tree under check (tools/c2lean.py ->
        Gen/Fn<Unit>.lean) and their bridge theorems (generated function = hand-written model definition, for all
        arguments) are rebuilt with the property's theorems; a behavioural edit of such a function breaks a bridge."""
        targets = list(targets)
        try:
            from vlib import c2lean
            units = c2lean.units_for(self.prop)
            if units and not getattr(self, "_bridged", False):
                self._bridged = True
                self.bridge_units = units
                c2lean.regen(self, units)
                self.bridge_modules = c2lean.bridge_targets(units, prop=self.prop)
                targets += [t for t in self.bridge_modules if t not in targets]
        except Exception as e:      # the translator itself failing is a broken tie, not a pass
            self.broken.append(("P-BROKEN", "c2lean", "translator failed: %r" % (e,)))
        with open(os.path.join(LEAN_DIR, ".lock"), "w") as lk:
            fcntl.flock(lk, fcntl.LOCK_EX)
            p = run(["lake", "build"] + list(targets), cwd=LEAN_DIR, timeout=timeout)
        if p.returncode != 0:
            txt = (p.stdout.decode("utf-8", "replace") + p.stderr.decode("utf-8", "replace"))
            errs = [l for l in txt.splitlines() if "error" in l][:12]
            self.broken.append(("P-BROKEN", "lake build " + " ".join(targets), "\n".join(errs) or txt[-2000:]))
            return False
        return True

    def props_theorems(self, props_module):
        """Names of the theorems declared in a Props file (qualified)."""
        path = os.path.join(LEAN_DIR, *props_module.split(".")) + ".lean"
        src = strip_lean_comments(open(path).read())
        ns = []
        names = []
        for line in src.splitlines():
            m = re.match(r"\s*namespace\s+(\S+)", line)
            if m:
                ns.append(m.group(1))
                continue
            m = re.match(r"\s*end\s+(\S+)", line)
            if m and ns and ns[-1] == m.group(1):
                ns.pop()
                continue
            m = re.match(r"\s*(?:@\[[^\]]*\]\s*)?(?:private\s+|protected\s+)?theorem\s+(\S+)", line)
            if m:
                names.append(".".join(ns + [m.group(1)]))
        return names

    def audit(self, props_module, extra_modules=()):
        """Forbidden-token scan of the whole library + #print axioms on every
        theorem of the Props module.  Fills self.theorems / self.obligations."""
        bad = []
        for root, _, files in os.walk(os.path.join(LEAN_DIR, "PdshVerif")):
            for f in files:
                if f.endswith(".lean"):
                    src = strip_lean_comments(open(os.path.join(root, f)).read())
                    for m in FORBIDDEN.finditer(src):
                        bad.append("%s: %s" % (os.path.join(root, f), m.group(0).strip()))
        if bad:
            self.broken.append(("P-BROKEN", "audit:forbidden-token", "; ".join(bad[:10])))
        names = self.props_theorems(props_module)
        if not names:
            self.broken.append(("P-BROKEN", props_module, "no theorems found"))
            return
        extra_modules = list(extra_modules)
        for bm in getattr(self, "bridge_modules", []):
            # bridge theorems of the translated functions this property's model uses (Bridge/<Module>.lean)
            try:
                bn = self.props_theorems(bm)
            except OSError:
                bn = []
            if not os.path.exists(os.path.join(LEAN_DIR, ".lake", "build", "lib", "lean", *bm.split(".")) + ".olean"):
                # the bridge no longer builds against the re-translated source (already recorded by lean_build):
                # its theorems are undischarged obligations; do not import the module (the audit file would not load)
                for n in bn:
                    self.obligations.append((n, False))
                continue
            names += [n for n in bn if n not in names]
            if bm not in extra_modules:
                extra_modules.append(bm)
        audit_file = os.path.join(self.scratch, "Audit.lean")
        with open(audit_file, "w") as f:
            f.write("import %s\n" % props_module)
            for m in extra_modules:
                f.write("import %s\n" % m)
            for n in names:
                f.write("#print axioms %s\n" % n)
        p = run(["lake", "env", "lean", audit_file], cwd=LEAN_DIR, timeout=600)
        txt = p.stdout.decode("utf-8", "replace") + p.stderr.decode("utf-8", "replace")
        txt = re.sub(r"\s*\n\s+", " ", txt)   # join wrapped lines
        for n in names:
            m = re.search(r"'%s' depends on axioms: \[([^\]]*)\]" % re.escape(n), txt)
            if m:
                ax = [a.strip() for a in m.group(1).split(",") if a.strip()]
            elif re.search(r"'%s' does not depend on any axioms" % re.escape(n), txt):
                ax = []
            else:
                self.broken.append(("P-BROKEN", n, "theorem not found by #print axioms: " + txt[-600:]))
                self.obligations.append((n, False))
                continue
            self.theorems[n] = ax
            ok = set(ax) <= ALLOWED_AXIOMS
            self.obligations.append((n, ok))
            if not ok:
                self.broken.append(("P-BROKEN", n, "depends on axioms " + ",".join(ax)))
        if self.tier == "thorough":
            p = run(["lake", "env", "leanchecker", props_module], cwd=LEAN_DIR, timeout=1800)
            ok = p.returncode == 0
            self.obligations.append(("leanchecker " + props_module, ok))
            if not ok:
                self.broken.append(("P-BROKEN", "leanchecker " + props_module,
                                    (p.stdout + p.stderr).decode("utf-8", "replace")[-800:]))

    def driver_path(self):
        return os.path.join(LEAN_DIR, ".lake", "build", "bin", "pdshmodel")

    def model(self, engine, text, timeout=600, args=()):
        """Run the compiled Lean model driver on protocol lines; returns output lines."""
        p = run([self.driver_path(), engine] + list(args), input=text.encode(), timeout=timeout)
        if p.returncode != 0:
            raise RuntimeError("model driver failed: " + p.stderr.decode("utf-8", "replace")[-2000:])
        return p.stdout.decode("utf-8", "replace").splitlines()

    # ---------------------------------------------------------------- harness
    def cc(self, out, srcs, flags=(), san=True, assertions=True, libs=("-lpthread",), cc="gcc", timeout=300):
        """Compile a harness against /repo's current sources.  With assertions=True a shim
        config.h (includes /repo/config.h, then #undef NDEBUG) precedes -I/repo."""
        inc = []
        if assertions:
            shim = os.path.join(self.scratch, "shim_inc")
            os.makedirs(shim, exist_ok=True)
            with open(os.path.join(shim, "config.h"), "w") as f:
                f.write('#include "%s/config.h"\n#undef NDEBUG\n' % REPO)
            inc.append("-I" + shim)
        inc += ["-I" + REPO, "-I" + REPO + "/src/pdsh", "-I" + REPO + "/src/common", "-I" + REPO + "/src",
                "-I" + HARNESS]
        cmd = [cc, "-g", "-O1", "-w", "-DHAVE_CONFIG_H", "-D_GNU_SOURCE"] + inc
        if san:
            cmd += ["-fsanitize=address,undefined", "-fno-sanitize-recover=all", "-fno-omit-frame-pointer"]
        if COV_OUT and cc == "gcc":
            # coverage mode (tools/coverage_report.py): count which lines/branches of /repo's sources the
            # correspondence of this run executes; .gcda files land next to the executable (scratch)
            cmd += ["--coverage", "-fprofile-update=atomic"]
        cmd += list(flags) + list(srcs) + ["-o", out] + list(libs)
        if COV_OUT:
            self._cov_dirs([os.path.dirname(os.path.abspath(out))])
        p = run(cmd, timeout=timeout)
        if p.returncode != 0:
            self.broken.append(("C-BROKEN", "harness build " + os.path.basename(out),
                                p.stderr.decode("utf-8", "replace")[-2000:]))
            return False
        return True

    def repo_build(self):
        """Scratch copy of /repo's working tree, rebuilt from clean (module dir is baked in).
        Returns the copy's path or None (build failure recorded as broken)."""
        if self.repo_copy:
            return self.repo_copy
        dst = os.path.join(self.scratch, "repo")
        run(["cp", "-a", REPO, dst], check=True)
        shutil.rmtree(os.path.join(dst, ".git"), ignore_errors=True)
        mk = "make -j16"
        if COV_OUT:
            mk = "make -j16 CFLAGS='-g -O0 --coverage -fprofile-update=atomic' LDFLAGS=--coverage"
        if COV_OUT:
            os.umask(0o022)
        p = run("make clean >/dev/null 2>&1; rm -f src/pdsh/testconfig.c; %s >build.log 2>&1" % mk,
                cwd=dst, timeout=900)
        if COV_OUT:
            os.umask(0)
            self._cov_dirs(sorted(set(r for r, _, fs in os.walk(dst) if any(f.endswith(".gcno") for f in fs))))

        if p.returncode != 0 or not os.path.exists(os.path.join(dst, "src/pdsh/pdsh")):
            self.broken.append(("C-BROKEN", "scratch build of /repo",
                                open(os.path.join(dst, "build.log"), errors="replace").read()[-2000:]))
            return None
        self.repo_copy = dst
        return dst

    # ------------------------------------------------------------- classification
    def offender(self, signature, what, case):
        """Record one case on which the SPEC (not the model) fails on the implementation.
        signature: short string matched against the open entries of known_findings.json."""
        for f in self.findings.get("findings", []):
            if f["property"] == self.prop and f.get("status") == "open" and \
               re.fullmatch(f["signature"], signature):
                self.known_hits.setdefault(f["id"], [0, f["what"]])[0] += 1
                return "known"
        self.violations.append((signature, what, case))
        return "new"

    def disagreement(self, name, detail, case=None):
        """Model and implementation differ (C-BROKEN)."""
        self.broken.append(("C-BROKEN", name, detail if case is None else
                            "%s :: case=%s" % (detail, json.dumps(case)[:1500])))

    # -------------------------------------------------------------------- verdict
    def write_replay(self, obj):
        d = os.path.join(VERIF, "replays")
        os.makedirs(d, exist_ok=True)
        h = hashlib.sha1(json.dumps(obj, sort_keys=True).encode()).hexdigest()[:10]
        path = os.path.join(d, "%s-%s-seed%d-%s.json" % (self.prop, self.tier, self.seed, h))
        with open(path, "w") as f:
            json.dump(obj, f, indent=1)
        return path

    def finish(self, level, coverage, assumptions, trusted_base, checker_cmd):
        rc = 0
        for fid, (cnt, what) in sorted(self.known_hits.items()):
            print("KNOWN-FINDING: property=%s %s [%s, %d case(s) this run]" % (self.prop, what, fid, cnt))
        out_lines = []
        if self.violations:
            rc = 1
            seen = set()
            for sig, what, case in self.violations:
                if sig in seen:
                    continue
                seen.add(sig)
                path = self.write_replay({"property": self.prop, "kind": "input", "signature": sig,
                                          "what": what, "case": case, "seed": self.seed, "tier": self.tier,
                                          "broken": [list(b) for b in self.broken][:5],
                                          "replay_cmd": "./check.py %s --replay <this file>" % self.prop})
                out_lines.append("VIOLATION property=%s replay=%s" % (self.prop, path))
                self.log("violation:", what)
                if len(seen) >= 5:
                    break
        elif self.broken:
            rc = 1
            path = self.write_replay({"property": self.prop, "kind": "theorem-or-correspondence",
                                      "broken": [list(b) for b in self.broken], "seed": self.seed,
                                      "tier": self.tier,
                                      "note": "a proof obligation or the model/implementation correspondence no longer "
                                              "checks, and no input on which the specification itself fails was found"})
            for b in self.broken[:6]:
                self.log("broken:", b[0], b[1], "::", str(b[2])[:600])
            out_lines.append("VIOLATION property=%s replay=%s no-failing-input-found" % (self.prop, path))
        n_obl = len(self.obligations)
        n_dis = sum(1 for _, ok in self.obligations if ok)
        cov = dict(coverage)
        cov.setdefault("obligations", n_obl)
        cov.setdefault("discharged", n_dis)
        cov.setdefault("checker_cmd", checker_cmd)
        cov.setdefault("trusted_base", trusted_base)
        cov["theorems"] = {k: v for k, v in self.theorems.items()}
        cov["known_findings_hit"] = {k: v[0] for k, v in self.known_hits.items()}
        cov["broken"] = [list(b)[:2] for b in self.broken]
        ev = {"property_id": self.prop, "tier": self.tier, "seed": self.seed, "level": level,
              "coverage": cov, "assumptions": assumptions,
              "wall_s": round(time.time() - self.t0, 2),
              "violations": len(set(v[0] for v in self.violations)) + (1 if (self.broken and not self.violations) else 0)}
        os.makedirs(os.path.join(VERIF, "evidence"), exist_ok=True)
        with open(os.path.join(VERIF, "evidence", self.prop + ".json"), "w") as f:
            json.dump(ev, f, indent=1, sort_keys=True)
        for l in out_lines:
            print(l, flush=True)
        self.log("done rc=%d obligations=%d/%d evaluations=%s" % (rc, n_dis, n_obl, cov.get("evaluations")))
        return rc


def hexs(b):
    return b.hex() if b else "-"


def unhex(s):
    return b"" if s == "-" else bytes.fromhex(s)
