"""C20: deterministic situations.  An adaptive driver steers the controlled scheduler (harness/sched) to a named
situation - a host in each phase, the watchdog / a worker holding a mutex, the clock a chosen number of seconds after
the first interrupt - by looking at what each thread has done so far and what is runnable, one step at a time.  The
schedule found is an ordinary `choices` list (replayable), so nothing depends on the seed or on how many operations a
handler happens to perform in the tree under test.

Classes produced (all run in every quick tier, before anything random):
  phases    N=6 f=4: h0 done, h1 in teardown, h2 running, h3 connecting, h4 created but not yet marked, h5 not started,
            the dispatcher waiting for room; variants: as is / the watchdog holds thd_mutex / a worker holds thd_mutex /
            a worker holds threadcount_mutex; every signal plan, with and without -b
  boundary  a slow host keeps the clock able to tick: ^C handled, k = 0..3 seconds pass, then ^C or ^Z (k = 1 is exactly
            INTR_TIME: still abort / cancel; k = 2 the first second beyond: report / stop); also a second between the
            delivery of the first ^C and its handling
  drain     every worker done, the dispatcher in its shutdown tail: a signal before and after each of cancel/join of
            the watchdog and of the signals thread
"""
from vlib import sched
from vlib.sigcheck import SIGINT, SIGTSTP


def _events(res, upto):
    """{thread: [event token lists]} of the first `upto` scheduled steps"""
    out = {}
    for s, ev in res["steps"][:upto]:
        out.setdefault(ev[0], []).append(ev[1:])
    return out


def _probe(exe, scratch, case, prefix):
    """run the prefix and one more step; -> (events by thread, state line at the end of the prefix or None, result)"""
    res = sched.run_case(exe, dict(case, strategy="list", choices=list(prefix), budget=len(prefix) + 1, signals=[],
                                   spurious=None, tickrate=0), scratch)
    if res["crash"] is not None or res["M"] is None:
        return None, None, res
    if (res["M"] or {}).get("diverged") == "1":
        return None, None, res
    n = len(prefix)
    st = res["steps"][n][0] if len(res["steps"]) > n else res.get("last_S")
    return _events(res, n), st, res


def _names(st, key):
    return [x for x in (st.get(key) or "").split(",") if x and x != "-"]


def drive(exe, scratch, case, stages, prefix=None, maxlen=400):
    """stages: list of
         ("goals", {thread: predicate(list of its events) -> reached}, [threads in the order they are preferred],
                   [helper threads run when no thread with an unmet goal is runnable])
         ("tok", "i2")              a delivery (i<signo>)
         ("run", "W1", k)           k operations of one thread
         ("quiesce", "Z")           the thread runs until it is no longer runnable
         ("ticks", k)               the clock advances k times (fails when time cannot pass)
       -> the list of choices, or None when the situation cannot be reached in the tree under test"""
    prefix = list(prefix or [])
    for stage in stages:
        kind = stage[0]
        if kind == "tok":
            prefix.append(stage[1])
            continue
        while len(prefix) < maxlen:
            evs, st, res = _probe(exe, scratch, case, prefix)
            if evs is None:
                return None
            if st is None:                      # the run is over
                if kind in ("quiesce",):
                    break
                return None
            R = _names(st, "R")
            if kind == "goals":
                goals, order = stage[1], stage[2]
                todo = [t for t in order if not goals[t](evs.get(t, []))]
                if not todo:
                    break
                pick = [t for t in todo if t in R] or [t for t in (stage[3] if len(stage) > 3 else []) if t in R]
                if pick:
                    prefix.append(pick[0])
                elif st.get("T") == "1":
                    prefix.append("t")
                else:
                    return None
            elif kind == "run":
                done = stage[3] if len(stage) > 3 else 0
                if done >= stage[2]:
                    break
                if stage[1] not in R:
                    return None
                prefix.append(stage[1])
                stage = (kind, stage[1], stage[2], done + 1)
            elif kind == "quiesce":
                if stage[1] not in R:
                    break
                prefix.append(stage[1])
            elif kind == "ticks":
                done = stage[2] if len(stage) > 2 else 0
                if done >= stage[1]:
                    break
                if st.get("T") != "1":
                    return None
                prefix.append("t")
                stage = (kind, stage[1], done + 1)
        else:
            return None
    return prefix


def has(e, a=None, n=1):
    return lambda evs: sum(1 for x in evs if x and x[0] == e and (a is None or (len(x) > 1 and x[1] == a))) >= n


def _host(i, out_at=0, conn_at=0):
    h = {"name": "h%d" % i, "out": [[out_at, ("o%d-0\n" % i).encode().hex()], [out_at, "EOF"]]}
    if conn_at:
        h["connect"] = "ok"
        h["connect_at"] = conn_at
    return h


BASE = {"inline": 1, "budget": 4000, "yield": "fan,thd,sig", "tickrate": 60}
OPTS = {"labels": 1, "S": 1, "ct": 0, "ut": 0, "tstates": 1, "batch": 0}
PLANS = [("int", 0, [SIGINT]), ("int", 1, [SIGINT]), ("int-int", 0, [SIGINT, SIGINT]), ("int-tstp", 0, [SIGINT, SIGTSTP]),
         ("tstp", 0, [SIGTSTP]), ("int-int", 1, [SIGINT, SIGINT])]


def _finish(skel, prefix, plan, batch, sigs, rng, tag, gaps=(0, 1, 4, 9)):
    """the cases that deliver `sigs` from the situation `prefix`: the first as the next step, the second (if any) `gap`
    steps later (an absolute step, so it arrives whatever the handler does in between); the signals thread runs at once
    (eager) or whoever the seeded strategy picks (mixed)"""
    out = []
    p = len(prefix)
    for gap in (gaps if len(sigs) > 1 else (0,)):
        for mode in ("eager", "mixed"):
            c = dict(skel, opts=dict(skel["opts"], batch=batch), strategy="uniform", seed=rng.randrange(1, 1 << 30),
                     choices=list(prefix) + ["i%d" % sigs[0]] + (["Z"] * 40 if mode == "eager" else []),
                     signals=[[p + 1 + gap + 9 * k, sg] for k, sg in enumerate(sigs[1:])])
            c["_plan"] = plan
            c["_class"] = tag
            out.append(c)
    return out


def phase_cases(exe, scratch, rng, log=None):
    """-> (cases, report): report = {class/variant: number of cases, or "unreachable"}"""
    cases, report = [], {}
    # ---- a host in each phase
    hosts = [_host(0), _host(1), _host(2, out_at=3), _host(3, conn_at=2), _host(4), _host(5)]
    skel = dict(BASE, fanout=4, hosts=hosts, opts=dict(OPTS))
    goals = {"W0": has("unlock", "tc"), "W1": has("destroyBegin"), "W2": has("unlock", "thd", 2), "W3": has("connectBegin"),
             "D": lambda evs: has("create", "W4")(evs) and bool(evs) and evs[-1][:2] == ["wait", "tc"]}
    base = drive(exe, scratch, skel, [("goals", goals, ["W0", "W1", "W2", "W3", "D"])])
    variants = [("asis", []), ("wdog-holds-thd", [("run", "G", 1)]), ("worker-holds-thd", [("run", "W4", 1)]),
                ("worker-holds-tc", [("run", "W1", 2)]), ("wdog-mid-scan", [("run", "G", 5)]), ("pdcp", [])]
    skel0 = skel
    for vname, extra in variants:
        key = "phases/" + vname
        skel = skel0
        if vname == "pdcp":
            # the copy personality: the workers are _rcp_thread (same protocol, its own code), steered from scratch
            skel = dict(skel0, opts=dict(OPTS, pers="pcp"))
            pre = drive(exe, scratch, skel, [("goals", goals, ["W0", "W1", "W2", "W3", "D"])])
        else:
            pre = drive(exe, scratch, skel, extra, prefix=base) if base is not None else None
        if pre is None:
            report[key] = "unreachable"
            continue
        n0 = len(cases)
        for plan, batch, sigs in PLANS:
            cases += _finish(skel, pre, plan, batch, sigs, rng, key)
        report[key] = len(cases) - n0
    # ---- the INTR_TIME boundary: k seconds between the handling of the first ^C and the second signal
    hosts = [_host(0, out_at=6), _host(1)]
    skel = dict(BASE, fanout=1, hosts=hosts, opts=dict(OPTS))
    goals = {"W0": has("unlock", "thd", 2), "D": lambda evs: bool(evs) and evs[-1][:2] == ["wait", "tc"]}
    base = drive(exe, scratch, skel, [("goals", goals, ["D", "W0"])])
    for second, sname in ((SIGINT, "int-int"), (SIGTSTP, "int-tstp")):
        for j in (0, 1):            # seconds between the delivery of the first ^C and its handling
            for k in (0, 1, 2, 3):  # seconds between its handling and the second signal
                key = "boundary/%s/wait%d/gap%d" % (sname, j, k)
                pre = None
                if base is not None:
                    pre = drive(exe, scratch, skel, [("tok", "i%d" % SIGINT), ("ticks", j), ("quiesce", "Z"), ("ticks", k),
                                                     ("tok", "i%d" % second), ("quiesce", "Z")], prefix=base)
                if pre is None:
                    report[key] = "unreachable"
                    continue
                c = dict(skel, strategy="uniform", seed=rng.randrange(1, 1 << 30), choices=pre, signals=[])
                c["_plan"] = sname
                c["_class"] = "boundary/%s/gap%d" % (sname, k)
                cases.append(c)
                report[key] = 1
    # ---- the shutdown tail: a signal around each of cancel / join of the watchdog and of the signals thread
    hosts = [_host(0), _host(1)]
    skel = dict(BASE, fanout=2, hosts=hosts, opts=dict(OPTS))
    done = {"W0": has("unlock", "tc"), "W1": has("unlock", "tc")}
    tail = [("after-last-completion", {}), ("dispatcher-drained", {"D": has("unlock", "tc", 3)}),
            ("after-cancel-wdog", {"D": has("cancel", "G")}), ("after-join-wdog", {"D": has("join", "G")})]
    for tname, dgoal in tail:
        key = "drain/" + tname
        g = dict(done, **dgoal)
        pre = drive(exe, scratch, skel, [("goals", g, ["W0", "W1"] + list(dgoal), ["D", "G"])])
        if pre is None:
            report[key] = "unreachable"
            continue
        n0 = len(cases)
        for plan, batch, sigs in PLANS:
            cases += _finish(skel, pre, plan, batch, sigs, rng, key, gaps=(0, 1, 3))
            # sigwait has taken the signal, dsh() goes on and asks the thread to end in the middle of the handler
            c = dict(skel, opts=dict(skel["opts"], batch=batch), strategy="eagerD", seed=rng.randrange(1, 1 << 30),
                     choices=list(pre) + ["i%d" % sigs[0], "Z"] + ["D"] * 8, signals=[])
            c["_plan"] = plan
            c["_class"] = key
            cases.append(c)
        report[key] = len(cases) - n0
    return cases, report


def pair_cases(exe, scratch, rng, quick=True):
    """^C then ^C / ^Z with the first at EVERY position of a base schedule and the second at EVERY distance (in steps)
    up to the end of the run, the signals thread running at once; two tiny configurations (one of them with a pending
    target, so that ^Z has something to cancel; a slow host lets the clock tick in between)"""
    cases = []
    cfgs = [("pairs/n1f1", 1, [_host(0, out_at=2)]), ("pairs/n2f1", 1, [_host(0, out_at=1), _host(1)])]
    for name, f, hosts in cfgs:
        skel = dict(BASE, fanout=f, hosts=hosts, opts=dict(OPTS), tickrate=150)
        b = sched.run_case(exe, dict(skel, strategy="first", choices=[], signals=[], tickrate=0), scratch)
        L = len(b["steps"])
        ch = b["choices"]
        for second, plan in ((SIGTSTP, "int-tstp"), (SIGINT, "int-int")):
            if quick and len(hosts) > 1 and plan == "int-int":
                continue
            stride = 1 if not quick or (len(hosts) == 1 and plan == "int-tstp") else 2
            for p in range(0, L + 1):
                for d in range(1, L - p + 10, stride):
                    c = dict(skel, strategy="uniform", seed=rng.randrange(1, 1 << 30), signals=[[p, SIGINT], [p + d, second]],
                             choices=ch[:p] + ["Z"] * 40)
                    c["_plan"] = plan
                    c["_class"] = name
                    cases.append(c)
    return cases


def timeout_cases(exe, scratch, rng):
    """-u 2: h0 hangs (timed out by the watchdog), h1 is slow (its output comes a second too late), h2 waits for a slot.
    A signal at every position of a base run - so also between the watchdog's lock(thd_mutex), its pthread_kill and
    its unlock, and while the interrupted worker forwards SIGTERM - for the plans -b ^C, ^C, ^C ^C, ^C ^Z."""
    hosts = [{"name": "h0", "out": [[50, "EOF"]]}, _host(1, out_at=3), _host(2)]
    skel = dict(BASE, fanout=2, hosts=hosts, opts=dict(OPTS, ut=2), tickrate=120)
    b = sched.run_case(exe, dict(skel, strategy="uniform", seed=rng.randrange(1, 1 << 30), choices=[], signals=[]), scratch)
    L = len(b["steps"])
    cases = []
    for p in range(0, L + 1):
        for plan, sigs, batch in (("int", [SIGINT], 1), ("int", [SIGINT], 0), ("int-int", [SIGINT, SIGINT], 0),
                                  ("int-tstp", [SIGINT, SIGTSTP], 0)):
            c = dict(skel, opts=dict(skel["opts"], batch=batch), strategy="uniform", seed=rng.randrange(1, 1 << 30),
                     signals=[[p, sigs[0]]] + [[p + 4, sg] for sg in sigs[1:]], choices=b["choices"][:p] + ["Z"] * 40)
            c["_plan"] = plan
            c["_class"] = "timeouts/every-position"
            cases.append(c)
    return cases
