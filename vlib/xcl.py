"""C02: the DETERMINISTIC part of the case generator — the classes of command lines every run covers, whatever the
seed (checks/c02.py runs them first, before the random profiles).

Each family enumerates one dimension the property text names:
  order      every permutation of two target words, an exclusion that spans both and a filter, written as separate
             options and as ONE comma argument
  source     every way of naming an exclusion (-x list, `-` word, -x ^file, -w -^file, files with comments / blank
             lines / blanks / #include, one name per line or ranges, blank-separated names) x every way of naming the
             targets (-w words, -w ^file, the file named by $WCOLL as the only source)
  lookalike  families of names that differ by a cut or extended prefix, zero padding, a suffix, letter case, a dot /
             dash, a numeric tail around 2^25, all-digit names: the whole family is targeted, ONE member is excluded
             (only that one may go) — and the other way round (one targeted, all the others excluded: it must stay)
  dup        a host named twice at the first / middle / last position of the target list, of an exclusion, of a file
  regex      patterns that match everything / nothing / the empty string, anchors, alternation, classes, as /re/ and
             as -/re/, with and without the closing slash, two filters in both orders
  zero       host number 0 at every position of an exclusion word (the enumeration of an exclusion ends there)
  twobr      two-bracket words as targets, as exclusions, in files, under filters
  size       exclusion files whose ranged form is exactly 4093..4097 and 8190..8193 bytes; long -x lists
  malformed  exclusion words hostlist_create refuses (unbalanced brackets) at every position among well-formed ones
  oneword    several words in ONE -w argument in every order of {target, -exclusion, /re/, -/re/}: the word after a dash
  reonly     arguments holding only filters x the target source ($WCOLL read / ignored)
  xonly      command lines holding only exclusions (-x list, `-` words, -x ^file) x the target source ($WCOLL read / ignored)
  longtail   a name whose digit tail overflows strtoul (20+ digits) at every position of an exclusion list, among the
             exclusion options, in an exclusion file, among the targets: the names around it are parsed as ever
"""
import itertools
import os


def split_top(expr):
    out, depth, cur = [], 0, ""
    for ch in expr + ",":
        if ch == "," and depth == 0:
            out.append(cur)
            cur = ""
        else:
            depth += ch == "["
            depth -= ch == "]"
            cur += ch
    return [w for w in out if w]


def plain_opts(items, style):
    """items -> options, deterministically.
    sep   every item its own option: -w word / -x word / -w ^f / -x ^f / -w /re/ / -x /re/
    dash  every item its own -w option, exclusions and drops behind a `-`
    one   ONE -w argument, comma separated
    onex  the targets and keeps in one -w argument, all exclusions / drops in one -x argument
    bare  like sep but filters without the closing slash"""
    ws = []
    for kind, text in items:
        slash = "" if style == "bare" and not text.endswith("/") else "/"
        if kind == "tgt":
            ws.append(("-w", text))
        elif kind == "tfile":
            ws.append(("-w", "^" + text))
        elif kind == "keep":
            ws.append(("-w", "/" + text + slash))
        elif kind == "xcl":
            ws.append(("-x", text))
        elif kind == "xfile":
            ws.append(("-x", "^" + text))
        else:
            ws.append(("-x", "/" + text + slash))
    def dashed(w):
        return ",".join("-" + p for p in split_top(w)) if not w.startswith(("^", "/")) else "-" + w
    if style in ("sep", "bare"):
        return ws
    if style == "dash":
        return [("-w", w if f == "-w" else dashed(w)) for f, w in ws]
    if style == "one":
        return [("-w", ",".join(w if f == "-w" else dashed(w) for f, w in ws))]
    if style == "onex":
        out = []
        tw = [w for f, w in ws if f == "-w"]
        xw = [w for f, w in ws if f == "-x"]
        # the relative order of -w and -x follows the first item
        first_x = bool(ws) and ws[0][0] == "-x"
        if tw:
            out.append(("-w", ",".join(tw)))
        if xw:
            out.insert(0 if first_x else len(out), ("-x", ",".join(xw)))
        return out
    raise ValueError(style)


class Maker:
    def __init__(self, Case, cwd):
        self.Case, self.cwd, self.n, self.out = Case, cwd, 0, []

    def fname(self, tag):
        self.n += 1
        return os.path.join(self.cwd, "s%d_%s" % (self.n, tag))

    def add(self, family, items, style="sep", files=None, raw=None, wcoll_env=None, opts=None, note=""):
        c = self.Case()
        c.items = [tuple(i) for i in items]
        c.files = dict(files or {})
        c.raw = dict(raw or {})
        c.wcoll_env = wcoll_env
        shown = [i for i in c.items if not (wcoll_env and i == ("tfile", wcoll_env))]
        c.opts = opts if opts is not None else plain_opts(shown, style)
        c.tags = {"sys:" + family} | ({note} if note else set())
        self.out.append(c)
        return c


LOOKALIKE = {
    # name -> members; every member is a distinct host name
    "prefix-suffix-case": ["foo", "foo1", "foo01", "foo001", "foo10", "foo11", "foo1-ib", "foo1x", "Foo1", "FOO1", "fo1",
                           "oo1", "fo", "foo-1", "foo.1", "xfoo1", "foo1-ib0", "foo1-ib1"],
    "padding": ["n9", "n09", "n009", "n10", "n010", "n0010", "n1", "n01", "n100", "n19", "n90", "n0", "n00", "n", "n9n"],
    "digit-prefix": ["a1b2", "a1b02", "a1b3", "a1b", "a1", "a01b2", "a1b22", "a11b2", "x9y", "x9", "x09y", "x9y0"],
    "all-digit": ["0", "00", "1", "01", "10", "010", "100", "9", "11", "011", "1-1", "1.1"],
    "dots-dashes": ["a.b1", "a-b1", "ab1", "a.b.1", "a-b-1", "a.1", "a.01", "10.0.0.1", "10.0.0.11", "10.0.0.01", "10.0.1",
                    "a_b1", "a-1", "a--1", "a.b", "a.b1.", "a.b1-"],
    "big-tail": ["n33554431", "n33554432", "n33554433", "n033554433", "n3355443", "n335544330", "m33554433",
                 "n33554433x", "n33554434", "n4294967296", "n4294967297", "n18446744073709551615x"],
    "unnumbered": ["mgmt", "mgmt1", "mgmt2", "mgmt3", "login", "login7", "mgm", "mgmt-", "mgmtx", "logi", "login07", "Mgmt",
                   "LOGIN"],
}

# the same hosts written as ranges where the family allows it (what the user would type)
RANGED = {
    "prefix-suffix-case": "foo,foo[1,10-11],foo[01],foo001,foo1-ib,foo1x,Foo1,FOO1,fo1,oo1,fo,foo-1,foo.1,xfoo1,foo1-ib[0-1]",
    "padding": "n[9-10],n[09],n009,n010,n0010,n1,n01,n100,n19,n90,n0,n00,n,n9n",
    "all-digit": "[0-1],00,01,[9-11],010,100,011,1-1,1.1",
    "big-tail": "n[33554431-33554434],n033554433,n3355443,n335544330,m33554433,n33554433x,n[4294967296-4294967297],"
                "n18446744073709551615x",
    "unnumbered": "mgmt,mgmt[1-3],login,login7,mgm,mgmt-,mgmtx,logi,login07,Mgmt,LOGIN",
}


def ranged_names(expr):
    """names of the RANGED texts above (one bracket, no second level)"""
    import re
    out = []
    for w in split_top(expr):
        m = re.fullmatch(r"([^\[\]]*)\[([0-9,\-]+)\]([^\[\]]*)", w)
        if not m:
            out.append(w)
            continue
        for it in m.group(2).split(","):
            lo, _, hi = it.partition("-")
            hi = hi or lo
            out += [m.group(1) + str(v).zfill(len(lo)) + m.group(3) for v in range(int(lo), int(hi) + 1)]
    return out


REGEXES = ["", "^", "$", "^$", ".*", "()", "x*", "a*", ".", "^foo", "1$", "^foo1$", "foo1|bar", "^(foo1|bar)$", "[0-9]+$",
           "^[^0-9]*$", "FOO", "o{2}", "\\.", "-", "^.{4}$", "(^b|0$)", "[[:digit:]]", "^foo[1-3]$", "foo1", "^bar", "r$",
           "[[:upper:]]", "(foo|Foo)1$", "^(.*)$", "oo1?$", "o+[0-9]", "^$|1", "b[^a]", "/", "a/",
           # long patterns (a fixed-size copy of the pattern would cut them)
           "^(nosuch1|nosuch2|nosuch3|nosuch4|nosuch5|nosuch6|foo1|bar)$",
           "^(" + "|".join("absent%03d" % k for k in range(60)) + "|foo2|a\\.b)$"]


def xfile_names(target_len):
    """names whose comma-joined text is exactly target_len bytes (no two coalesce: every name ends in a letter)"""
    names, total, k = [], -1, 0
    while True:
        nm = "h%dq" % (1000 + k)
        k += 1
        rest = target_len - total - 1
        if rest <= 0:
            break
        if rest < 2 * len(nm) + 2:
            if rest >= 2:
                names.append("h" + "q" * (rest - 1))
                total += 1 + rest
            else:           # one byte left: lengthen the previous name
                names[-1] = names[-1] + "q"
                total += 1
            break
        names.append(nm)
        total += 1 + len(nm)
    assert len(",".join(names)) == target_len, (len(",".join(names)), target_len)
    assert len(set(names)) == len(names)
    return names


def systematic(Case, cwd, thorough=False):
    mk = Maker(Case, cwd)
    # ---------------------------------------------------------------- order
    base = [("tgt", "foo[1-5]"), ("xcl", "foo[4-7]"), ("tgt", "foo[6-9]"), ("drop", "8$")]
    for k, perm in enumerate(itertools.permutations(base)):
        mk.add("order", perm, "sep")
        mk.add("order", perm, "one" if k % 2 else "dash")
    base2 = [("tgt", "a[1-3],b1"), ("keep", "[123]$"), ("xcl", "a2,b1"), ("tgt", "b[1-3],a[3-4]"), ("drop", "^b3")]
    for k, perm in enumerate(itertools.permutations(base2)):
        if k % 5 == 0 or thorough:
            mk.add("order", perm, ["sep", "one", "onex", "dash", "bare"][(k // 5) % 5])
    # ---------------------------------------------------------------- sources
    tnames = ["foo[1-6]", "bar,baz7", "foo[5-8]"]
    xl = ["foo[2-3]", "baz7", "foo6"]

    def xsources():
        """(label, items, files, raw) for every way of writing the exclusions foo2 foo3 baz7 foo6"""
        yield "x-list", [("xcl", ",".join(xl))], {}, {}
        yield "x-each", [("xcl", e) for e in xl], {}, {}
        f = mk.fname("x")
        yield "xfile-ranges", [("xfile", f)], {f: list(xl)}, {}
        f = mk.fname("x")
        yield "xfile-one-per-line", [("xfile", f)], {f: ["foo2", "foo3", "baz7", "foo6"]}, {}
        f = mk.fname("x")
        yield "xfile-comments", [("xfile", f)], {f: ["foo[2-3]", "baz7", "foo6"]}, {
            f: "# excluded hosts\n\nfoo[2-3]   # two of them\n   \n\tbaz7\t\n#foo1\nfoo6 #,foo4\n\n"}
        f, g = mk.fname("x"), mk.fname("inc")
        yield "xfile-include", [("xfile", f)], {f: ["foo[2-3]", "baz7", "foo6"]}, {
            f: "#include %s\nfoo6\n#include %s\n" % (g, g), g: "foo[2-3]\nbaz7\n"}
        f = mk.fname("x")
        yield "xfile-blank-separated", [("xfile", f)], {f: ["foo2 foo3", "baz7\tfoo6"]}, {}
        f, g = mk.fname("x"), mk.fname("x")
        yield "xfile-two-overlapping", [("xfile", f), ("xfile", g)], {f: ["foo[2-3]", "baz7"], g: ["foo[3,6]", "baz7"]}, {}
        yield "x-blank-separated", [("xcl", "foo2 foo3"), ("xcl", "baz7\tfoo6")], {}, {}

    def tsources():
        yield "w", [("tgt", t) for t in tnames], {}, None
        f = mk.fname("t")
        yield "tfile", [("tfile", f)], {f: list(tnames)}, None
        f = mk.fname("w")
        yield "WCOLL", [("tfile", f)], {f: list(tnames)}, f
        f = mk.fname("t")
        yield "tfile+w", [("tgt", tnames[0]), ("tfile", f)], {f: tnames[1:]}, None

    k = 0
    for tl, titems, tfiles, wenv in tsources():
        for xlabel, xitems, xfiles, xraw in xsources():
            for first in ("t", "x"):
                k += 1
                if first == "x" and k % 2 and not thorough:
                    continue
                items = titems + xitems if first == "t" else xitems + titems
                files = dict(tfiles)
                files.update(xfiles)
                style = ["sep", "dash", "one"][k % 3]
                mk.add("source", items, style, files=files, raw=xraw, wcoll_env=wenv, note="%s/%s" % (tl, xlabel))
        # filters on every target source
        mk.add("source", titems + [("drop", "[13]$")], "sep", files=tfiles, wcoll_env=wenv, note=tl + "/drop")
        mk.add("source", [("keep", "^foo")] + titems, "dash", files=tfiles, wcoll_env=wenv, note=tl + "/keep")
    # blanks behind the dash / in front of a word (wcoll_arg_process skips them before it looks for ^ and /)
    f = mk.fname("x")
    mk.add("source", [("tgt", "foo[1-6],bar"), ("xcl", "foo[2-3]"), ("xcl", "bar")], files={},
           opts=[("-w", "foo[1-6],bar,- foo[2-3]"), ("-x", " bar")], note="blank-after-dash")
    mk.add("source", [("tgt", "foo[1-6],bar"), ("xfile", f), ("drop", "^b")], files={f: ["foo[2-3]"]},
           opts=[("-w", "foo[1-6],bar,- ^" + f), ("-x", " /^b/")], note="blank-after-dash")
    mk.add("source", [("tgt", "foo[1-6],bar"), ("xfile", f), ("keep", "[1-5]$")], files={f: ["foo[2-3]"]},
           opts=[("-x", "\t^" + f), ("-w", "foo[1-6],bar"), ("-w", " /[1-5]$/")], note="blank-after-dash")
    # target words with a `user@` / `rcmd_type:` part: the exclusion names the bare host
    mk.add("source", [("tgt", "foo[1-3]"), ("tgt", "bar"), ("xcl", "foo2")],
           opts=[("-w", "alice@foo[1-3],bar"), ("-x", "foo2")], note="user-at")
    mk.add("source", [("tgt", "foo[1-3]"), ("xcl", "foo[2-3]"), ("tgt", "bar,foo3")],
           opts=[("-w", "exec:foo[1-3],-foo[2-3]"), ("-w", "exec:bob@bar,foo3")], note="user-at")
    mk.add("source", [("tgt", "foo[1-3]"), ("drop", "2$"), ("xcl", "alice@foo1")],
           opts=[("-w", "exec:alice@foo[1-3],-/2$/"), ("-x", "alice@foo1")], note="user-at")
    # a target file with comments, blank lines and an include
    f, g = mk.fname("t"), mk.fname("inc")
    mk.add("source", [("tfile", f), ("xcl", "foo2,bar")], "sep", files={f: ["foo[1-3]", "bar", "foo2", "baz"]},
           raw={f: "# targets\nfoo[1-3]\n\n#include %s\n  foo2  # again\nbaz\n" % g, g: "bar\n"}, note="tfile-comments")
    # ---------------------------------------------------------------- look-alikes
    for fam, members in LOOKALIKE.items():
        forms = [",".join(members)]
        if fam in RANGED:
            assert sorted(ranged_names(RANGED[fam])) == sorted(members), fam
            forms.append(RANGED[fam])
        for i, x in enumerate(members):
            form = forms[i % len(forms)]
            if i % 3 == 2:
                f = mk.fname("x")
                mk.add("lookalike", [("tgt", form), ("xfile", f)], "sep" if i % 2 else "dash", files={f: [x]}, note=fam)
            else:
                mk.add("lookalike", [("tgt", form), ("xcl", x)], ["sep", "dash", "one"][i % 3], note=fam)
            if thorough or i % 2 == 0:
                # the other way round: x alone (and twice) targeted, every look-alike excluded
                others = [m for m in members if m != x]
                mk.add("lookalike", [("xcl", ",".join(others)), ("tgt", x + "," + x)], "sep", note=fam + "/inverse")
        # the ranged form of the whole family as an exclusion of the listed form: nobody is left
        if fam in RANGED:
            mk.add("lookalike", [("tgt", forms[0] + ",keep1"), ("xcl", RANGED[fam])], "sep", note=fam + "/all")
    # ---------------------------------------------------------------- duplicates
    tdups = ["a1,a2,a3,a1", "a1,a1,a2,a3", "a1,a2,a2,a3", "a1,a2,a3,a3", "a[1-3],a[1-3]", "a[1-3],a[2-4]", "a2,a[1-3],a2",
             "a[1-3],b,a[1-3],b", "a02,a2,a02,a[1-2]"]
    xdups = ["a2", "a1", "a3", "a[1-2]", "a2,a2", "a[1-2],a[2-3]", "b", "a02"]
    for i, t in enumerate(tdups):
        for j, x in enumerate(xdups):
            if (i + j) % 2 == 0 or thorough:
                mk.add("dup", [("tgt", t), ("xcl", x)], ["sep", "one", "dash"][(i + j) % 3])
    f, g = mk.fname("t"), mk.fname("x")
    mk.add("dup", [("tfile", f), ("tfile", f), ("xfile", g), ("xfile", g)], "sep", files={f: ["a[1-3]", "a2"], g: ["a2", "a2"]})
    mk.add("dup", [("tfile", f), ("tgt", "a[2-4]"), ("tfile", f), ("xcl", "a3"), ("xcl", "a3")], "dash", files={f: ["a[1-3]"]})
    mk.add("dup", [("tgt", "a[1-3],a[1-3]"), ("drop", "2"), ("drop", "2")], "sep")
    mk.add("dup", [("tgt", "a[1-3],a[1-3]"), ("keep", "2"), ("keep", "2")], "one")
    # ---------------------------------------------------------------- regex
    rt = "foo[1-3],bar,foo10,Foo1,b-1,a.b,foo1"
    for i, p in enumerate(REGEXES):
        for kind in ("keep", "drop"):
            mk.add("regex", [("tgt", rt), (kind, p)], ["sep", "bare", "dash", "one"][(i + (kind == "drop")) % 4])
    for a, b in [("^foo", "1$"), (".*", "^$"), ("", "x*"), ("o", "10"), ("^(foo1|bar)$", "bar")]:
        mk.add("regex", [("tgt", rt), ("keep", a), ("drop", b)], "sep")
        mk.add("regex", [("drop", b), ("keep", a), ("tgt", rt)], "one")
        mk.add("regex", [("keep", a), ("keep", b), ("tgt", rt)], "dash")
    # every position of a range removed by a filter (the iterator stands inside the record hostlist_remove changes)
    pt = "n[1-5],m,n[7-8]"
    for i, p in enumerate(["1$", "2$", "3$", "4$", "5$", "[12]$", "[23]$", "[45]$", "[135]$", "[24]$", "[1-5]$", "^n", "^m",
                           "[578]$", "[1-7]$", "8$"]):
        mk.add("regex", [("tgt", pt), ("drop", p)], ["sep", "one"][i % 2], note="position")
        mk.add("regex", [("tgt", pt), ("keep", p)], ["dash", "bare"][i % 2], note="position")
    # ---------------------------------------------------------------- names with a suffix behind the bracket
    st = "foo[1-3]-ib,foo[1-3],foo[1-3]-ib0,foo[1-3]-ib"
    for i, x in enumerate(["foo2-ib", "foo2", "foo[1-2]-ib", "foo2-ib0", "foo[2-3]-ib[0]", "foo[1-3]-i", "foo[1-3]-ib00",
                           "foo2-IB", "foo[1-3]", "foo[1-3]-ib[0-1]"]):
        mk.add("suffix", [("tgt", st), ("xcl", x)], ["sep", "dash", "one"][i % 3])
    f = mk.fname("x")
    mk.add("suffix", [("tgt", st), ("xfile", f)], "sep", files={f: ["foo[1-2]-ib", "foo3-ib0"]})
    # ---------------------------------------------------------------- empty pieces: leading, doubled, trailing commas
    mk.add("source", [("tgt", "foo[1-3]"), ("tgt", "bar"), ("xcl", "foo2")], opts=[("-w", ",foo[1-3],,bar,"), ("-x", ",,foo2,")],
           note="empty-pieces")
    mk.add("source", [("tgt", "foo[1,3]"), ("xcl", "foo[3,5]"), ("drop", "r$"), ("tgt", "bar")],
           opts=[("-w", "foo[1,3],,-foo[3,5],,,-/r$/,bar,,")], note="empty-pieces")
    # ---------------------------------------------------------------- host number 0 inside an exclusion
    zt = "foo[0-6],alpha,node[0-2],node00,beta,n[00-03]"
    for x in ["foo[5,0]", "foo[0,5]", "foo[0-2,5]", "foo[5,0-2]", "alpha,node0", "node0,alpha", "foo[3,0],node[2,0],beta",
              "alpha node00", "node00 alpha", "n[02,00]", "n[00-01],beta", "beta,n[00-01]", "foo0", "foo[0-6]",
              "alpha,node[0-2],beta"]:
        mk.add("zero", [("tgt", zt), ("xcl", x)], "sep")
    for lines in [["alpha", "node0"], ["node0", "alpha"], ["alpha", "node0", "beta"], ["foo[5-6]", "n[00-03]"],
                  ["n[00-03]", "foo[5-6]"], ["alpha,foo0"], ["foo5 foo0"], ["node00", "node0", "alpha"]]:
        f = mk.fname("x")
        mk.add("zero", [("tgt", zt), ("xfile", f)], "sep" if len(lines) % 2 else "dash", files={f: lines})
    # ---------------------------------------------------------------- two-bracket words
    t2 = "foo[1-2]-[0-1]"
    for x in ["foo1-0", "foo[1-2]-0", "foo1-[0-1]", "foo[1-2]-[0-1]", "foo1", "foo1-", "foo[1-2]-[1-2]", "foo1-00"]:
        mk.add("twobr", [("tgt", t2 + ",foo1-0"), ("xcl", x)], "sep")
    for kind, p in [("keep", "-0$"), ("drop", "-0$"), ("keep", "^foo1"), ("drop", "\\[")]:
        mk.add("twobr", [("tgt", t2), (kind, p)], "sep")
    f, g = mk.fname("t"), mk.fname("x")
    mk.add("twobr", [("tfile", f), ("xfile", g)], "sep", files={f: [t2, "bar[1-2]x[3-4]"], g: ["foo[1-2]-1", "bar1x[3-4]"]})
    mk.add("twobr", [("tfile", f), ("xcl", "bar[1-2]x3")], "dash", files={f: [t2, "bar[1-2]x[3-4]"]}, wcoll_env=f)
    # ---------------------------------------------------------------- size
    for ln in [4093, 4094, 4095, 4096, 4097, 8190, 8191, 8192, 8193] + ([16383, 16384, 70000] if thorough else []):
        names = xfile_names(ln)
        f = mk.fname("x")
        lines, cur = [], []
        for nm in names:
            cur.append(nm)
            if len(cur) == 7:
                lines.append(",".join(cur))
                cur = []
        if cur:
            lines.append(",".join(cur))
        c = mk.add("size", [("tgt", "keep1,%s,%s,h9x,%s" % (names[0], names[len(names) // 2], names[-1])), ("xfile", f)],
                   "sep" if ln % 2 else "dash", files={f: lines}, note="xfile-len=%d" % ln)
        c.tags.add("xfile-len=%d" % ln)
    # ONE long bracket group: many non-contiguous numbers under one prefix (the ranged form `n[1001,1003,...]` is a
    # single group of 1.5 KB / 5 KB: longer than hostlist.c's per-group buffers, the longer one longer than the first
    # buffer of list_push_hostlist) — as an exclusion file, as a literal -x word, as a target file
    for cnt in (300, 1000):
        odd = ["n%d" % v for v in range(1001, 1001 + 2 * cnt, 2)]
        tg = "keep1,n[1000-1010],n%d,n%d,n%d" % (1001 + 2 * (cnt // 2), 1001 + 2 * cnt - 2, 1001 + 2 * cnt)
        f = mk.fname("x")
        mk.add("size", [("tgt", tg), ("xfile", f)], "sep", files={f: odd}, note="long-group-%d" % cnt)
        f = mk.fname("x")
        mk.add("size", [("xfile", f), ("tgt", tg)], "dash", files={f: [",".join(odd[i:i + 50]) for i in range(0, cnt, 50)]},
               note="long-group-%d" % cnt)
        word = "n[%s]" % ",".join(str(v) for v in range(1001, 1001 + 2 * cnt, 2))
        mk.add("size", [("tgt", tg), ("xcl", word)], "sep", note="long-group-%d" % cnt)
        f = mk.fname("t")
        mk.add("size", [("tfile", f), ("xcl", "n[1001-1100]"), ("keep", "[19]$")], "sep", files={f: [word, "keep1"]},
               note="long-group-%d" % cnt)
    # a long -x list (one word that names thousands of hosts; a list of hundreds of words)
    mk.add("size", [("tgt", "n[1-40],m1,n[20-60]"), ("xcl", "n[2-3000]")], "sep", note="long-range")
    mk.add("size", [("tgt", "n[1-40],m1,n[20-60]"), ("xcl", ",".join("n%d" % v for v in range(2, 400, 2)))], "sep",
           note="long-list")
    # ---------------------------------------------------------------- malformed exclusion words (hostlist_create refuses
    # them: unbalanced brackets) at EVERY position among well-formed exclusions: the OTHER exclusions must still act.
    # By meaning a malformed word names no host: `items` leaves it out, `opts` (what pdsh and the model get) carry it;
    # each malformed word is an option of its own (an unbalanced bracket swallows the commas behind it)
    mt = "foo[1-6],bar,baz"
    good = [("xcl", "foo2"), ("xcl", "bar"), ("xcl", "foo[4-5]")]
    for bi, bad in enumerate(["foo[9", "foo9]", "foo[1-", "[", "]foo[1"]):
        for pos in range(len(good) + 1):
            if bi > 1 and pos != (bi % (len(good) + 1)) and not thorough:
                continue
            for dash in (False, True):
                if dash and (bi + pos) % 2 and not thorough:
                    continue
                words = [x for _, x in good]
                words.insert(pos, bad)
                opts = [("-w", mt)] + [(("-w", "-" + x) if dash else ("-x", x)) for x in words]
                if pos % 2:
                    opts = opts[1:] + opts[:1]        # the targets last
                c = mk.add("malformed", [("tgt", mt)] + good, opts=opts, note="malformed-x")
                c.tags.add("malformed-x")
    f = mk.fname("x")
    for pos in (0, 1, 2):
        opts = [("-w", mt), ("-x", "^" + f), ("-x", "baz")]
        opts.insert(1 + pos, ("-x", "foo[9"))
        c = mk.add("malformed", [("tgt", mt), ("xfile", f), ("xcl", "baz")], files={f: ["foo[2-3]", "bar"]}, opts=opts,
                   note="malformed-x")
        c.tags.add("malformed-x")
    # two malformed words around one good one; a malformed word next to filters
    c = mk.add("malformed", [("tgt", mt), ("xcl", "foo3")], opts=[("-x", "foo[9"), ("-x", "foo3"), ("-x", "bar]"), ("-w", mt)],
               note="malformed-x")
    c.tags.add("malformed-x")
    c = mk.add("malformed", [("tgt", mt), ("drop", "^ba"), ("xcl", "foo1")],
               opts=[("-w", mt), ("-x", "foo1"), ("-x", "/^ba/"), ("-x", "foo[2")], note="malformed-x")
    c.tags.add("malformed-x")
    # ---------------------------------------------------------------- several words in ONE -w argument, in every order of
    # {target, -exclusion, target, /re/, -/re/}: the word AFTER a dashed one is an ordinary word again
    base3 = [("tgt", "a[1-4]"), ("xcl", "a2"), ("tgt", "b1,c7"), ("keep", "[1-47]$"), ("drop", "^a3")]
    for k, perm in enumerate(itertools.permutations(base3)):
        if k % 4 == 0 or thorough:
            mk.add("oneword", perm, "one")
    for t in (["a[1-4]", "-a2", "b1"], ["-a2", "a[1-4]", "b1"], ["a[1-4]", "-a2", "-a3", "b1", "-b9", "c1"],
              ["a[1-4]", "-/2$/", "b1"], ["-/2$/", "a[1-4]", "b2"], ["a[1-4]", "-a2", "/[1-3]$/"], ["-a2", "/[1-3]$/", "a[1-4]"]):
        items = [("xcl", w[1:]) if w.startswith("-") and not w.startswith("-/") else ("drop", w[2:-1]) if w.startswith("-/")
                 else ("keep", w[1:-1]) if w.startswith("/") else ("tgt", w) for w in t]
        mk.add("oneword", items, opts=[("-w", ",".join(t))], note="after-dash")
    # ---------------------------------------------------------------- arguments holding ONLY filters x the target source
    # ($WCOLL is read when no option produced a working collective: a /re/ word produces none)
    for k, (ropts, ritems) in enumerate([
            ([("-w", "/[13]$/")], [("keep", "[13]$")]),
            ([("-w", "/[13]$/,-foo3")], [("keep", "[13]$"), ("xcl", "foo3")]),
            ([("-w", "-foo3,/[13]$/")], [("xcl", "foo3"), ("keep", "[13]$")]),
            ([("-w", "/^foo/,-/2$/")], [("keep", "^foo"), ("drop", "2$")]),
            ([("-w", "/^foo/"), ("-w", "/[12]$/")], [("keep", "^foo"), ("keep", "[12]$")]),
            ([("-w", "-/1$/")], [("drop", "1$")]),
            ([("-x", "/1$/"), ("-w", "/o/")], [("drop", "1$"), ("keep", "o")]),
            ([("-w", "/[13]$")], [("keep", "[13]$")])]):
        f = mk.fname("w")
        mk.add("reonly", [("tfile", f)] + ritems, files={f: ["foo[1-4]", "bar1"]}, wcoll_env=f, opts=ropts, note="WCOLL")
        # the same filters with a target word in another option: $WCOLL is then ignored
        g = mk.fname("w")
        mk.add("reonly", ritems + [("tgt", "foo[2-3],bar1")], files={g: ["zz[1-3]"]}, wcoll_env=g,
               opts=ropts + [("-w", "foo[2-3],bar1")], note="WCOLL-ignored")
    # ---------------------------------------------------------------- command lines holding ONLY exclusions (no filter, no
    # target word) x the target source: $WCOLL must still be read (an exclusion produces no working collective either)
    for k, (xopts, xitems, xf) in enumerate([
            ([("-x", "foo2")], [("xcl", "foo2")], None),
            ([("-w", "-foo2")], [("xcl", "foo2")], None),
            ([("-x", "foo[2-3],bar1")], [("xcl", "foo[2-3],bar1")], None),
            ([("-w", "-foo2,-bar1")], [("xcl", "foo2"), ("xcl", "bar1")], None),
            ([("-x", "foo2"), ("-x", "foo4")], [("xcl", "foo2"), ("xcl", "foo4")], None),
            ([("-x", "^F")], [("xfile", "F")], ["foo[2-3]", "bar1"]),
            ([("-w", "-^F")], [("xfile", "F")], ["foo3"]),
            ([("-x", "nosuch9")], [("xcl", "nosuch9")], None),
            ([("-x", "foo2"), ("-x", "/4$/")], [("xcl", "foo2"), ("drop", "4$")], None),
            ([("-x", "foo[1-4],bar1")], [("xcl", "foo[1-4],bar1")], None)]):
        f = mk.fname("w")
        files = {f: ["foo[1-4]", "bar1"]}
        if xf is not None:
            g = mk.fname("x")
            files[g] = xf
            xopts = [(fl, a.replace("F", g)) for fl, a in xopts]
            xitems = [(kd, g if t == "F" else t) for kd, t in xitems]
        mk.add("xonly", [("tfile", f)] + xitems, files=files, wcoll_env=f, opts=xopts, note="WCOLL")
        if k % 2 == 0 or thorough:
            g2 = mk.fname("w")
            files2 = {kk: v for kk, v in files.items() if kk != f}
            files2[g2] = ["zz[1-3]"]
            mk.add("xonly", xitems + [("tgt", "foo[2-3],bar1")], files=files2, wcoll_env=g2,
                   opts=xopts + [("-w", "foo[2-3],bar1")], note="WCOLL-ignored")
    # ---------------------------------------------------------------- a name whose digit tail does not fit an unsigned
    # long (20+ digits: strtoul answers ERANGE) at EVERY position of an exclusion list / among the exclusion options /
    # in an exclusion file / among the targets: the names around it must be parsed as ever (a number found inside a
    # bracketed target range), whatever was parsed before them; the long name itself is a plain (un-numbered) host
    pt5 = "foo[1-5],bar"
    for pi, poison in enumerate(["job20240929102030123456789", "n18446744073709551616", "99999999999999999999",
                                 "foo100000000000000000003"]):
        good = ["foo3", "foo5", "bar"] if pi == 0 else ["foo3", "foo5"]
        perms = []
        for pos in range(len(good) + 1):
            w = list(good)
            w.insert(pos, poison)
            perms.append(w)
        if pi == 0:
            perms += [[poison, "foo[2-4]"], ["foo[2-4]", poison], ["foo[1-2]", poison, "foo[4-5]"]]
        for k, ws in enumerate(perms):
            items = [("tgt", pt5)] + [("xcl", w) for w in ws]
            if pi == 0 or thorough or k % 2 == 0:
                mk.add("longtail", [("tgt", pt5), ("xcl", ",".join(ws))], "sep", note="x-list")        # ONE -x list
                mk.add("longtail", items, "sep", note="x-each")                                          # one -x per name
            if pi == 0 or thorough or k % 2 == 1:
                mk.add("longtail", items, "one", note="dash-words")                                      # -w t,-a,-b,-c
                f = mk.fname("x")
                mk.add("longtail", [("xfile", f), ("tgt", pt5)], "sep" if k % 2 else "dash", files={f: ws}, note="xfile")
        # the long name among the TARGETS (before / between / behind the range), excluded or not; the exclusions must act
        for k, tg in enumerate([poison + "," + pt5, "foo[1-2]," + poison + ",foo[3-5],bar", pt5 + "," + poison]):
            mk.add("longtail", [("tgt", tg), ("xcl", "foo3")], ["sep", "one", "dash"][k], note="target")
            mk.add("longtail", [("xcl", "foo[3-4]," + poison), ("tgt", tg)], ["one", "dash", "sep"][k], note="target+x")
            if pi == 0 or thorough:
                f = mk.fname("t")
                mk.add("longtail", [("tfile", f), ("xcl", "foo3"), ("xcl", poison)], "sep", files={f: split_top(tg)},
                       wcoll_env=f, note="WCOLL")
        # a filter next to it
        mk.add("longtail", [("tgt", pt5), ("xcl", poison), ("drop", "5$"), ("xcl", "foo3")], "sep", note="filter")
    return mk.out


# ---------------------------------------------------------------------------------------------------------------------
# library level: hostlist_find / hostlist_delete on lists whose records are RANGES (inside pdsh the working collective
# is re-pushed name by name before the exclusions since the F02-2BR repair, so a defect of the range arithmetic in
# hostrange_hn_within / hostname_create can hide behind that re-expansion; here the records stay as typed)
def lib_histories(thorough=False):
    """op histories `new; push EXPR; find X; delete X; hosts; find X` — one per member X of every look-alike family,
    against the family typed as a list of names and typed with ranges; plus exclusions that are ranges themselves"""
    out = []
    for fam, members in LOOKALIKE.items():
        forms = [",".join(members)]
        if fam in RANGED and fam != "big-tail":      # (numeric tails > 2^25 inside a bracket: F16-BIGSUFFIX, C16's finding)
            forms.append(RANGED[fam])
        for form in forms:
            for x in members:
                out.append(["new", "push " + form, "find " + x, "delete " + x, "hosts 200", "find " + x, "count"])
            # every member but one, as ONE exclusion expression
            for i in range(0, len(members), 1 if thorough else 3):
                rest = ",".join(m for m in members if m != members[i])
                out.append(["new", "push " + form, "delete " + rest, "hosts 200", "find " + members[i]])
    for t, xs in [("[8-12]", ["11", "[9-10]", "8", "12", "[08-09]", "011"]),
                  ("[08-10],7", ["[09-10]", "9", "08", "7", "[7-8]"]),
                  ("n[1-9],n[01-09]", ["n[3-5]", "n[03-05]", "n3,n03", "n[1-9]", "n[001-009]"]),
                  ("a[1-3]b,a[1-3],a[1-3]b2", ["a2", "a2b", "a2b2", "a[1-3]b", "a[1-3]b[2]"]),
                  ("foo[1-3],foo[2-4],bar,foo[1-4]", ["foo[2-3]", "foo1", "foo4", "bar", "foo[1-4]"]),
                  ("mgmt,mgmt[1-3],login", ["mgmt2", "mgmt", "login7", "login", "mgmt[0-4]"]),
                  ("node[0-2],alpha,n[00-03]", ["node0", "alpha,node0", "n[02,00]", "node[2,0],alpha", "n00"])]:
        for x in xs:
            out.append(["new", "push " + t, "find " + split_top(x)[0], "delete " + x, "hosts 200", "count"])
    # a name whose digit tail overflows strtoul (errno = ERANGE afterwards) looked up / deleted / pushed BEFORE names
    # that have to be found inside a range record: the later answers must not depend on it.  (Between two ops the
    # harness's own stdio may overwrite errno: the histories that carry the long name and the others in ONE
    # hostlist_delete call are the ones that keep errno as the library left it — verified on seeded C02-13.)
    for poison in ["job20240929102030123456789", "n18446744073709551616", "99999999999999999999"]:
        out.append(["new", "push foo[1-5],bar", "find " + poison, "find foo3", "delete " + poison, "delete foo3", "hosts 200",
                    "find foo3", "find foo4", "count"])
        out.append(["new", "push foo[1-5],bar," + poison, "find foo5", "delete foo3," + poison + ",foo5", "hosts 200", "count"])
        out.append(["new", "push " + poison, "push foo[1-5]", "find foo2", "delete " + poison + ",foo[2-3]", "hosts 200",
                    "find foo4", "delete_host foo4", "hosts 200", "count"])
    return out
