"""C08, -k part: WHERE a fail-fast run ends and what has become of the sibling targets at that moment.

model:   the transition system Dsh/ExitKill.lean (`pdshmodel exit model <bits>`, op `ksched`): theorems
         C08.kill_any_failure_every_schedule / kill_failing_host_completes / kill_exit_every_schedule / kill_siblings
real:    (a) the real dsh() on the scripted transport (harness/exit_harness.c op `dshk`: the transport logs connect /
         signal / destroy per target), (b) the scratch-built pdsh with -R exec and harness/exit_helper.c leaving
         start / term traces (VERIF_KTRACE)
The schedule the model is run on is RECONSTRUCTED from what was observed (the order of the transport's events), so the
comparison does not depend on timing: exit status, which statement ended the process, which targets were sent SIGTERM
(exactly those inside their poll loop), which were never started.
Every path is there in every quick run: mid-stream death (`_die_if_signalled`), the teardown test for an in-band
code, for an out-of-band code, for an out-of-band signal, for a connect failure, and the plain return; the failing target
first / in the middle / last; siblings running, completed, not yet started.
"""
import concurrent.futures
import os
import re
import subprocess
import time

from vlib.common import hexs
from vlib.seqrun import run_batch

AT = 400        # ms after which the failing target fails: completed siblings are long done, running ones are running

KINDS = ["midstream", "inband", "oob-code", "oob-signal", "connect", "inband-128-late"]


def fail_host(kind, magic, real_xd, at=AT):
    """(harness fields, model fields, specification token, connects) of the failing target"""
    if kind == "midstream":         # the marker line of a command killed by signal 9 arrives, the stream stays open
        f = "c1,o-,v0,d%d,t3,e%s" % (at, hexs(magic + b"137\n"))
        return f, "c1,o%s,v0,d0,t0" % hexs(magic + b"137\n"), "s9", True
    if kind == "inband-128-late":   # the marker line with code 128 (NOT a signal: 128 - 128 = 0) arrives, the stream stays open
        f = "c1,o-,v0,d%d,t4,e%s" % (at, hexs(magic + b"128\n"))        # for as long again: no mid-stream death
        return f, "c1,o%s,v0,d0,t0" % hexs(magic + b"128\n"), "e128", True
    if kind == "inband":            # marker line with code 3, then EOF: caught by the test after the teardown
        f = "c1,o%s,v0,d%d,t0" % (hexs(b"out\n" + magic + b"3\n"), at)
        return f, f, "e3", True
    if kind == "oob-code":
        return "c1,o-,v%d,d%d,t0" % (real_xd["e3"], at), "c1,o-,we3,d%d,t0" % at, "e3", True
    if kind == "oob-signal":
        return "c1,o-,v%d,d%d,t0" % (real_xd["s9"], at), "c1,o-,ws9,d%d,t0" % at, "s9", True
    return "c0,o-,v%d,d%d,t0" % (real_xd["null"], at), "c0,o-,wnull,d0,t0", "cf", False     # refuses after `at` ms


RUNNING = ("c1,o%s,v0,d0,t1" % hexs(b"hello\n"), "e0", True)        # healthy, still running (stream open until signalled)
DONE = ("c1,o-,v0,d0,t0", "e0", True)                                # healthy, ends at once


def systematic(magic, real_xd):
    out = []
    for kind in KINDS:
        ff, fm, fs, fc = fail_host(kind, magic, real_xd)
        fail = (ff, fm, fs, fc)
        run_ = (RUNNING[0], RUNNING[0], RUNNING[1], True)
        done = (DONE[0], DONE[0], DONE[1], True)
        layouts = [(3, [fail, run_, done], 0), (3, [run_, fail, done], 0), (3, [done, run_, fail], 0),
                   (2, [fail, run_, done], 0), (2, [run_, fail, done], 0), (3, [fail, run_, done], 1)]
        for fanout, hosts, S in layouts:
            out.append({"S": S, "k": 1, "fanout": fanout, "hosts": hosts, "kind": kind})
    # nobody fails: dsh() returns; and the same failing targets WITHOUT -k: nothing is ended early
    done = (DONE[0], DONE[0], DONE[1], True)
    out.append({"S": 0, "k": 1, "fanout": 2, "hosts": [done, done, done], "kind": "none"})
    out.append({"S": 1, "k": 1, "fanout": 3, "hosts": [done, done], "kind": "none"})
    for kind in ("inband", "oob-code", "connect"):
        ff, fm, fs, fc = fail_host(kind, magic, real_xd, at=50)
        for S in (0, 1):
            out.append({"S": S, "k": 0, "fanout": 3, "hosts": [done, (ff, fm, fs, fc), done], "kind": "plain-" + kind})
    return out


def random_scenario(rng, magic, real_xd):
    n = rng.choice([2, 3, 4, 5])
    kind = rng.choice(KINDS)
    hosts = []
    for _ in range(n):
        r = RUNNING if rng.random() < 0.4 else DONE
        hosts.append((r[0], r[0], r[1], True))
    fi = rng.randrange(n)
    hosts[fi] = fail_host(kind, magic, real_xd)
    fanout = rng.choice([1, 2, n, n + 1])
    # a running sibling never ends by itself: the failing target must still get a slot (else the run cannot end at all)
    running = 0
    for i in range(fi):
        if hosts[i][0] == RUNNING[0]:
            running += 1
            if running > fanout - 1:
                hosts[i] = (DONE[0], DONE[0], DONE[1], True)
    return {"S": rng.choice([0, 1]), "k": 1, "fanout": fanout, "hosts": hosts, "kind": kind}


def harness_line(scn):
    return "dshk %d %d %d 0 %s" % (scn["S"], scn["k"], scn["fanout"], ";".join(h[0] for h in scn["hosts"]))


def reconstruct(scn, events):
    """the schedule (events of Kill.Ev) the observed order of transport events stands for, and the set of targets
    that were sent a signal.  Everything after the first signal happened while the process was already ending."""
    cut = len(events)
    for i, e in enumerate(events):
        if e[0] == "G":
            cut = i
            break
    evs, connected, destroyed = [], [], set()
    for e in events[:cut]:
        i = int(e[1:])
        if e[0] == "C":
            evs += ["s%d" % i, "c%d" % i]
            connected.append(i)
        elif e[0] == "D":
            evs += (["a%d" % i, "l%d" % i] if scn["hosts"][i][3] else []) + ["t%d" % i]
            destroyed.add(i)
    for i in sorted(set(connected) - destroyed):        # still inside their poll loop: what has arrived is handled
        if scn["hosts"][i][3]:
            evs.append("a%d" % i)
    evs.append("r")
    signalled = sorted({int(e[1:]) for e in events[cut:] if e[0] == "G"})
    late_starts = sorted({int(e[1:]) for e in events[cut:] if e[0] == "C"})
    return evs, signalled, sorted(set(connected)), late_starts


def model_line(scn, evs):
    return "ksched %d %d 0 %s %s" % (scn["S"], scn["k"], ";".join(h[1] for h in scn["hosts"]), ",".join(evs))


def parse_answer(ans):
    """'noret exit 1 ev=C0,..' -> (returned?, exit status | None, events) ; 'hung ev=..' -> (False, None, events)"""
    m = re.match(r"(?:(ret) (-?\d+) |(noret) )?(?:exit (\d+)|sig (\d+)|hung)?\s*ev=(\S*)$", ans)
    if not m:
        return None
    evs = [e for e in m.group(6).split(",") if e and e != "-"]
    return (m.group(1) == "ret", int(m.group(4)) if m.group(4) is not None else None, evs, ans.startswith("hung"))


def parse_model(m):
    """'exit 1 how=mid:0 sig=0,1 ph=rrfn rest=1' -> dict"""
    mm = re.match(r"exit (\d+) how=(\S+) sig=(\S+) ph=(\S*) rest=(\d+)$", m)
    if not mm:
        return None
    sig = [] if mm.group(3) == "-" else [int(x) for x in mm.group(3).split(",")]
    return {"exit": int(mm.group(1)), "how": mm.group(2), "sig": sig, "ph": mm.group(4), "rest": int(mm.group(5))}


def spec_query(scn, status):
    return "adm %d %d 0 %s %d" % (scn["S"], scn["k"], ",".join(h[2] for h in scn["hosts"]), status)


def scn_from_json(j):
    return dict(j, hosts=[tuple(h) for h in j["hosts"]])


def run_scripted(ctx, exe, env, scns, bits, dist, cov, distinct):
    """the real dsh() on the scripted transport; returns nothing, reports through ctx"""
    lines = [harness_line(s) for s in scns]

    def one(l):
        return run_batch([exe], [[l]], env=env, timeout=120)[0]

    with concurrent.futures.ThreadPoolExecutor(max_workers=8) as ex:
        impl = list(ex.map(one, lines))
    idxs = list(range(len(scns)))
    for attempt in (0, 1):
        verdicts = judge_scripted(ctx, [scns[i] for i in idxs], [lines[i] for i in idxs], [impl[i] for i in idxs], bits,
                                  report=(attempt == 1))
        todo = [i for i, v in zip(idxs, verdicts) if v == "retry"]
        if attempt == 1 or not todo:
            break
        if len(todo) <= 3:                          # once more, alone, before anything is said (a loaded machine);
            for i in todo:                          # many failures at once are not a matter of timing
                impl[i] = one(lines[i])
        idxs = todo
    dist["k_started_during_exit"] = len(set(judge_scripted.late_starts))
    for s, l in zip(scns, lines):
        cov["evaluations"] += 1
        dist["k_scripted"] = dist.get("k_scripted", 0) + 1
        dist.setdefault("k_paths", {})
        dist["k_paths"][s["kind"]] = dist["k_paths"].get(s["kind"], 0) + 1
        distinct.add(("dshk", l))


def judge_scripted(ctx, scns, lines, impl, bits, report):
    """compare scripted runs with the model and the specification (one model call for all of them); per run 'ok' or
    'retry' = a mismatch that is reported only when it shows again"""
    verdicts = ["ok"] * len(scns)
    recs = [None] * len(scns)
    late_starts = judge_scripted.late_starts
    for i, (s, l, (ans, crash)) in enumerate(zip(scns, lines, impl)):
        case = {"op": l, "kind": s["kind"], "k_scn": {"S": s["S"], "k": s["k"], "fanout": s["fanout"], "kind": s["kind"],
                                                      "hosts": [list(h) for h in s["hosts"]]}}
        if crash is not None or not ans:
            if report:
                ctx.offender("crash", "dsh() harness aborts/hangs on a -k run: %s" % (crash or "")[-400:], case)
            verdicts[i] = "retry"
            continue
        p = parse_answer(ans[0])
        if p is None:
            if report:
                ctx.disagreement("exit model vs dsh() (-k)", "unparsable answer `%s`" % ans[0], case)
            verdicts[i] = "retry"
            continue
        returned, status, events, hung = p
        case["impl"] = ans[0]
        if hung:
            if report:
                ctx.offender("timeout", "dsh() with -k did not end within 15 s although a target had failed (%s)" % s["kind"], case)
            verdicts[i] = "retry"
            continue
        evs, signalled, connected, late = reconstruct(s, events)
        case["model_op"] = model_line(s, evs)
        recs[i] = (case, returned, status, signalled, late, ans[0])
    live = [i for i in range(len(scns)) if recs[i] is not None]
    mod = ctx.model("exit", "".join(recs[i][0]["model_op"] + "\n" for i in live), args=["model", bits]) if live else []
    need_spec = []
    for i, m in zip(live, mod):
        case, returned, status, signalled, late, ans0 = recs[i]
        s = scns[i]
        case["model"] = m
        pm = parse_model(m)
        bad = None
        if pm is None:
            bad = "the model does not end on the reconstructed schedule: `%s`" % m
        elif status is None or pm["exit"] != status:
            bad = "exit status %s, model %s" % (status, pm["exit"])
        elif returned != (pm["how"] == "ret"):
            bad = "dsh() %s, model says the process is ended by `%s`" % ("returned" if returned else "did not return", pm["how"])
        elif pm["sig"] != signalled:
            bad = "targets that were sent SIGTERM: %s, model (exactly those inside their poll loop): %s" % (signalled, pm["sig"])
        if late and not bad:
            # exit() is not atomic: between the call and the end of the process the other threads still run -- a signalled
            # sibling's worker ends, frees its slot, and the dispatcher may still call rcmd_connect for a pending target
            # (cut off when the process ends).  The model's `exited` is the CALL of exit; this is recorded, not judged.
            late_starts.append(l)
        if bad:
            if report:
                ctx.disagreement("exit model (-k transition system) vs dsh()", bad, case)
            verdicts[i] = "retry"
        elif status is not None:
            need_spec.append(i)
    sp = ctx.model("exit", "".join(spec_query(scns[i], recs[i][2]) + "\n" for i in need_spec), args=["spec"]) if need_spec else []
    for i, v in zip(need_spec, sp):
        if v != "ok":
            case, returned, status, signalled, late, ans0 = recs[i]
            s = scns[i]
            if report:
                ctx.offender("k:failure-exit-0" if s["k"] else "%s:unexplained" % ("S" if s["S"] else "plain"),
                             "dsh() with flags %s%s and outcomes [%s] ends with `%s`, which the specification does not admit"
                             % ("-S " if s["S"] else "", "-k" if s["k"] else "", ",".join(h[2] for h in s["hosts"]), ans0),
                             dict(case, where="dsh()-k", spec_query=spec_query(s, status)))
            verdicts[i] = "retry"
    return verdicts


judge_scripted.late_starts = []     # runs in which a pending target was started while exit() was under way


# ------------------------------------------------------------------------------------------------ the real binary
def cli_cases(magic):
    """through pdsh -R exec: [(label, S, fanout, [helper SPEC per target], [model fields], [spec token], failing index, how)]"""
    mk137 = hexs(magic + b"137\n")
    mk3 = hexs(magic + b"3\n")
    fails = {"oob-code": ("o-:W%d_e3" % AT, "c1,o-,we3,d0,t0", "e3", "tear"),
             "oob-signal": ("o-:W%d_s9" % AT, "c1,o-,ws9,d0,t0", "s9", "tear"),
             "inband": ("o%s:W%d_e0" % (mk3, AT), "c1,o%s,we0,d0,t0" % mk3, "e3", "tear"),
             "midstream": ("o%s:W%d_T12" % (mk137, AT), "c1,o%s,we0,d0,t0" % mk137, "s9", "mid")}
    run_ = ("o-:T12", "c1,o-,we0,d0,t0", "e0")
    done = ("o-:e0", "c1,o-,we0,d0,t0", "e0")
    out = []
    for kind, (fs, fm, ft, how) in fails.items():
        f = (fs, fm, ft)
        for S, fanout, hosts, fi in ((0, 3, [f, run_, done], 0), (0, 3, [run_, done, f], 2), (0, 2, [f, run_, done], 0),
                                     (1, 3, [run_, f, done], 1)):
            out.append({"kind": kind, "S": S, "k": 1, "fanout": fanout, "hosts": hosts, "fail": fi, "how": how})
    return out


def run_cli_case(pdsh, helper, scratch, idx, c):
    d = os.path.join(scratch, "c08ktrace_%d_%d" % (idx, int(time.time() * 1000) % 100000))
    os.makedirs(d, exist_ok=True)
    n = len(c["hosts"])
    argv = [pdsh] + (["-S"] if c["S"] else []) + (["-k"] if c["k"] else []) + \
           ["-f", str(c["fanout"]), "-R", "exec", "-w", "h[0-%d]" % (n - 1), helper, "%n"] + [h[0] for h in c["hosts"]]
    t0 = time.time()
    try:
        p = subprocess.run(argv, stdin=subprocess.DEVNULL, stdout=subprocess.PIPE, stderr=subprocess.PIPE,
                           env={"PATH": "/usr/bin:/bin", "VERIF_KTRACE": d}, timeout=60)
        rc = p.returncode
    except subprocess.TimeoutExpired:
        rc = None
    wall = time.time() - t0
    deadline = time.time() + 3.0        # wait (briefly) for the traces of the commands that were sent SIGTERM
    while time.time() < deadline:
        names = os.listdir(d)
        tcmds = [i for i, h in enumerate(c["hosts"]) if h[0].endswith("T12") and ("start.%d" % i) in names]
        if all(("term.%d" % i) in names for i in tcmds):
            break
        time.sleep(0.1)
    names = os.listdir(d)
    obs = {"rc": rc, "wall": round(wall, 2),
           "started": sorted(int(f[6:]) for f in names if f.startswith("start.")),
           "term": sorted(int(f[5:]) for f in names if f.startswith("term."))}
    return argv, obs


def cli_schedule(c, obs):
    """started targets in rank order; the healthy ones that end at once have completed; then the failing one"""
    evs = []
    for i in obs["started"]:
        evs += ["s%d" % i, "c%d" % i]
    for i in obs["started"]:
        if i != c["fail"] and c["hosts"][i][0] == "o-:e0":
            evs += ["a%d" % i, "l%d" % i, "t%d" % i]
    fi = c["fail"]
    evs += ["a%d" % fi] + (["l%d" % fi, "t%d" % fi] if c["how"] == "tear" else [])
    evs.append("r")
    return evs


def run_cli(ctx, pdsh, helper, bits, magic, dist, cov, distinct):
    cases = cli_cases(magic)

    def one(ic):
        return run_cli_case(pdsh, helper, ctx.scratch, ic[0], ic[1])

    with concurrent.futures.ThreadPoolExecutor(max_workers=8) as ex:
        res = list(ex.map(one, enumerate(cases)))
    for attempt in (0, 1):
        redo = []
        for idx, (c, (argv, obs)) in enumerate(zip(cases, res)):
            if judge_cli(ctx, c, argv, obs, bits, report=(attempt == 1)) == "retry":
                redo.append(idx)
        if attempt == 0:
            if not redo:
                break
            if len(redo) <= 3:
                for idx in redo:
                    res[idx] = one((idx + 1000, cases[idx]))
    for c in cases:
        cov["evaluations"] += 1
        dist["k_cli"] = dist.get("k_cli", 0) + 1
        dist.setdefault("k_cli_paths", {})
        dist["k_cli_paths"][c["kind"]] = dist["k_cli_paths"].get(c["kind"], 0) + 1
        distinct.add(("clik", c["kind"], c["S"], c["fanout"], c["fail"]))


def judge_cli(ctx, c, argv, obs, bits, report):
    short = [os.path.basename(a) if "/" in a else a for a in argv]
    case = {"argv": argv[:1] + ["..."] + argv[1:], "kind": c["kind"], "observed": obs,
            "k_case": dict(c, hosts=[list(h) for h in c["hosts"]])}
    if obs["rc"] is None:
        if report:
            ctx.offender("timeout", "pdsh -k did not finish within 60 s: %s" % " ".join(short), case)
        return "retry"
    if obs["rc"] < 0:
        if report:
            ctx.offender("crash", "pdsh killed by signal %d: %s" % (-obs["rc"], " ".join(short)), case)
        return "retry"
    if c["fail"] not in obs["started"]:
        if report:
            ctx.disagreement("pdsh -k run", "the failing command (rank %d) never started: %s" % (c["fail"], obs), case)
        return "retry"
    evs = cli_schedule(c, obs)
    scn = {"S": c["S"], "k": c["k"], "hosts": [(None, h[1], h[2], True) for h in c["hosts"]]}
    ml = model_line(scn, evs)
    m = ctx.model("exit", ml + "\n", args=["model", bits])[0]
    case["model_op"], case["model"] = ml, m
    pm = parse_model(m)
    bad = None
    tcmd = [i for i, h in enumerate(c["hosts"]) if h[0].endswith("T12")]
    if pm is None:
        bad = "the model does not end on the schedule: `%s`" % m
    elif pm["exit"] != obs["rc"]:
        bad = "exit status %d, model %d" % (obs["rc"], pm["exit"])
    elif [i for i in pm["sig"] if i in tcmd] != obs["term"]:
        bad = "commands that received SIGTERM: %s, model (exactly the targets inside their poll loop): %s" % (
            obs["term"], [i for i in pm["sig"] if i in tcmd])
    elif not set(i for i, ch in enumerate(pm["ph"]) if ch != "n") <= set(obs["started"]):
        # (a target the model has as not started may have been started while exit() was under way: not judged)
        bad = "commands started: %s, model %s" % (obs["started"], pm["ph"])
    elif obs["wall"] > 8:
        bad = "pdsh -k ended only after %.1f s (the siblings sleep 12 s): it did not end at the first failure" % obs["wall"]
    if bad:
        if report:
            ctx.disagreement("exit model (-k transition system) vs pdsh binary", bad, case)
        return "retry"
    sp = ctx.model("exit", spec_query(scn, obs["rc"]) + "\n", args=["spec"])[0]
    if sp != "ok":
        if report:
            ctx.offender("k:failure-exit-0", "pdsh %s-k with outcomes [%s] exits %d, which the specification does not admit"
                         % ("-S " if c["S"] else "", ",".join(h[2] for h in c["hosts"]), obs["rc"]),
                         dict(case, where="pdsh-k", spec_query=spec_query(scn, obs["rc"])))
        return "retry"
    return "ok"
