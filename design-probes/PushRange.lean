import WidthEquiv
open P
structure HRange where
  pre : List Char
  lo : Nat
  hi : Nat
  width : Nat
  single : Bool
deriving Repr

def HRange.hosts (r : HRange) : List (List Char) :=
  if r.single then [r.pre] else (List.range' r.lo (r.hi + 1 - r.lo)).map (fun k => r.pre ++ fmtPad r.width k)

def prefixCmpEq (a b : HRange) : Bool := a.pre == b.pre && a.single == b.single

/-- hostlist_push_range on the list of ranges (last = tail) -/
def pushRange (rs : List HRange) (r : HRange) : List HRange :=
  match rs.getLast? with
  | none => rs ++ [r]
  | some t =>
    let (ok, wt, _) := widthEquiv t.lo t.width r.lo r.width
    if prefixCmpEq t r && t.hi + 1 == r.lo && ok   -- tail->hi == hr->lo - 1 (no wrap: lo ≥ 1 here)
    then rs.dropLast ++ [{ t with hi := r.hi, width := wt }]
    else rs ++ [r]

def hostsOf (rs : List HRange) : List (List Char) := rs.flatMap HRange.hosts

theorem range'_split (a b c : Nat) (h1 : a ≤ b + 1) (h2 : b ≤ c) :
    List.range' a (c + 1 - a) = List.range' a (b + 1 - a) ++ List.range' (b + 1) (c + 1 - (b + 1)) := by
  have e1 : c + 1 - a = (b + 1 - a) + (c + 1 - (b + 1)) := by omega
  have e2 : List.range' (b + 1) (c + 1 - (b + 1)) = List.range' (a + (b + 1 - a)) (c + 1 - (b + 1)) := by
    congr 1; omega
  rw [e1, e2, List.range'_append_1]

theorem pushRange_hosts (rs : List HRange) (r : HRange)
    (hr : r.single = false → r.lo ≤ r.hi) (hrs : ∀ t ∈ rs, t.single = false → t.lo ≤ t.hi)
    (hns : ∀ t ∈ rs, t.single = true → t.hi = 0) (hrz : r.single = true → r.lo = 0) :
    hostsOf (pushRange rs r) = hostsOf rs ++ r.hosts := by
  unfold pushRange
  cases hgl : rs.getLast? with
  | none => simp [hostsOf]
  | some t =>
    simp only
    generalize hw : widthEquiv t.lo t.width r.lo r.width = w
    obtain ⟨ok, wt, wr⟩ := w
    simp only
    split
    · rename_i hc
      simp only [Bool.and_eq_true, beq_iff_eq, prefixCmpEq] at hc
      obtain ⟨⟨⟨hp, hs⟩, hlo⟩, hok⟩ := hc
      subst hok
      obtain ⟨h1, h2, h3⟩ := widthEquiv_sound hw
      obtain ⟨ys, hys⟩ := List.getLast?_eq_some_iff.mp hgl
      subst hys
      have htmem : t ∈ ys ++ [t] := by simp
      simp only [List.dropLast_concat, hostsOf, List.flatMap_append, List.flatMap_cons, List.flatMap_nil, List.append_nil, List.append_assoc]
      congr 1
      cases hts : t.single with
      | true =>
        have := hns t htmem hts
        have hrs2 : r.single = true := by rw [← hs]; exact hts
        have := hrz hrs2
        omega
      | false =>
        have hrs2 : r.single = false := by rw [← hs]; exact hts
        have hle := hrs t htmem hts
        have hle2 := hr hrs2
        simp only [HRange.hosts, hts, hrs2, Bool.false_eq_true, ↓reduceIte]
        rw [range'_split t.lo t.hi r.hi (by omega) (by omega), List.map_append]
        congr 1
        · apply List.map_congr_left
          intro k hk
          simp at hk
          rw [h1 k (by omega)]
        · rw [← hlo]
          apply List.map_congr_left
          intro k hk
          simp at hk
          rw [hp, h3, h2 k (by omega)]
    · simp [hostsOf]
