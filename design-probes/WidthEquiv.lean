namespace P
def ndig (n : Nat) : Nat := (Nat.toDigits 10 n).length
def zeroPadded (num width : Nat) : Nat := if width > ndig num then width - ndig num else 0
def fmtPad (w n : Nat) : List Char := List.replicate (w - ndig n) '0' ++ Nat.toDigits 10 n

/-- `_width_equiv` : returns (ok, wn', wm') -/
def widthEquiv (n wn m wm : Nat) : Bool × Nat × Nat :=
  let npad := zeroPadded n wn
  let nmpad := zeroPadded n wm
  let mpad := zeroPadded m wm
  let mnpad := zeroPadded m wn
  if npad != nmpad && mpad != mnpad then (false, wn, wm)
  else if npad != nmpad then
    (if mpad == mnpad then (true, wn, wn) else (false, wn, wm))
  else (true, wm, wm)

theorem ndig_pos (n : Nat) : 0 < ndig n := Nat.length_toDigits_pos
theorem ndig_mono {n k : Nat} (h : n ≤ k) : ndig n ≤ ndig k := by
  unfold ndig
  have hk : 0 < (Nat.toDigits 10 k).length := Nat.length_toDigits_pos
  rw [Nat.length_toDigits_le_iff (by decide) hk]
  have := (Nat.length_toDigits_le_iff (b := 10) (n := k) (k := (Nat.toDigits 10 k).length) (by decide) hk).mp (Nat.le_refl _)
  omega

theorem fmtPad_eq_of_pad_eq {w w' k : Nat} (h : zeroPadded k w = zeroPadded k w') : fmtPad w k = fmtPad w' k := by
  unfold fmtPad; unfold zeroPadded at h
  have : w - ndig k = w' - ndig k := by
    split at h <;> split at h <;> omega
  rw [this]

/-- padding of k ≥ n equal under two widths whenever padding of n is -/
theorem pad_eq_mono {n k w w' : Nat} (hnk : n ≤ k) (h : zeroPadded n w = zeroPadded n w') :
    zeroPadded k w = zeroPadded k w' := by
  have := ndig_mono hnk
  unfold zeroPadded at *
  split at h <;> split at h <;> (repeat' split) <;> omega

theorem widthEquiv_sound {n wn m wm wn' wm' : Nat} (h : widthEquiv n wn m wm = (true, wn', wm')) :
    (∀ k, n ≤ k → fmtPad wn' k = fmtPad wn k) ∧ (∀ k, m ≤ k → fmtPad wm' k = fmtPad wm k) ∧ wn' = wm' := by
  unfold widthEquiv at h
  simp only at h
  split at h
  · simp at h
  · split at h
    · split at h
      · rename_i h1 h2 h3
        simp at h; obtain ⟨rfl, rfl⟩ := h
        refine ⟨fun _ _ => rfl, fun k hk => ?_, rfl⟩
        apply fmtPad_eq_of_pad_eq
        exact (pad_eq_mono hk (by simpa using h3)).symm
      · simp at h
    · rename_i h1 h2
      simp at h; obtain ⟨rfl, rfl⟩ := h
      refine ⟨fun k hk => ?_, fun _ _ => rfl, rfl⟩
      apply fmtPad_eq_of_pad_eq
      exact (pad_eq_mono hk (by simpa using h2)).symm
end P
