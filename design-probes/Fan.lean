/-! Prototype of the fanout protocol LTS (C03/C04), `while` variant. -/
namespace Fan
inductive W | idle | run | want | hold | done
deriving DecidableEq, Repr

inductive DPC | top | check | waiting | relock | create | inc | unlock | drainTop | drainCheck | drainWait | drainRelock | exited
deriving DecidableEq, Repr

inductive Owner | none | d | w (i : Nat)
deriving DecidableEq, Repr

structure St where
  f : Nat
  i : Nat
  dpc : DPC
  tc : Nat
  own : Owner
  sig : Bool          -- a signal has been delivered to the parked dispatcher
  ws : List W
deriving Repr

inductive Lbl
  | dLock | dCheck | dWake (spurious : Bool) | dRelock | dCreate | dInc | dUnlock | dExit
  | wFinish (i : Nat) | wLock (i : Nat) | wDecSignal (i : Nat) | wUnlock (i : Nat)

def counted (w : W) : Bool := w == .run || w == .want || w == .hold
def flying  (w : W) : Bool := w == .run

def step (s : St) : Lbl → Option St
  | .dLock => match s.dpc, s.own with
      | .top, .none => some { s with dpc := .check, own := .d }
      | .drainTop, .none => some { s with dpc := .drainCheck, own := .d }
      | _, _ => none
  | .dCheck => match s.dpc with
      | .check =>
          if s.f == s.tc then some { s with dpc := .waiting, own := .none, sig := false }     -- cond_wait: release + park
          else if s.i ≥ s.ws.length then some { s with dpc := .drainTop, own := .none }          -- break (unlock)
          else some { s with dpc := .create }
      | .drainCheck =>
          if s.tc > 0 then some { s with dpc := .drainWait, own := .none, sig := false }
          else some { s with dpc := .exited, own := .none }
      | _ => none
  | .dWake sp => match s.dpc with
      | .waiting => if sp || s.sig then some { s with dpc := .relock } else none
      | .drainWait => if sp || s.sig then some { s with dpc := .drainRelock } else none
      | _ => none
  | .dRelock => match s.dpc, s.own with
      | .relock, .none => some { s with dpc := .check, own := .d }            -- while: re-test
      | .drainRelock, .none => some { s with dpc := .drainCheck, own := .d }
      | _, _ => none
  | .dCreate => match s.dpc with
      | .create => some { s with dpc := .inc, ws := s.ws.set s.i .run }
      | _ => none
  | .dInc => match s.dpc with
      | .inc => some { s with dpc := .unlock, tc := s.tc + 1 }
      | _ => none
  | .dUnlock => match s.dpc with
      | .unlock => some { s with dpc := .top, own := .none, i := s.i + 1 }
      | _ => none
  | .dExit => none
  | .wFinish i => if s.ws[i]? = some .run then some { s with ws := s.ws.set i .want } else none
  | .wLock i => if s.ws[i]? = some .want ∧ s.own = .none then some { s with ws := s.ws.set i .hold, own := .w i } else none
  | .wDecSignal i => if s.ws[i]? = some .hold ∧ s.own = .w i then some { s with ws := s.ws.set i .done, tc := s.tc - 1, sig := true } else none
  | .wUnlock i => if s.ws[i]? = some .done ∧ s.own = .w i then some { s with own := .none } else none


def pend (s : St) : Nat := if s.dpc = .inc then 1 else 0
def frontier (s : St) : Nat := if s.dpc = .inc ∨ s.dpc = .unlock then s.i + 1 else s.i
def holdsD (d : DPC) : Prop := d = .check ∨ d = .create ∨ d = .inc ∨ d = .unlock ∨ d = .drainCheck

structure Good (s : St) : Prop where
  cnt : s.ws.countP counted = s.tc + pend s
  le : s.tc ≤ s.f
  room : (s.dpc = .create ∨ s.dpc = .inc) → s.tc < s.f
  idle : ∀ j, frontier s ≤ j → (hj : j < s.ws.length) → s.ws[j] = .idle
  inb : (s.dpc = .create ∨ s.dpc = .inc ∨ s.dpc = .unlock) → s.i < s.ws.length
  own : holdsD s.dpc → s.own = .d

theorem flying_le_counted (ws : List W) : ws.countP flying ≤ ws.countP counted := by
  apply List.countP_mono_left
  intro w _ h; cases w <;> simp_all [flying, counted]

theorem inflight_le (s : St) (h : Good s) : s.ws.countP flying ≤ s.f := by
  have := flying_le_counted s.ws
  have h1 := h.cnt; have h3 := h.room; have h2 := h.le
  unfold pend at h1
  split at h1
  · have := h3 (Or.inr ‹_›); omega
  · omega

theorem get_of_get? {ws : List W} {i : Nat} {w : W} (h : ws[i]? = some w) : ∃ hi : i < ws.length, ws[i] = w := by
  rw [List.getElem?_eq_some_iff] at h; exact h

theorem countP_set_of {ws : List W} {i : Nat} {a b : W} (h : ws[i]? = some a) :
    (ws.set i b).countP counted + (if counted a then 1 else 0) = ws.countP counted + (if counted b then 1 else 0) := by
  obtain ⟨hi, he⟩ := get_of_get? h
  rw [List.countP_set hi, he]
  have : (if counted a = true then 1 else 0) ≤ ws.countP counted := by
    have := List.boole_getElem_le_countP (p := counted) hi; rw [he] at this; exact this
  omega

theorem idle_set {s : St} {i : Nat} {a b : W} (fr : Nat) (h4 : ∀ j, fr ≤ j → (hj : j < s.ws.length) → s.ws[j] = .idle)
    (hg : s.ws[i]? = some a) (ha : a ≠ .idle) :
    ∀ j, fr ≤ j → (hj : j < (s.ws.set i b).length) → (s.ws.set i b)[j] = .idle := by
  intro j hj hj2
  obtain ⟨hi, he⟩ := get_of_get? hg
  rw [List.getElem_set]; split
  · subst_vars; have := h4 j hj (by simpa using hj2); simp_all
  · exact h4 j hj (by simpa using hj2)

theorem good_step (s s' : St) (l : Lbl) (h : Good s) (hs : step s l = some s') : Good s' := by
  have ⟨h1, h2, h3, h4, h5, h6⟩ := h
  cases l with
  | dLock =>
    simp only [step] at hs
    split at hs <;> simp at hs <;> subst hs <;>
      constructor <;> simp_all [pend, frontier, holdsD]
  | dCheck =>
    simp only [step] at hs
    split at hs
    · split at hs
      · simp at hs; subst hs; constructor <;> simp_all [pend, frontier, holdsD]
      · split at hs
        · simp at hs; subst hs; constructor <;> simp_all [pend, frontier, holdsD]
        · simp at hs; subst hs
          rename_i hd hne hlt
          have hlt' : s.i < s.ws.length := by omega
          have hne' : s.tc < s.f := by
            have : s.f ≠ s.tc := by simpa using hne
            omega
          constructor <;> simp_all [pend, frontier, holdsD]
    · split at hs <;> simp at hs <;> subst hs <;> constructor <;> simp_all [pend, frontier, holdsD]
    · simp at hs
  | dWake sp =>
    simp only [step] at hs
    split at hs <;> (try split at hs) <;> simp at hs <;> subst hs <;> constructor <;> simp_all [pend, frontier, holdsD]
  | dRelock =>
    simp only [step] at hs
    split at hs <;> simp at hs <;> subst hs <;> constructor <;> simp_all [pend, frontier, holdsD]
  | dCreate =>
    simp only [step] at hs
    split at hs <;> simp at hs
    subst hs
    rename_i hd
    have hin := h5 (Or.inl hd)
    have hidle := h4 s.i (by simp [frontier, hd]) hin
    have hget : s.ws[s.i]? = some W.idle := by rw [List.getElem?_eq_getElem hin, hidle]
    have hc := countP_set_of (b := W.run) hget
    have hroom := h3 (Or.inl hd)
    have hi' : ∀ j, s.i + 1 ≤ j → (hj : j < (s.ws.set s.i W.run).length) → (s.ws.set s.i W.run)[j] = .idle := by
      intro j hj hj2
      rw [List.getElem_set]; split
      · omega
      · exact h4 j (by simp [frontier, hd]; omega) (by simpa using hj2)
    exact { cnt := by simp [pend, counted] at hc ⊢; simp [pend, hd] at h1; omega
            le := h2, room := fun _ => hroom
            idle := by simpa [frontier] using hi'
            inb := fun _ => by simpa using hin
            own := fun _ => h6 (by simp [holdsD, hd]) }
  | dInc =>
    simp only [step] at hs
    split at hs <;> simp at hs
    subst hs
    rename_i hd
    have hroom := h3 (Or.inr hd)
    exact { cnt := by simp [pend, hd] at h1 ⊢; omega
            le := by simp; omega
            room := by simp
            idle := by simpa [frontier, hd] using h4
            inb := fun _ => h5 (by simp [hd])
            own := fun _ => h6 (by simp [holdsD, hd]) }
  | dUnlock =>
    simp only [step] at hs
    split at hs <;> simp at hs
    subst hs
    rename_i hd
    exact { cnt := by simpa [pend, hd] using h1
            le := h2
            room := by simp
            idle := by simpa [frontier, hd] using h4
            inb := by simp
            own := by simp [holdsD] }
  | dExit => simp [step] at hs
  | wFinish i =>
    simp only [step] at hs
    split at hs <;> simp at hs
    subst hs
    rename_i hg
    have hc := countP_set_of (b := W.want) hg
    exact { cnt := by simp [counted] at hc; simpa [pend] using hc.trans h1 |> fun x => by simpa [pend] using x
            le := h2, room := h3
            idle := by simpa [frontier] using idle_set (frontier s) h4 hg (by simp)
            inb := by simpa using h5
            own := h6 }
  | wLock i =>
    simp only [step] at hs
    split at hs <;> simp at hs
    subst hs
    rename_i hg
    obtain ⟨hg, hown⟩ := hg
    have hc := countP_set_of (b := W.hold) hg
    have hnd : ¬ holdsD s.dpc := by intro hh; have := h6 hh; simp_all
    exact { cnt := by simp [counted] at hc; simpa [pend] using hc.trans h1
            le := h2, room := h3
            idle := by simpa [frontier] using idle_set (frontier s) h4 hg (by simp)
            inb := by simpa using h5
            own := fun hh => absurd hh hnd }
  | wDecSignal i =>
    simp only [step] at hs
    split at hs <;> simp at hs
    subst hs
    rename_i hg
    obtain ⟨hg, hown⟩ := hg
    have hc := countP_set_of (b := W.done) hg
    have hnd : ¬ holdsD s.dpc := by intro hh; have := h6 hh; simp_all
    have hpend : pend s = 0 := by
      unfold pend; split
      · rename_i hh; exact absurd (by simp [holdsD, hh]) hnd
      · rfl
    have hc' : List.countP counted (s.ws.set i W.done) + 1 = List.countP counted s.ws := by simpa [counted] using hc
    have h1' : List.countP counted s.ws = s.tc := by simpa [hpend] using h1
    have hp' : pend { s with ws := s.ws.set i W.done, tc := s.tc - 1, sig := true } = 0 := by simpa [pend] using hpend
    exact { cnt := by rw [hp']; show List.countP counted (s.ws.set i W.done) = s.tc - 1 + 0; omega
            le := by simp; omega
            room := fun hh => absurd (by rcases hh with hh | hh <;> simp_all [holdsD]) hnd
            idle := by simpa [frontier] using idle_set (frontier s) h4 hg (by simp)
            inb := by simpa using h5
            own := fun hh => absurd hh hnd }
  | wUnlock i =>
    simp only [step] at hs
    split at hs <;> simp at hs
    subst hs
    rename_i hg
    have hnd : ¬ holdsD s.dpc := by intro hh; have := h6 hh; simp_all
    exact { cnt := h1, le := h2, room := h3, idle := h4, inb := h5, own := fun hh => absurd hh hnd }
end Fan
