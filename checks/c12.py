"""C12  A copy peer can only write inside the destination it was given.

proof:          lean/PdshVerif/Props/C12.lean (receiver model of pcp_server.c:_sink as a byte automaton with an
                explicit directory stack over a finite-map file system; confinement invariant for the receiver
                with a name rule (the narrow repair "no `/`, not `..`" or the scp rule; the rule the code has is
                probed), decided escape witness for the code as found, the repair changes nothing else, reader
                indices in bounds, every level unwound on every stream, malformed/truncated input answered)
correspondence: the REAL pcp_server() (ASan/UBSan harness, forked + chroot'ed per case) and, in the thorough tier,
                the scratch-built `pdcp -z DEST` binary, fed generated hostile streams, about a tenth of them
                under a file size limit (write faults); reply classes and the complete file system below the
                jail root are compared with `pdshmodel pcp sink`
                symbolic links that already exist inside the destination: the model runs on the link-free view
                (Pcp/Links.lean, `pdshmodel pcp sinkl`) when the probed receiver follows links, and treats a link as
                something in the way when it does not (lstat/O_NOFOLLOW)
oracle:         snapshot of the jail (destination AND everything around it) before/after: every created or
                modified path must lie beneath the canonical destination (`pdshmodel pcp spec12`); a stream that
                violates the record grammar must be answered with at least one error record; after a write
                fault the files that fit are intact and the failure is reported; no crash, no sanitizer
                report, no hang
"""
import os
import re
import shutil
import subprocess
import time

from vlib import pcp
from vlib.common import HARNESS, LEAN_DIR
from vlib.pcp import Ent, OLD, hx
from vlib.seqrun import run_batch

LEVEL = "proof"
PROPS = "PdshVerif.Props.C12"
MANIFEST = dict(
    engine="pcp",
    technique="Lean 4 proof (confinement as an invariant of the receiver automaton's directory stack; decided "
              "escape witness; frame, bounds and termination theorems) + differential correspondence of the real "
              "pcp_server()/`pdcp -z` against the compiled model on hostile streams inside chroot jails",
    text="Theorems in lean/PdshVerif/Props/C12.lean about the model of pcp_server.c:_sink (all byte streams, all "
         "initial file systems without symbolic links); the model is executed against the real receiver on "
         "generated record sequences with hostile names/sizes/modes/times, truncations and garbage, comparing reply "
         "classes and the whole file system; independently every path the real receiver created or modified is "
         "tested for lying beneath the destination, which yields the escaping stream as replay.  Every run covers a "
         "fixed systematic part (every record type x field x malformation, one stream cut at every byte, every hostile / "
         "near-hostile name, deep nesting, sizes around the transfer block, symbolic links already inside the destination, "
         "and the receiver's environment as a script: st_blksize 0..1 MiB incl. 9216/12288/20480, reads fragmented or cut "
         "short at every call index, read/write interrupted, open/fstat failing).",
    design_ref="DESIGN.md section 5 C11/C12, section 6 D13",
    note="Lean 4.33 kernel; axioms propext/Classical.choice/Quot.sound at most (audited per theorem every run); "
         "hand-written model tied to pcp_server.c by differential execution of the real source built from /repo's "
         "working tree plus constants regenerated from /repo; kernel path resolution / mkdir / open / chmod / "
         "utimes / ftruncate semantics are modelled (root, no symbolic links, no I/O errors), not verified; memory "
         "safety beyond the three named buffers is sanitizer-supported only; harness is built with -fwrapv (the C "
         "code's signed overflow in size/time parsing is modelled as 64-bit wrap-around)")

CWD = b"o/w"
# -ftrivial-auto-var-init=pattern: an automatic variable read before it is written holds 0xFE.. instead of whatever
# the stack held (usually 0), so such a read shows (e.g. a pointer test `if (!p)` goes the other way)
SAN_FLAGS = ("-fwrapv", "-fno-sanitize=signed-integer-overflow", "-ftrivial-auto-var-init=pattern")


def read_const(name):
    txt = open(os.path.join(LEAN_DIR, "PdshVerif", "Gen", "Pcp.lean")).read()
    return int(re.search(r"def %s : Nat := (\d+)" % name, txt).group(1))


def jail_entries(prepop, destmode, bigold=False):
    e = [Ent(b"", "d", 0o755, OLD), Ent(b"o", "d", 0o755, OLD + 1), Ent(b"o/top", "f", 0o644, OLD + 2, b"topdata"),
         Ent(b"o/w", "d", 0o755, OLD + 3), Ent(b"o/w/victim", "f", 0o600, OLD + 4, b"victimdata"),
         Ent(b"o/w/vdir", "d", 0o700, OLD + 5), Ent(b"o/w/vdir/inner", "f", 0o644, OLD + 6, b"in"),
         Ent(b"o/w/dest", "d", destmode, OLD + 7)]
    if prepop:
        e += [Ent(b"o/w/dest/sub", "d", 0o755, OLD + 8), Ent(b"o/w/dest/old", "f", 0o640, OLD + 9, b"0123456789" * 3),
              Ent(b"o/w/dest/sub/deep", "f", 0o644, OLD + 10, b"deepdata")]
    if bigold:
        e.append(Ent(b"o/w/dest/bigold", "f", 0o644, OLD + 11, b"O" * 60000))
    return e


# ------------------------------------------------------------------------------------ generator
NAMES_OK = [b"a", b"f1", b"new", b"old", b"sub", b"deep", b"with space", b"sh$(x);&|*?", b"-rf", b"x.y",
            b"\xc3\xa9\xff\x80", b"a\tb", b"...", b"..x", b".hidden", b"dest"]
NAMES_BAD = [b"../evil", b"..", b".", b"", b"sub/../../esc", b"/abs", b"/o/w/victim", b"../victim", b"../vdir",
             b"../vdir/inner", b"a/b", b"sub/x", b"sub/", b"old/", b"old/x", b"sub/deep", b"../../top",
             b"../../../rootesc", b"./x", b"sub/..", b"../dest/y", b"x/", b"..\0hidden", b"ok\0/../x", b"/",
             b"sub//deep", b"./../evil2", b"sub/./../../evil3", b"../w/dest/in", b"../w/victim", b"..//evil4"]
DESTS = [(b"dest", 50), (b"dest/", 6), (b"./dest", 4), (b"/o/w/dest", 8), (b"dest/sub", 6), (b"dest/old", 5),
         (b"dest/new", 6), (b"../w/dest", 3), (b"nonexist/x", 2), (b"dest//sub/", 2), (b"victim", 2), (b".", 2),
         (b"", 1), (b"dest/../dest", 2)]
SIZES = [0, 1, 2, 5, 100, 8191, 8192, 8193, 16384]


def pick_name(rng):
    r = rng.random()
    if r < 0.45:
        return rng.choice(NAMES_OK)
    if r < 0.92:
        return rng.choice(NAMES_BAD)
    return rng.choice([b"L" * 255, b"L" * 256, b"K" * 300, b"d/" * 100 + b"x", b"N" * 4000, b"M" * 8200,
                       b"sub/" * 1020 + b"x", b"./" * 2040 + b"q", b"P" * 4080, b"../" * 30 + b"far"])


def num(rng, v, clean=False):
    r = 0.0 if clean else rng.random()
    if r < 0.85:
        return b"%d" % v
    if r < 0.9:
        return b"000%d" % v
    if r < 0.94:
        return b""
    return rng.choice([b"99999999999999999999", b"9223372036854775807", b"9223372036854775808",
                       b"18446744073709551615", b"18446744073709551617", b"-1", b"1e3", b"0x10"])


def t_record(rng, clean=False):
    r = rng.random() * (0.7 if clean else 1.0)
    sec = rng.choice([1234567890, 1100000000 + rng.randrange(10**8), 0, 1, 2147483647, 2147483648, 2**33, 2**40])
    if r < 0.7:
        return b"T%d 0 %d 0\n" % (sec, sec + 5)
    if r < 0.85:
        us = rng.choice([999999, 1000000, 5, 123456, 2**31, 99999999999999999999])
        return b"T%d %d %d %d\n" % (sec, us, sec, rng.choice([0, us]))
    return rng.choice([b"T\n", b"T1\n", b"T1 2\n", b"T1 2 3\n", b"T1 2 3 4 \n", b"T1 2 3 4x\n", b"T 0 0 0\n",
                       b"T1  0 1 0\n", b"T1 0 1 0\0junk\n", b"Tx 0 1 0\n", b"T99999999999999999999 0 1 0\n",
                       b"T1 0 99999999999999999999 0\n", b"T-1 0 1 0\n"])


def mode_field(rng, clean=False):
    r = rng.random() * (0.88 if clean else 1.0)
    if r < 0.88:
        return b"%04o" % rng.choice([0o644, 0o755, 0o600, 0o700, 0, 0o7777, 0o4755, 0o2775, 0o1777,
                                     rng.randrange(0o10000)])
    return rng.choice([b"644", b"00644", b"0648", b"064a", b"", b"-644", b" 644", b"\xff644"])


def file_record(rng, last, clean=False):
    if clean:
        n = rng.choice(SIZES) if rng.random() < 0.6 else rng.randrange(0, 40)
        data = bytes(rng.choice(b"abc\n\0 CDET019") for _ in range(min(n, 64))) * (n // 64 + 1)
        return b"C" + mode_field(rng, True) + b" %d " % n + pick_name(rng) + b"\n" + data[:n] + b"\0"
    n = rng.choice(SIZES) if rng.random() < 0.8 else rng.randrange(0, 40)
    if rng.random() < 0.03:
        n = rng.choice([3 * 8192 - 1, 3 * 8192, 3 * 8192 + 1])
    data = bytes(rng.choice(b"abc\n\0 CDET019") for _ in range(min(n, 64))) * (n // 64 + 1)
    data = data[:n]
    r = rng.random()
    if r < 0.8:
        size = num(rng, n)
    elif r < 0.9:
        size = b"%d" % (n + rng.choice([1, 2, 8192, 100]))
    else:
        size = b"%d" % max(0, n - rng.choice([1, 2, n]))
    resp = b"\0" if rng.random() < 0.93 else rng.choice([b"\1", b"", b"\n", b"\0\0"])
    sep1 = b" " if rng.random() < 0.97 else rng.choice([b"", b"  ", b"\t"])
    sep2 = b" " if rng.random() < 0.97 else rng.choice([b"", b"\t"])
    return b"C" + mode_field(rng) + sep1 + size + sep2 + pick_name(rng) + b"\n" + data + resp


def gen_items(rng, depth, clean=False):
    out = []
    for _ in range(rng.choice([1, 1, 2, 2, 3, 4, 6])):
        r = rng.random() * (0.86 if clean else 1.0)
        if r < 0.16:
            out.append(t_record(rng, clean))
        elif r < 0.58:
            out.append(file_record(rng, False, clean))
        elif r < 0.80 and depth < 4:
            sep = b" " if clean or rng.random() < 0.97 else b""
            out.append(b"D" + mode_field(rng, clean) + sep + num(rng, 0, clean) + b" " + pick_name(rng) + b"\n")
            out += gen_items(rng, depth + 1, clean)
            if clean or rng.random() < 0.85:
                out.append(b"E\n")
        elif r < 0.86:
            out.append(rng.choice([b"E\n", b"E\n", b"Exyz\n", b"\2\n", b"\2stop\n"]))
        elif r < 0.91:
            out.append(rng.choice([b"\1error text from the peer\n", b"\1\n", b"\1C0644 0 x\n"]))
        else:
            out.append(rng.choice([b"\n", b"X\n", b"c0644 1 a\n", b"\0", b"C\n", b"D\n", b"C0644\n", b"C0644 \n",
                                   b"C0644 1\n", b"hello world\n", b"\xff\xfe\n", b" C0644 0 x\n", b"CC0644 0 x\n",
                                   b"E", b"T"]))
    return out


def gen_stream(rng):
    r = rng.random()
    if r < 0.04:
        n = rng.randrange(0, 300)
        return bytes(rng.randrange(256) for _ in range(n))
    if r < 0.07:
        n = rng.randrange(0, 200)
        return bytes(rng.choice(b"CDET0123456789 ./\n\0ab") for _ in range(n))
    if r < 0.09:
        # a record longer than the buffer: split at BUFSIZ-1 bytes by the reader
        return b"C0644 0 " + b"Z" * rng.choice([pcp.BUFSIZ - 12, pcp.BUFSIZ - 10, pcp.BUFSIZ - 9, pcp.BUFSIZ, 2 * pcp.BUFSIZ]) \
            + b"\n\0" + b"C0644 1 a\nA\0"
    if r < 0.50:
        # syntactically valid record sequences: only the names (and the file system they meet) are hostile
        return b"".join(gen_items(rng, 0, True))
    s = b"".join(gen_items(rng, 0))
    m = rng.random()
    if m < 0.12 and s:
        s = s[:rng.randrange(len(s))]
    elif m < 0.18 and s:
        i = rng.randrange(len(s))
        s = s[:i] + bytes([rng.randrange(256)]) + s[i + 1:]
    elif m < 0.22 and s:
        i = rng.randrange(len(s))
        s = s[:i] + s[i + 1:]
    elif m < 0.26:
        i = rng.randrange(len(s) + 1)
        s = s[:i] + bytes(rng.randrange(256) for _ in range(rng.randrange(1, 12))) + s[i:]
    return s


# a forbidden name plus one byte (or one harmless component) that a receiver might normalise away AFTER it has validated
# the name: trailing/leading CR, blank, tab, other control bytes, a `./` in front, `x/..` in front, doubled slashes
NEAR_TAILS = [b"\r", b" ", b"\t", b"\x0b", b"\x0c", b"\x7f", b"\x00", b"\xa0", b"\\", b"/", b"/.", b"//", b"\r\r", b"\r ",
              b";", b"%00", b"\x1b"]
NEAR_HEADS = [b"\r", b" ", b"\t", b"./", b"x/../", b".//", b"\x00", b"\x7f", b"sub/../"]
NEAR_CORES = [b"..", b".", b"../victim", b"../pwned", b"..", b".."]


def near_name(rng):
    core = rng.choice(NEAR_CORES)
    r = rng.random()
    if r < 0.55:
        return core + rng.choice(NEAR_TAILS)
    if r < 0.85:
        return rng.choice(NEAR_HEADS) + core
    if r < 0.93:
        return rng.choice(NEAR_HEADS) + core + rng.choice(NEAR_TAILS)
    i = rng.randrange(len(core) + 1)
    return core[:i] + rng.choice([b"\r", b"\t", b" ", b"\x00"]) + core[i:]       # embedded


def gen_near(rng):
    """well-formed record sequences whose names are near-forbidden: a directory record with such a name, files inside
    it (they would land outside DEST if the receiver took the name for `..`), the matching `E`, a file afterwards; or
    a file record with such a name"""
    p = rng.choice([0, 0, 1])
    t = (lambda: b"T1234567890 0 1234567890 0\n") if p else (lambda: b"")
    if rng.random() < 0.7:
        s = t() + b"D0755 0 " + near_name(rng) + b"\n" + t() + b"C0644 5 pwned\nhello\0"
        if rng.random() < 0.5:
            s += t() + b"D0700 0 " + near_name(rng) + b"\n" + t() + b"C0600 3 deeper\nabc\0E\n"
        s += b"E\n" + t() + b"C0644 2 after\nok\0"
    else:
        s = t() + b"C0644 5 " + near_name(rng) + b"\nhello\0" + t() + b"C0644 2 after\nok\0"
    return dict(stream=s, dest=rng.choice([b"dest", b"dest", b"dest/sub", b"dest/", b"/o/w/dest"]), p=p, y=rng.choice([0, 1]),
                um=rng.choice([0o22, 0o77, 0]), fd=rng.choice([0, 1]), prepop=True, destmode=0o755, fsz=0, bigold=False,
                files=None)


def gen_deep(rng):
    """bias towards the branches a plain run rarely takes (see evidence distribution.receiver_branches): input that
    ends 3..6 directory levels deep -- in a record, in file data, before the response byte, with times pending on
    every level -- negative sizes, a time record without a control record"""
    p = rng.choice([0, 1, 1])
    depth = rng.randrange(3, 7)
    s = b""
    for k in range(depth):
        if p and rng.random() < 0.8:
            s += b"T%d 0 %d 0\n" % (1200000000 + k, 1300000000 + k)
        s += b"D%04o 0 lvl%d\n" % (rng.choice([0o755, 0o700, 0o2775, 0o500]), k)
    tail = rng.choice([b"", b"C06", b"C0644 5 f\nab", b"C0644 3 f\nabc", b"C0644 3 f\nabc\0", b"C0644 -5 neg\n\0",
                       b"T1 0 1 0\n", b"T1 0 1 0\nT2 0 2 0\n", b"C0644 0 empty\n", b"E\n", b"E\nE\n",
                       b"C0644 3 f\nabc\1", b"\2bye\n", b"T1 0 1 9999999\nC0644 1 u\nA\0"])
    return dict(stream=s + tail, dest=b"dest", p=p, y=rng.choice([0, 1]), um=rng.choice([0o22, 0o77, 0]), fd=rng.choice([0, 1]),
                prepop=rng.random() < 0.5, destmode=0o755, fsz=0, bigold=False, files=None)


def gen_case(rng):
    dest = rng.choices([d for d, _ in DESTS], [w for _, w in DESTS])[0]
    if rng.random() < 0.10:
        return gen_fault_case(rng)
    return dict(stream=gen_stream(rng), dest=dest, p=rng.choice([0, 0, 1]), y=rng.choice([0, 0, 0, 1]),
                um=rng.choice([0o22, 0o22, 0o77, 0, 0o27]), fd=rng.choice([0, 0, 1]),
                prepop=rng.random() < 0.7, destmode=rng.choice([0o755, 0o755, 0o755, 0o2775, 0o700, 0o1777]),
                fsz=rng.choice([0] * 12 + [8192, 100, 20000]), bigold=False, files=None)


FSIZES = [8192, 16384, 12000, 24576, 20000, 1, 40000]


def gen_fault_case(rng):
    """write faults: the receiver runs with a file size limit (RLIMIT_FSIZE, SIGXFSZ ignored -- the same failure as
    a full disk or an exceeded quota); a well-formed sequence of plainly named files, some larger than the limit with
    several transfer blocks still to come after the failing write, followed by files that fit"""
    fsz = rng.choice(FSIZES)
    p = rng.choice([0, 0, 1])
    files, stream = [], b""
    names = [b"f%d" % i for i in range(6)] + [b"bigold", b"old"]
    rng.shuffle(names)
    for nm in names[:rng.choice([2, 3, 4, 5])]:
        n = rng.choice([0, 100, 8192, 8193, 16384, 20000, 24577, 40000, 70000, fsz, fsz + 1, fsz + 3 * 8192])
        data = bytes([65 + len(files)]) * n
        if p and rng.random() < 0.7:
            stream += b"T%d 0 %d 0\n" % (1200000000 + len(files), 1200000005)
        stream += b"C%04o %d %s\n" % (rng.choice([0o644, 0o600, 0o755]), n, nm) + data + b"\0"
        files.append((nm, n, data))
    if rng.random() < 0.15 and stream:
        stream = stream[:rng.randrange(len(stream))]
        files = None                               # truncated: only the generic oracles apply
    return dict(stream=stream, dest=b"dest", p=p, y=rng.choice([0, 1]), um=0o22, fd=rng.choice([0, 1]),
                prepop=rng.random() < 0.5, destmode=0o755, fsz=fsz, bigold=rng.random() < 0.5, files=files)


def C(stream, **kw):
    d = dict(stream=stream, dest=b"dest", p=0, y=0, um=0o22, fd=0, prepop=True, destmode=0o755, fsz=0, bigold=False,
             files=None)
    d.update(kw)
    return d


CORPUS = [
    C(b"C0644 5 ../evil\nhello\0"),
    C(b"D0755 0 ..\nC0644 3 ../esc2\nabc\0E\n"),
    C(b"C0644 5 sub/../../evil3\nhello\0"),
    C(b"C0600 3 ../victim\nXYZ\0"),
    C(b"T1234567890 0 1234567890 0\nD0777 0 ../vdir\nE\n", p=1),
    C(b"C0644 5 /abs/x\nhello\0"),
    # near-forbidden names (seeded change C12-7: a trailing CR stripped after the name check)
    C(b"D0755 0 ..\r\nC0644 5 pwned\nhello\0E\nC0644 2 after\nok\0"),
    C(b"D0755 0 .. \nC0644 5 pwned\nhello\0E\n"),
    C(b"D0755 0 ./..\nC0644 5 pwned\nhello\0E\n"),
    C(b"C0644 5 ..\r\nhello\0"), C(b"C0644 5 \r..\nhello\0"), C(b"D0755 0 .\r\nC0644 5 same\nhello\0E\n"),
    C(b"T1234567890 0 1234567890 0\nD0755 0 ..\t\nT1234567890 0 1234567890 0\nC0644 5 pwned\nhello\0E\n", p=1),
    C(b"C0644 3 old\nabc\0"),
    # existing entries without -p: contents replaced, modes left alone; with -p: modes taken over
    C(b"D0700 0 sub\nC0600 3 deep\nxyz\0E\nC0604 3 old\nabc\0"),
    C(b"T1234567890 0 1234567891 0\nD0700 0 sub\nT1234567890 0 1234567891 0\nC0600 3 deep\nxyz\0E\n"
      b"T1234567890 0 1234567891 0\nC0604 3 old\nabc\0", p=1),
    C(b"T1234567890 0 1234567890 0\nD6755 0 newd\nC4755 2 f\nhi\0E\nC0644 0 \n\0", p=1),
    C(b"T1234567890 0 1234567890 0\nD2775 0 newd\nD0700 0 k\nE\nE\n", um=0o27),
    C(b"C0644 3 x\nab"),
    C(b"C0644 99999999999999999999 x\nab"),
    C(b"C0644 9223372036854775808 x\n\0"),
    C(b"C0644 3 newfile\nabc\0", dest=b"dest/nf"),
    C(b"C0644 3 newfile\nabc\0", dest=b"dest/nf", y=1),
    C(b"\n"), C(b"X\n"), C(b""), C(b"C"), C(b"E\nC0644 3 after\nabc\0"),
    C(b"D0755 0 d1\nX\nC0644 1 a\nA\0"),
    C(b"C0644 8193 big\n" + b"q" * 8193 + b"\0"),
    C(b"C0644 8192 old\n" + b"q" * 8000),
    C(b"C0644 20000 old\n" + b"q" * 9000),
    C(b"T1 1000000 1 0\nC0644 1 a\nA\0C0644 1 b\nB\0"),
    C(b"C0644 1 a\nA\1"),
    C(b"C0644 0 " + b"L" * 256 + b"\n\0"),
    C(b"C0644 0 " + b"sub/" * 1020 + b"x\n\0"),
    # write faults (seeded change C12-2: after a failed write the buffer pointer must still be reset)
    C(b"C0644 65536 big\n" + b"Z" * 65536 + b"\0C0644 6 small\nhello\n\0", fsz=16384,
      files=[(b"big", 65536, b"Z" * 65536), (b"small", 6, b"hello\n")]),
    C(b"C0644 40000 bigold\n" + b"N" * 40000 + b"\0C0644 2 after\nok\0", fsz=12000, bigold=True,
      files=[(b"bigold", 40000, b"N" * 40000), (b"after", 2, b"ok")]),
    C(b"T1200000000 0 1200000000 0\nC0644 30000 f\n" + b"q" * 30000 + b"\0T1200000001 0 1200000001 0\nC0600 3 g\nabc\0",
      fsz=8192, p=1, files=[(b"f", 30000, b"q" * 30000), (b"g", 3, b"abc")]),
]



# ---------------------------------------------------------------- systematic part of every quick run
BAD_NUMS = [b"", b"x", b"7x", b"-1", b"+1", b" 1", b"1 ", b"0x10", b"1e3", b"2147483647", b"2147483648", b"4294967295",
            b"4294967296", b"2147483649", b"4294967297", b"9223372036854775807", b"9223372036854775808", b"18446744073709551615",
            b"18446744073709551616", b"99999999999999999999999999"]
BAD_MODES = [b"", b"644", b"06440", b"0648", b"064a", b"-644", b" 644", b"+644", b"0x1f", b"06 4", b"\xff644", b"7777",
             b"0000", b"4755", b"1777"]
# names a receiver must not follow out of DEST, names that only look dangerous, names with format directives (they end
# up in error messages), long names
SYS_NAMES = [b"..", b"/", b"a/../..", b"./", b"", b".", b"../x", b"x/..", b"/..", b"./..", b"sub/..", b"sub/../..", b"..//",
             b"%2e%2e", b"..%2f", b"\t..", b"..;", b"..\x0b", b"a/b", b"/abs", b"//", b"..\0", b"..\0x",
             b"a\0/../..", b"..\r", b"\r..", b".. ", b" ..", b"..\t", b"...", b"..x", b"-rf", b"--", b"%s%n%p%S%m%d%x",
             b"%", b"E", b"T1 0 1 0", b"C0644 0 x", b"D0755 0 x", b"\1", b"\2", b"\\", b"sub", b"old", b"sub/", b"old/",
             b"N" * 255, b"N" * 256, b"\xff\x80\xfe"]
TRUNC_BASE = (b"T1234567890 0 1234567891 0\nD0750 0 nd\nT1234567892 0 1234567893 0\nC0640 5 f1\nhello\0E\n"
              b"T1234567894 0 1234567895 0\nC0600 0 empty\n\0C0644 3 old\nxyz\0")
AFTER = b"C0644 1 after\nZ\0"


def systematic():
    """The part of the input space EVERY run covers, whatever the seed (G1: a changed branch, boundary or error path of
    the receiver must be noticed by a case that always runs, not by a lucky draw):
    every record type x every field x every malformation (missing, non-digit, sign, blank, overflow at 2^31, 2^32, 2^63,
    2^64 and beyond); T records in every position; every hostile / near-hostile / format-directive / long name in a
    file record, in a directory record with a file inside, and meeting an existing file / directory; E records without
    a D, more E than D; a stream that goes on after an error reply (with and without the refused file's data); declared
    sizes at and around the transfer block with the data cut at the interesting places; enormous declared sizes with
    short data; one rich stream truncated at EVERY byte; records at and around the size of the line buffer; nesting far
    deeper than any fixed-size stack could hold, and paths growing beyond PATH_MAX; the option dimensions -p, -y, the
    two ways the receiver is connected (one socket / two pipes), destination existing directory / file / missing."""
    B = pcp.BUFSIZ
    cs = []

    def add(stream, **kw):
        kw.setdefault("fd", len(cs) % 2)
        cs.append(C(stream, **kw))
    tdef = [b"1234567890", b"0", b"1234567891", b"0"]
    # -- T record: every field, every malformation; followed by a file that would take the times, and one more file
    for i in range(4):
        for bad in BAD_NUMS:
            f = list(tdef)
            f[i] = bad
            add(b"T" + b" ".join(f) + b"\nC0644 3 tf\nabc\0" + AFTER, p=1)
    for t in (b"T\n", b"T1\n", b"T1 2\n", b"T1 2 3\n", b"T1 2 3 4 5\n", b"T1 2 3 4 \n", b"T1  2 3 4\n", b"T1 0 1 0\0x\n",
              b"T1\t0 1 0\n", b"T1 999999 1 999999\n", b"T1 1000000 1 0\n", b"T1 0 1 1000000\n", b"T0 0 0 0\n",
              b"T4102444800 0 4102444800 0\n", b"t1 0 1 0\n", b"TT1 0 1 0\n"):
        add(t + b"C0644 3 tf\nabc\0" + AFTER, p=1)
        add(t + b"D0755 0 td\nE\n" + AFTER, p=1)
    # -- T records in every position
    T = b"T1234567890 0 1234567891 0\n"
    for st in (T, T + T, T + b"E\n", T + b"\2\n", T + b"\1msg\n" + b"C0644 1 a\nA\0", b"D0755 0 d\n" + T + b"E\n" + AFTER,
               b"D0755 0 d\n" + T, b"D0755 0 d\nE\n" + T, b"C0644 1 a\nA\0" + T, b"C0644 3 a\nab" + T, T + b"X\n" + AFTER,
               T + b"C0644 1 sub\n" + T + b"C0644 1 b\nB\0", T + b"D0755 0 old\n" + b"C0644 1 c\nC\0",
               b"C0644 1 a\n" + T, b"C0644 1 a\nA" + T, T + b"D0755 0 d\n" + T + b"D0700 0 e\n" + T + b"C0600 1 f\nF\0E\nE\n" + T + AFTER):
        for p in (0, 1):
            add(st, p=p)
    # -- C and D records: mode field, size field
    for bad in BAD_MODES:
        add(b"C" + bad + b" 3 cm\nabc\0" + AFTER)
        add(b"D" + bad + b" 0 dm\n" + b"C0644 1 in\nI\0E\n" + AFTER, p=1)
    for bad in BAD_NUMS:
        add(b"C0644 " + bad + b" cs\nabc\0" + AFTER)
        add(b"D0755 " + bad + b" ds\n" + b"C0644 1 in\nI\0E\n" + AFTER)
    for rec in (b"C\n", b"D\n", b"C0644\n", b"C0644 \n", b"C0644 1\n", b"C0644 1 \n", b"C06441 x\n", b"C0644  1 x\n",
                b"C0644\t1 x\n", b"C0644 1\tx\n", b"c0644 1 x\n", b" C0644 1 x\n", b"CC0644 1 x\n", b"D0755 0\n", b"D0755\n",
                b"D0755 0 \n", b"\n", b"\0\n", b"\0", b"X\n", b"\xff\n"):
        add(rec + b"Q\0" + AFTER)
        add(b"D0755 0 lvl\n" + rec + b"Q\0E\n" + AFTER)
    # -- names: as a file, as a directory with a file inside, under -p, with the destination given in different ways
    for k, nm in enumerate(SYS_NAMES):
        add(b"C0644 5 " + nm + b"\nhello\0" + AFTER)
        add(b"D0755 0 " + nm + b"\nC0644 5 pwned\nhello\0E\n" + AFTER)
        add(T + b"D0711 0 " + nm + b"\n" + T + b"C0604 5 pwned\nhello\0E\n" + T + AFTER, p=1,
            dest=[b"dest", b"dest/", b"/o/w/dest", b"dest/sub", b"./dest"][k % 5])
        add(b"D0755 0 in\nC0644 5 " + nm + b"\nhello\0D0700 0 " + nm + b"\nE\nE\n" + AFTER, prepop=False)
    # -- E records
    for st in (b"E\n", b"E\n" + AFTER, b"E\nE\n", b"D0755 0 d\nE\nE\n" + AFTER, b"D0755 0 d\nD0755 0 e\nE\nE\nE\n" + AFTER,
               b"Exyz\n" + AFTER, b"D0755 0 d\nExyz\n" + AFTER, b"E", b"D0755 0 d\nE", b"\2\n" + AFTER, b"D0755 0 d\n\2\n" + AFTER,
               b"\2", b"\1\n" + AFTER, b"\1", b"D0755 0 d\n" + AFTER + b"E\n" + AFTER + b"E\n" + AFTER):
        add(st)
        add(T + st, p=1)
    # -- the stream goes on after an error reply
    for bad in (b"C0644 3 sub\n", b"D0755 0 old\n", b"C0644 3 " + b"N" * 256 + b"\n", b"C0644 3 nodir/x\n", b"D0755 0 ../vdir\n"):
        add(bad + AFTER)                                    # the sender skips the refused entry
        add(bad + b"abc\0" + AFTER)                         # ... or sends its data anyway
        add(bad + b"E\n" + AFTER)
        add(b"D0755 0 d\n" + bad + AFTER + b"E\n" + AFTER, p=1)
    # -- sizes around the transfer block, data complete / cut
    for n in (0, 1, B - 1, B, B + 1, 2 * B - 1, 2 * B, 2 * B + 1, 3 * B):
        data = bytes((i * 7 + n) & 255 for i in range(n))
        add(b"C0644 %d blk\n" % n + data + b"\0" + AFTER)
        add(b"C0644 %d old\n" % n + data + b"\0" + AFTER, p=1)           # over an existing (30 byte) file
        add(b"C0644 %d bigold\n" % n + data + b"\0" + AFTER, bigold=True)  # over a longer file: truncated to size
        for cut in sorted(set(x for x in (0, 1, B - 1, B, n - 1) if 0 <= x < n)):
            add(b"C0644 %d cut\n" % n + data[:cut])
        add(b"C0644 %d nonul\n" % n + data)
        add(b"C0644 %d badresp\n" % n + data + b"\1" + AFTER)
    for big in (b"2147483647", b"2147483648", b"4294967296", b"1099511627776", b"9223372036854775807"):
        add(b"C0644 " + big + b" huge\n" + b"short data")
        add(b"C0644 " + big + b" huge\n")
        add(b"T1 0 1 0\nC0644 " + big + b" old\nxy", p=1)
    # -- one rich stream cut at every byte
    for k in range(len(TRUNC_BASE)):
        add(TRUNC_BASE[:k], p=1)
    for k in range(0, len(TRUNC_BASE), 3):
        add(TRUNC_BASE[:k], p=0, y=1)
    # -- records at and around the size of the line buffer
    for n in (B - 13, B - 12, B - 11, B - 10, B - 9, B - 8, B, 2 * B - 11, 2 * B):
        add(b"C0644 0 " + b"Z" * n + b"\n\0" + AFTER)
        add(b"\1" + b"m" * n + b"\n" + AFTER)
    add(b"T" + b"1" * (B + 5) + b" 0 1 0\n" + AFTER)
    add(b"C0644 " + b"0" * (B + 5) + b"1 x\nA\0" + AFTER)
    # -- depth: far beyond any fixed number of levels; paths beyond PATH_MAX
    for depth in (40, 100):
        add(b"".join(b"D0755 0 l\n" for _ in range(depth)) + b"C0644 4 leaf\ndeep\0" + b"E\n" * depth + AFTER, prepop=False)
        if depth <= 40:     # (the model's file system is a chain of closures: a deep tree with times costs seconds)
            add(T.join([b""] + [b"D0755 0 l\n"] * depth) + T + b"C0644 4 leaf\ndeep\0" + b"E\n" * (depth // 2), p=1, prepop=False)
    add(b"".join(b"D0755 0 " + b"p" * 200 + b"\n" for _ in range(25)) + b"C0644 1 toolong\nX\0" + b"E\n" * 25 + AFTER, prepop=False)
    # -- destination: existing directory / existing file / missing, with and without -y
    for dest in (b"dest", b"dest/old", b"dest/missing", b"missing/x", b"victim", b".", b"..", b"dest/sub/", b"dest/old/"):
        for y in (0, 1):
            add(b"C0644 3 one\nabc\0", dest=dest, y=y)
            add(b"C0644 3 one\nabc\0C0600 2 two\nxy\0", dest=dest, y=y, p=1)
            add(b"D0755 0 dd\nC0644 3 one\nabc\0E\n", dest=dest, y=y)
    # -- every receiver OPTION combination x every hostile name (seeded change C12-14: the name check applied only when
    # the receiver was started with -y; the class: a guard of _sink() made conditional on an option or on what DEST is):
    # -y on/off x -p on/off x DEST an existing directory / a directory given with a slash / an existing file / missing,
    # the name in a file record, and twice in directory records with a file inside (`D .. ..` climbs two levels)
    for nm in OPT_NAMES:
        for y in (0, 1):
            for p in (0, 1):
                for dest in (b"dest", b"dest/sub/", b"dest/old", b"dest/missing"):
                    t = T if p else b""
                    add(t + b"C0644 5 " + nm + b"\nhello\0" + t + AFTER, dest=dest, y=y, p=p)
                    add(t + b"D0755 0 " + nm + b"\n" + t + b"D0755 0 " + nm + b"\n" + t + b"C0644 5 pwned\nhello\0E\nE\n" + t + AFTER,
                        dest=dest, y=y, p=p)
    return cs


# names for the option matrix of `systematic`: every name that leads (or nearly leads) out of DEST, plus two harmless ones
OPT_NAMES = [b"..", b"../x", b"../evil", b"../victim", b"../vdir", b"sub/../../x", b"a/../..", b"/abs", b"/", b"/o/w/victim",
             b"x/..", b"./..", b"sub/..", b"..//", b"a/b", b"sub/x", b"sub/", b"./x", b"..\0x", b".. ", b"..\r", b".", b"",
             b"..x", b"sub", b"old", b"fresh"]



# symbolic links that ALREADY exist inside the destination: (path, target, kind of what the target is)
LINKS = [(b"o/w/dest/ln", b"../vdir", "dir"), (b"o/w/dest/labs", b"/o/w/vdir", "dir"), (b"o/w/dest/lf", b"../victim", "file"),
         (b"o/w/dest/sub/ln2", b"../../vdir", "dir"), (b"o/w/dest/lin", b"sub", "inside"),
         (b"o/w/dest/dl", b"../created-through-link", "dangling"), (b"o/w/dest/lup", b"..", "ancestor"),
         (b"o/w/dest/ltop", b"../../top", "file")]


def link_case(path, target, kind, variant, p):
    """a well-formed stream with PLAIN names only that meets the link"""
    name = path.rsplit(b"/", 1)[1]
    t = b"T1234567890 0 1234567891 0\n" if p else b""
    pre = post = b""
    if path.startswith(b"o/w/dest/sub/"):
        pre, post = t + b"D0755 0 sub\n", b"E\n"
    if variant == "enter":          # a directory record with the link's name, a file inside
        body, block = t + b"D0700 0 " + name + b"\n" + t + b"C0644 5 pwned\nhello\0E\n", "f"
    elif variant == "enter2":       # ... two levels
        body, block = (t + b"D0755 0 " + name + b"\n" + t + b"D0750 0 inner\n" + t + b"C0600 3 k\nabc\0E\nE\n"), "f"
    else:                           # a file record with the link's name
        body, block = t + b"C0604 3 " + name + b"\nXYZ\0", "d"
    return C(pre + body + post + t + b"C0644 2 after\nok\0", p=p, links=[(path, target)], link_block=block,
             # the translation to the link-free model covers links to existing things outside the destination
             oracle_only=kind in ("dangling", "ancestor"))


def link_cases():
    cs = []
    for path, target, kind in LINKS:
        for variant in ("enter", "enter2", "file"):
            for p in (0, 1):
                cs.append(link_case(path, target, kind, variant, p))
    return cs


# --------------------------------------------------------------------------------------- running
def pat(n, k=7):
    return bytes((i * k + i // 251) % 251 for i in range(n))


def env_cases():
    """The receiver's environment as a script (harness `sink ... ENV`), a fixed part of every run:
    * st_blksize of the file being written: 0, 1, 512, 4096, BUFSIZ-1, BUFSIZ, BUFSIZ+1, 9216, 12288, 20480, 65536, 1 MiB
      (ext4/xfs/tmpfs 4096, ZFS 512-byte steps, NFS/Lustre 64 KiB..1 MiB) x file sizes at and around the resulting
      transfer buffer, with and without a write fault -- full model correspondence, bp->cnt = roundup(blksize, BUFSIZ);
    * read(2) delivering at most 1, 2, 7, 4096, BUFSIZ-1 bytes at a time, and ONE short read at every read index of a rich
      stream -- the result must be what it is with whole reads (full model correspondence);
    * read(2) interrupted (EINTR, once) at every read index of that stream, and followed by end of input -- oracle only:
      no crash, no sanitizer report, no hang, nothing outside DEST, and -- unless the receiver ended the copy or sent
      an error record -- every file intact."""
    B = pcp.BUFSIZ
    cs = []
    for blk in (0, 1, 512, 4096, B - 1, B, B + 1, 9216, 12288, 20480, 65536, 1 << 20):
        eff = ((blk + B - 1) // B) * B or B
        sizes = sorted(set(n for n in (blk + 1, eff - 1, eff, eff + 1, 2 * eff + 5, 3 * B + 1) if 0 < n <= 70000)) or [3 * B + 1]
        if blk >= 65536:
            sizes = [B + 1, 70000] if blk > 65536 else [65535, 65537]
        for n in sizes:
            d = pat(n)
            cs.append(C(b"C0644 %d f\n" % n + d + b"\0" + AFTER, env="blk=%d" % blk))
        n = 2 * eff + 5 if 2 * eff + 5 <= 70000 else 70000
        d = pat(n, 11)
        cs.append(C(b"C0644 %d big\n" % n + d + b"\0C0644 6 small\nhello\n\0", env="blk=%d" % blk, fsz=12000,
                    files=[(b"big", n, d), (b"small", 6, b"hello\n")]))
    d = pat(20000, 13)
    rich = (b"T1234567890 0 1234567891 0\nD0750 0 nd\nT1234567892 0 1234567893 0\nC0640 20000 f1\n" + d + b"\0E\n"
            b"C0644 3 old\nxyz\0")
    for m in (1, 2, 7, 4096, B - 1):
        cs.append(C(rich, p=1, env="rdmax=%d" % m))
        cs.append(C(rich, p=1, fd=1, env="rdmax=%d" % m))
    d9 = d[:9000]
    plain = b"C0640 9000 f1\n" + d9 + b"\0C0644 3 g\nabc\0"
    nreads = len(b"C0640 9000 f1\n") + 2 + 1 + len(b"C0644 3 g\n") + 1 + 1 + 1
    for k in range(nreads + 1):
        cs.append(C(plain, env="short=%d:1" % k))
        cs.append(C(plain, env="eintr=%d" % k, oracle_only=True, files=[(b"f1", 9000, d9), (b"g", 3, b"abc")]))
    # write(2) -- file data and replies, one counter -- interrupted or short at every call index; the K-th open(2) failing
    # (EMFILE); fstat(2) failing: oracle only
    two = b"C0640 9000 f1\n" + d9 + b"\0C0644 8300 g\n" + d[:8300] + b"\0C0644 3 h\nabc\0"
    tf = [(b"f1", 9000, d9), (b"g", 8300, d[:8300]), (b"h", 3, b"abc")]
    for k in range(14):
        cs.append(C(two, env="wr=%d:e" % k, oracle_only=True, files=tf))
        cs.append(C(two, env="wr=%d:s" % k, oracle_only=True, files=tf))
    for k in range(3):
        cs.append(C(two, env="open=%d" % k, oracle_only=True, files=tf))
    cs.append(C(two, env="fstat=fail", oracle_only=True, files=tf))
    for k in (15, 16, 17):
        # interrupted inside the data of a file the peer then stops sending
        cs.append(C(b"C0640 20000 f1\n" + d[:9000], env="eintr=%d" % k, oracle_only=True))
        cs.append(C(b"C0640 20000 f1\n" + d[:9000], fd=1, env="eintr=%d" % k, oracle_only=True))
    return cs


def op_line(jail, c):
    return "sink %s /%s %s %d %d %o %d %d %s%s" % (jail, CWD.decode(), hx(c["dest"]), c["p"], c["y"], c["um"], c["fd"],
                                                   c.get("fsz", 0), hx(c["stream"]),
                                                   " " + c["env"] if c.get("env") else "")


def env_of(c):
    return dict(kv.split("=", 1) for kv in c["env"].split(",")) if c.get("env") else {}


def cnt_of(c, cnt):
    """bp->cnt as `_allocbuf` computes it from the st_blksize the (scripted) file system reports: rounded UP to a
    multiple of BUFSIZ, BUFSIZ when it is 0 -- the write loop of `_sink` flushes only when `count == bp->cnt`, which is
    reached only by a multiple of BUFSIZ (Props/C12 `reader_in_bounds`, hypothesis `CntOk`)"""
    e = env_of(c)
    if "blk" not in e:
        return cnt
    b = int(e["blk"])
    return CNT_BY_BLK.get(b, ((b + pcp.BUFSIZ - 1) // pcp.BUFSIZ) * pcp.BUFSIZ or pcp.BUFSIZ)   # Pcp/Allocbuf.lean `allocSize` (`pdshmodel pcp cnt N`), filled in by run()


CNT_BY_BLK = {}


def model_line(c, ents, cnt, var):
    op, toks = "sink", []
    for e in ents:
        if e.kind != "l":
            toks.append(e.token())
        elif var.get("follow", 1):
            # the receiver follows links: the model runs on the link-free view (Pcp/Links.lean graftAll)
            op = "sinkl"
            toks.append("%s:l:777:%d:h%s" % (hx(e.path), e.mtime, link_target_canon(e.path, e.data).hex()))
        else:
            # lstat/O_NOFOLLOW: a link is something in the way -- of a directory record like a file, of a file record
            # like a directory
            toks.append(Ent(e.path, c.get("link_block", "f"), 0o777, e.mtime, b"").token())
    return "%s %d %d %o %d %d %d %d %s %s %s %s" % (op, c["p"], c["y"], c["um"], cnt_of(c, cnt), var["rule"], var["dch"],
                                                    c.get("fsz", 0), hx(CWD), hx(c["dest"]), hx(c["stream"]), " ".join(toks))


_CAND = re.compile(rb"[CD][0-7]{4} \d* ([^\n\0]*)")


def escape_signature(stream, c=None, escaped=None):
    """narrow class of the D13 finding: the stream contains a control record whose name has a `/` or is `..`;
    of F12-SYMLINK-FOLLOW: every received name is plain, a symbolic link was waiting inside the destination, one of the
    received names IS that link's name, and (when the escaped paths are known) every one of them is the link's target
    or lies beneath it -- an escape anywhere else, also in a case with links, is `escape:other`"""
    names = [m.group(1) for m in _CAND.finditer(stream)]
    for n in names:
        if pcp.hostile_name(n):
            return "escape:received-name-with-slash-or-dotdot"
    if c is not None and c.get("links"):
        met = [link_target_canon(path, target) for path, target in c["links"] if path.rsplit(b"/", 1)[-1] in names]
        if met and (escaped is None or all(any(t == b"" or e == t or e.startswith(t + b"/") for t in met) for e in escaped)):
            return "escape:through-symlink-inside-destination"
    return "escape:other"


def link_entries(c):
    """symbolic links that exist inside the destination before the copy (case field `links`: (path, target))"""
    return [Ent(path, "l", 0o777, OLD + 40 + i, target) for i, (path, target) in enumerate(c.get("links") or [])]


def link_target_canon(path, target):
    """canonical path (relative to the jail root) of a link's target"""
    return pcp.lexnorm(path.rsplit(b"/", 1)[0] if b"/" in path else b"", target)


def case_json(c):
    if c.get("links"):
        return dict(_case_json(c), links=[[a.decode("latin-1"), b.decode("latin-1")] for a, b in c["links"]],
                    oracle_only=bool(c.get("oracle_only")), link_block=c.get("link_block", "f"))
    if c.get("env"):
        return dict(_case_json(c), environment=c["env"], oracle_only=bool(c.get("oracle_only")),
                    files_hex=[[n.decode("latin-1"), sz, d.hex()] for n, sz, d in c["files"]] if c.get("files") else None)
    return _case_json(c)


def _case_json(c):
    return dict(stream_hex=c["stream"].hex(), stream_text=c["stream"][:200].decode("latin-1"),
                dest=c["dest"].decode("latin-1"), cwd="/" + CWD.decode(), preserve=c["p"], target_is_dir=c["y"],
                umask="%o" % c["um"], fdmode=c["fd"], prepopulated=c["prepop"], destmode="%o" % c["destmode"],
                file_size_limit=c.get("fsz", 0), bigold=c.get("bigold", False),
                files=[[n.decode("latin-1"), sz] for n, sz, _ in c["files"]] if c.get("files") else None)


def run_cases(ctx, exe, cases, cnt, var, cov, dist, distinct, tag="pcp_server()"):
    """in-process variant: real pcp_server() in a chroot'ed child of the sanitizer harness"""
    base = os.path.join(ctx.scratch, "jails")
    shutil.rmtree(base, ignore_errors=True)
    os.makedirs(base)
    jails, ents_l = [], []
    for k, c in enumerate(cases):
        ents = jail_entries(c["prepop"], c["destmode"], c.get("bigold", False)) + link_entries(c)
        j = os.path.join(base, "j%d" % k)
        pcp.build_jail(j, ents)
        jails.append(j)
        ents_l.append(ents)
    t0 = int(time.time())
    ctx.log("%d jails built" % len(cases))
    env = dict(os.environ, ASAN_OPTIONS="detect_leaks=0")
    impl = pcp.par_batch([exe], [[op_line(j, c)] for j, c in zip(jails, cases)], timeout=1800, env=env)

    def rerun(idx):
        for k in idx:
            shutil.rmtree(jails[k], ignore_errors=True)
            pcp.build_jail(jails[k], ents_l[k])
        return run_batch([exe], [[op_line(jails[k], cases[k])] for k in idx], timeout=1800, env=env)

    def sig_of(a):
        return pcp.fields(a[0][0]).get("sig") if a[0] else None
    nre = pcp.retry_timeouts(impl, lambda a: sig_of(a) in ("998", "999"), lambda a: sig_of(a) == "997", rerun)
    if nre:
        dist["timeouts_retried"] = dist.get("timeouts_retried", 0) + nre
    ctx.log("real receiver runs done")
    mlines = pcp.par_model(ctx, "pcp", [model_line(c, e, cnt, var) for c, e in zip(cases, ents_l)])
    ctx.log("model runs done")
    judge(ctx, cases, jails, ents_l, [a[0] if a else "" for a, _ in impl], [cr for _, cr in impl], mlines, t0,
          cov, dist, distinct, tag, shrinker=lambda c, sig: shrink(ctx, exe, c, sig))
    pcp.rm_bg(base)


def fault_oracle(c, replies, snap):
    """write faults: every file that fits the limit is received intact whatever happened to the others, and a file
    that does not fit is reported.  Only for the structured fault cases (`files` known, names unique, dest a dir)."""
    out = []
    if not c.get("files") or not c.get("fsz"):
        return out
    last = {}
    for nm, n, data in c["files"]:
        last[nm] = (n, data)
    over = sum(1 for nm, n, data in c["files"] if n > c["fsz"])
    for nm, (n, data) in last.items():
        r = snap.get(b"o/w/dest/" + nm)
        if n <= c["fsz"] and (r is None or r["kind"] != "f" or r["data"] != data):
            out.append(("write-fault:other-file-damaged", "after a write error on another file, %r (%d bytes, fits the "
                        "limit of %d) was not received intact" % (nm, n, c["fsz"])))
            break
    if over and sum(1 for r in replies if r.startswith("E:")) < over:
        out.append(("write-fault:unreported", "%d file(s) exceed the file size limit of %d bytes but only %d error "
                    "record(s) were sent" % (over, c["fsz"], sum(1 for r in replies if r.startswith("E:")))))
    return out


def oracle_only(c, f, snap, ents, t0):
    """the oracles that need no model (used for shrinking): set of signatures"""
    sigs = set()
    if "rc" not in f:
        return sigs
    if f["rc"] != "0" or f["sig"] != "0" or f["san"] != "0":
        sigs.add("timeout" if f["sig"] in ("998", "999") else "crash")
        return sigs
    replies = pcp.canon_replies(pcp.unhx(f["replies"]))
    dcanon = pcp.lexnorm(CWD, c["dest"])
    ch = pcp.changed_paths({e.path: e for e in ents}, snap, t0)
    if any(not (dcanon == b"" or q == dcanon or q.startswith(dcanon + b"/")) for q in ch):
        sigs.add(escape_signature(c["stream"], c))
    wf, _ = pcp.analyse(c["stream"])
    if not wf and not any(r.startswith("E:") for r in replies):
        sigs.add("malformed-unanswered")
    for sig, _ in fault_oracle(c, replies, snap):
        sigs.add(sig)
    return sigs


def shrink(ctx, exe, c, sig):
    """ddmin over the lines of the stream (capped): a smaller stream with the same oracle signature"""
    ctx.nshrunk = getattr(ctx, "nshrunk", 0) + 1
    if ctx.nshrunk > 3 or c.get("files"):
        return c
    from vlib.seqrun import ddmin
    pieces = c["stream"].split(b"\n")
    pieces = [x + b"\n" for x in pieces[:-1]] + ([pieces[-1]] if pieces[-1] else [])
    if len(pieces) < 2:
        return c
    j = os.path.join(ctx.scratch, "shrink_jail")

    def fails(ps):
        c2 = dict(c, stream=b"".join(ps))
        shutil.rmtree(j, ignore_errors=True)
        ents = jail_entries(c2["prepop"], c2["destmode"], c2.get("bigold", False)) + link_entries(c2)
        pcp.build_jail(j, ents)
        t0 = int(time.time())
        (ans, crash), = run_batch([exe], [[op_line(j, c2)]], timeout=60, env=dict(os.environ, ASAN_OPTIONS="detect_leaks=0"))
        if crash is not None or not ans:
            return False
        return sig in oracle_only(c2, pcp.fields(ans[0]), pcp.snapshot(j), ents, t0)
    try:
        small = ddmin(pieces, fails, keep_head=0, max_tests=60)
    except Exception:
        return c
    finally:
        shutil.rmtree(j, ignore_errors=True)
    return dict(c, stream=b"".join(small))


def judge(ctx, cases, jails, ents_l, answers, crashes, mlines, t0, cov, dist, distinct, tag, root_rel=b"",
          shrinker=None):
    def small(c, sig):
        """replay case: shrunk when that is cheap"""
        if shrinker is None or sig in getattr(ctx, "shrunk_sigs", set()):
            return case_json(c)
        ctx.shrunk_sigs = getattr(ctx, "shrunk_sigs", set()) | {sig}
        if any(fd["property"] == ctx.prop and fd.get("status") == "open" and re.fullmatch(fd["signature"], sig)
               for fd in ctx.findings.get("findings", [])):
            return case_json(c)
        cj2 = case_json(shrinker(c, sig))
        cj2["shrunk_from_bytes"] = len(c["stream"])
        return cj2

    spec_lines, spec_idx, changed_l = [], [], []
    snaps = []
    for k, c in enumerate(cases):
        snap = pcp.snapshot(jails[k])
        snaps.append(snap)
        before = {e.path: e for e in ents_l[k]}
        ch = pcp.changed_paths(before, snap, t0)
        changed_l.append(ch)
        dcanon = pcp.lexnorm(CWD, c["dest"])
        spec_lines.append("spec12 %s %s" % (hx(dcanon), " ".join(hx(p) for p in ch)))
        spec_lines.append("norm %s %s" % (hx(CWD), hx(c["dest"])))
    slines = pcp.par_model(ctx, "pcp", spec_lines)
    ctx.log("snapshots taken, specification evaluated (%s)" % tag)
    for k, c in enumerate(cases):
        cov["evaluations"] += 1
        f = pcp.fields(answers[k])
        cj = case_json(c)
        cj["receiver"] = tag
        wf, names = pcp.analyse(c["stream"])
        key = (c["stream"], c["dest"], c["p"], c["y"], c["um"])
        if names and key not in distinct:
            distinct.add(key)
        if f.get("sig") == "997":
            dist["skipped_after_timeouts"] = dist.get("skipped_after_timeouts", 0) + 1
            cov["evaluations"] -= 1
            continue
        if crashes[k] is not None or "rc" not in f:
            ctx.disagreement("pcp harness", "harness failed on a case: %s %s" % (answers[k][:200], str(crashes[k])[-300:]), cj)
            continue
        if f["rc"] == "97":
            ctx.disagreement("pcp harness", "chroot/chdir failed: " + pcp.unhx(f["err"]).decode("latin-1")[-200:], cj)
            continue
        raw = pcp.unhx(f["replies"])
        replies = pcp.canon_replies(raw)
        cj["replies_real"] = replies[:40]
        for r in replies:
            dist["reply_classes"][r] = dist["reply_classes"].get(r, 0) + 1
        # ---- oracle: no crash / sanitizer report / hang
        if f["rc"] != "0" or f["sig"] != "0" or f["san"] != "0":
            dist["crash"] += 1
            sig = "timeout" if f["sig"] in ("998", "999") else "crash"
            ctx.offender(sig, "the receiver %s (rc=%s sig=%s sanitizer=%s): %s" %
                         ("hangs" if sig == "timeout" else "crashes", f["rc"], f["sig"], f["san"],
                          pcp.unhx(f["err"]).decode("latin-1")[:300]), dict(small(c, sig), receiver=tag))
            continue
        # ---- oracle: confinement (spec12 on the real changed paths)
        sp, nm = slines[2 * k], slines[2 * k + 1]
        dcanon = pcp.lexnorm(CWD, c["dest"])
        if nm != hx(dcanon):
            ctx.disagreement("lexNorm vs python lexnorm", "dest %r: model %s python %s" % (c["dest"], nm, hx(dcanon)), cj)
        if sp.startswith("escape"):
            dist["escapes"] += 1
            esc = [pcp.unhx(x).decode("latin-1") for x in sp.split()[1].split(",")]
            cj["escaped_paths"] = esc[:10]
            cj["destination_canonical"] = "/" + dcanon.decode("latin-1")
            esig = escape_signature(c["stream"], c, [pcp.unhx(x) for x in sp.split()[1].split(",")])
            ctx.offender(esig, "the receiver created or modified %s outside its destination /%s" %
                         (", ".join("/" + e for e in esc[:4]), dcanon.decode("latin-1")),
                         dict(small(c, esig), receiver=tag, escaped_paths=esc[:10],
                              destination_canonical="/" + dcanon.decode("latin-1")))
        elif sp != "ok":
            ctx.disagreement("spec12", "unexpected answer " + sp[:200], cj)
        # ---- oracle: malformed input is answered with an error record
        if not wf:
            dist["malformed"] += 1
            if not any(r.startswith("E:") for r in replies):
                ctx.offender("malformed-unanswered", "a stream violating the record grammar got no error record "
                             "(replies %s)" % ",".join(replies[:20]), dict(small(c, "malformed-unanswered"), receiver=tag))
        # ---- oracle: write faults are reported and do not damage the files that follow
        if c.get("fsz"):
            dist["write_fault_cases"] = dist.get("write_fault_cases", 0) + 1
            for fsig, fwhat in fault_oracle(c, replies, snaps[k]):
                ctx.offender(fsig, fwhat, cj)
        # an interrupted read may END the copy (the receiver of the code as found treats any failed read as the end of its
        # input: the sender then misses a reply and knows), it must not be PAPERED OVER: when every record and every file
        # was acknowledged and no error record sent, every file must be what was sent
        if c.get("env") and c.get("oracle_only") and c.get("files") and not any(r.startswith("E:") for r in replies) \
                and len(replies) >= 1 + 2 * len(c["files"]):
            for nm, n, data in c["files"]:
                r = snaps[k].get(b"o/w/dest/" + nm)
                if r is None or r["kind"] != "f" or r["data"] != data:
                    ctx.offender("syscall-fault:silent-damage", "a system call of the receiver failed or was cut short (%s); "
                                 "everything was acknowledged, no error record was sent, yet %r is not what was sent" %
                                 (c["env"], nm), cj)
                    break
        if any(not (r == "A" or r.startswith("E:")) for r in replies) or "E:unterminated" in replies:
            ctx.offender("reply-garbled", "the reply stream is not a sequence of acknowledgements and error records: %s"
                         % ",".join(replies[:20]), cj)
        # ---- correspondence: model vs implementation
        if c.get("oracle_only"):
            dist["oracle_only_cases"] = dist.get("oracle_only_cases", 0) + 1
            continue
        try:
            m = pcp.parse_model(mlines[k])
        except Exception as e:
            ctx.disagreement("pcp model", "unparsable model answer: %s" % e, cj)
            continue
        if m["ub"] != "0":
            ctx.disagreement("pcp model ub", "the model left a buffer (ub=1) on a stream the implementation survived", cj)
        if m["replies"] != replies:
            i = next((i for i in range(min(len(replies), len(m["replies"]))) if replies[i] != m["replies"][i]),
                     min(len(replies), len(m["replies"])))
            ctx.disagreement("pcp sink replies (%s)" % tag,
                             "reply %d: impl %s model %s" % (i, replies[i:i + 3], m["replies"][i:i + 3]), cj)
            dist["model_mismatch"] += 1
            continue
        snap_m = snaps[k]
        if c.get("links"):
            # the links themselves are not nodes of the model's file system (a receiver cannot change them: `changed`)
            dist["link_cases"] = dist.get("link_cases", 0) + 1
            lp = set(path for path, _ in c["links"])
            snap_m = {q: r for q, r in snaps[k].items() if not (q in lp and r["kind"] == "l")}
            m["fs"] = {q: r for q, r in m["fs"].items() if q not in lp}
        diffs = pcp.compare_fs(m["fs"], snap_m, t0)
        if diffs:
            dist["model_mismatch"] += 1
            ctx.disagreement("pcp sink file system (%s)" % tag, "; ".join(diffs[:4]), cj)
            continue
        mt = set(m["touched"])
        if not set(changed_l[k]) <= mt | {p.rsplit(b"/", 1)[0] if b"/" in p else b"" for p in mt}:
            ctx.disagreement("pcp sink touched (%s)" % tag, "changed in reality but not touched in the model: %r" %
                             sorted(set(changed_l[k]) - mt)[:4], cj)
        if len(cov["samples"]) < 4 and names and len(c["stream"]) < 60 and (sp != "ok" or len(cov["samples"]) < 2):
            cov["samples"].append(dict(case=cj, spec=sp, model_replies=m["replies"]))


def probe_variant(ctx, exe):
    """which receiver is in /repo?  Probed, never configured:
    rule 0 = no name validation (code as found), 1 = names with `/` and the name `..` rejected, 2 = scp rule (also
    the empty name and `.`); dch = with -p a new directory is chmod'ed after mkdir (repair of F11-DIRMODE-SETID)"""
    def one(stream, p=0, links=None):
        j = os.path.join(ctx.scratch, "probe_jail")
        shutil.rmtree(j, ignore_errors=True)
        c = C(stream, prepop=False, p=p, links=links)
        pcp.build_jail(j, jail_entries(False, 0o755) + link_entries(c))
        (ans, crash), = run_batch([exe], [[op_line(j, c)]], env=dict(os.environ, ASAN_OPTIONS="detect_leaks=0"))
        snap = pcp.snapshot(j)
        shutil.rmtree(j, ignore_errors=True)
        f = pcp.fields(ans[0]) if ans else {}
        return pcp.canon_replies(pcp.unhx(f.get("replies", "-"))), snap
    _, snap = one(b"C0644 0 ../pdshverif_probe\n\0")
    if b"o/w/pdshverif_probe" in snap:
        rule = 0
    else:
        r1, _ = one(b"C0644 0 \n\0")
        r2, _ = one(b"D0755 0 .\nE\n")
        rej = [any("badName" in x for x in r) for r in (r1, r2)]
        rule = 2 if any(rej) else 1
    _, snap = one(b"D6755 0 pd\nE\n", p=1)
    dch = int(snap.get(b"o/w/dest/pd", {}).get("mode") == 0o6755)
    # does the receiver follow a symbolic link that is already inside the destination?
    _, snap = one(b"D0755 0 ln\nC0644 1 pdshverif_probe\nX\0E\n", links=[(b"o/w/dest/ln", b"../vdir")])
    follow = int(b"o/w/vdir/pdshverif_probe" in snap)
    return dict(rule=rule, dch=dch, follow=follow)


def probe_cnt(ctx, exe, fallback):
    """bp->cnt, the size of the receiver's write-coalescing buffer, measured on the real receiver: a file announced
    with N+1 bytes of which only N arrive -- what has reached the disk when the input ends is the largest multiple of
    bp->cnt below N.  (Not computed from st_blksize with a copy of _allocbuf's formula: a maintainer may change it.)"""
    sizes = {}
    for n in (2 ** 20 - 1, 3 * 2 ** 18 - 1):
        j = os.path.join(ctx.scratch, "probe_jail")
        shutil.rmtree(j, ignore_errors=True)
        pcp.build_jail(j, jail_entries(False, 0o755))
        c = C(b"C0644 %d pdshverif_cnt\n" % (n + 1) + b"x" * n, prepop=False)
        run_batch([exe], [[op_line(j, c)]], env=dict(os.environ, ASAN_OPTIONS="detect_leaks=0"))
        try:
            sizes[n] = os.path.getsize(os.path.join(j, "o/w/dest/pdshverif_cnt"))
        except OSError:
            sizes[n] = None
        shutil.rmtree(j, ignore_errors=True)
    cands = [c_ for c_ in range(pcp.BUFSIZ, 2 ** 20 + 1, pcp.BUFSIZ)
             if all(w is not None and (n // c_) * c_ == w for n, w in sizes.items())]
    return cands[0] if cands else fallback


def variant_text(var):
    return "names: %s; chmod after mkdir with -p: %s; symbolic links inside the destination: %s" % (
        ["no validation (code as found)", "`/` and `..` rejected", "scp rule"][var["rule"]], "yes" if var["dch"] else "no",
        "followed (code as found)" if var.get("follow", 1) else "refused (lstat/O_NOFOLLOW)")


def child_setup(um, fsz):
    import resource
    import signal
    os.umask(um)
    if fsz:
        signal.signal(signal.SIGXFSZ, signal.SIG_IGN)
        resource.setrlimit(resource.RLIMIT_FSIZE, (fsz, fsz))


def run_binary(ctx, cases, cnt, var, cov, dist, distinct):
    """the scratch-built `pdcp -z DEST` reading stdin (shipped flags, main.c:_pcp_remote_server); no chroot here, so
    only streams with at most two `..` are used and the working directory is three levels inside the case dir"""
    repo = ctx.repo_build()
    if not repo:
        return
    bindir = os.path.join(ctx.scratch, "bin")
    os.makedirs(bindir, exist_ok=True)
    pdcp_bin = os.path.join(bindir, "pdcp")
    if not os.path.exists(pdcp_bin):
        os.symlink(os.path.join(repo, "src/pdsh/pdsh"), pdcp_bin)
    base = os.path.join(ctx.scratch, "bjails")
    shutil.rmtree(base, ignore_errors=True)
    os.makedirs(base)
    use = [c for c in cases if c["stream"].count(b"..") <= 2 and c["dest"][:1] != b"/" and c["dest"].count(b"..") == 0]
    jails, ents_l, answers, crashes = [], [], [], []
    t0 = int(time.time())
    hangs = 0
    for k, c in enumerate(use):
        ents = jail_entries(c["prepop"], c["destmode"], c.get("bigold", False))
        j = os.path.join(base, "j%d" % k)
        pcp.build_jail(j, ents)
        jails.append(j)
        ents_l.append(ents)
        args = [pdcp_bin] + (["-p"] if c["p"] else []) + (["-y"] if c["y"] else []) + ["-z", os.fsdecode(c["dest"])]
        if c["dest"] == b"":
            args = None
        crashes.append(None)
        if args is None or hangs >= 2:
            answers.append(None)
            continue
        for attempt in (0, 1):
            # a time-out alone is re-tried once (fresh jail) before it is reported
            try:
                p = subprocess.run(args, input=c["stream"], stdout=subprocess.PIPE, stderr=subprocess.PIPE, timeout=30,
                                   cwd=os.path.join(j, CWD.decode()),
                                   preexec_fn=lambda um=c["um"], fsz=c.get("fsz", 0): child_setup(um, fsz))
                answers.append("rc=%d sig=%d san=0 replies=%s err=%s" % (max(p.returncode, 0), max(-p.returncode, 0),
                                                                        hx(p.stdout), hx(p.stderr[-300:])))
                break
            except subprocess.TimeoutExpired:
                if attempt == 0 and hangs == 0:
                    dist["timeouts_retried"] = dist.get("timeouts_retried", 0) + 1
                    shutil.rmtree(j, ignore_errors=True)
                    pcp.build_jail(j, ents)
                    continue
                hangs += 1
                answers.append("rc=-1 sig=998 san=0 replies=- err=-")
                break
    keep = [i for i, a in enumerate(answers) if a is not None]
    use, jails, ents_l, answers, crashes = ([x[i] for i in keep] for x in (use, jails, ents_l, answers, crashes))
    mlines = pcp.par_model(ctx, "pcp", [model_line(c, e, cnt, var) for c, e in zip(use, ents_l)])
    dist["binary_cases"] = dist.get("binary_cases", 0) + len(use)
    judge(ctx, use, jails, ents_l, answers, crashes, mlines, t0, cov, dist, distinct, "pdcp -z (scratch build)")
    shutil.rmtree(base, ignore_errors=True)


def run(ctx):
    rng = ctx.rng
    pcp.BRANCHES.clear()
    ctx.gen_consts(["pcp"])
    ctx.lean_build([PROPS, "pdshmodel"])
    ctx.audit(PROPS)
    pcp.BUFSIZ = read_const("PCP_BUFSIZ")
    exe = os.path.join(ctx.scratch, "pcp_h")
    ok = ctx.cc(exe, [os.path.join(HARNESS, "pcp_harness.c")], flags=SAN_FLAGS, san=True, assertions=True)
    cov = {"evaluations": 0, "distinct_nontrivial": 0, "samples": [],
           "rule": "byte streams for the receiver: record sequences (T/D/C/E, peer error records) nested up to depth 4 "
                   "with benign and hostile names (`..`, `../x`, `a/../../x`, absolute, trailing slash, empty, NUL "
                   "inside, 255/256/4000/8200 bytes), sizes (0..3*BUFSIZ+1, mismatching the data, 20 digits), modes "
                   "(all 12 bits, malformed), times (usec out of range, overflow), bad response bytes, then truncation/"
                   "byte flip/deletion/insertion, plus pure garbage; destination given as dir, dir/, absolute, "
                   "subdir, existing file, missing name; -p/-y/umask/socket-or-pipes varied; about 10% of the cases run "
                   "the receiver under a file size limit (write faults in the middle of multi-block files, followed by "
                   "files that fit); symbolic links that already exist inside the destination (to a directory, a file, "
                   "nothing, an ancestor; relative and absolute) met by plain received names; a fixed systematic part in every "
                   "run (see `systematic`, `env_cases`: scripted st_blksize, fragmented/short/interrupted reads, interrupted/"
                   "short writes, failing open/fstat at every call index; every name that leads or nearly leads out of DEST x -y on/off "
                   "x -p on/off x DEST existing directory / directory with slash / existing file / missing); jail around the "
                   "destination holds victim files/dirs.  non-trivial = the stream starts with >= 1 syntactically "
                   "valid control record; distinct = distinct (stream, dest, options)"}
    dist = {"reply_classes": {}, "escapes": 0, "malformed": 0, "crash": 0, "model_mismatch": 0}
    distinct = set()
    if ok:
        blk = int(subprocess.run([exe, "--blksize", ctx.scratch], stdout=subprocess.PIPE).stdout.decode().strip() or 0)
        cnt = probe_cnt(ctx, exe, ((blk + pcp.BUFSIZ - 1) // pcp.BUFSIZ) * pcp.BUFSIZ or pcp.BUFSIZ)
        var = probe_variant(ctx, exe)
        dist["receiver_variant"] = variant_text(var)
        dist["bp_cnt"] = cnt
        ctx.log("receiver variant:", dist["receiver_variant"], "bp->cnt =", cnt)
        n = 1000 if ctx.quick() else 40000
        sysc = systematic()
        dist["systematic_cases"] = len(sysc)
        lc = link_cases()
        dist["symlink_cases_pinned"] = len(lc)
        ec = env_cases()
        blks = sorted(set(int(env_of(c)["blk"]) for c in ec if "blk" in env_of(c)))
        for b, a in zip(blks, ctx.model("pcp", "".join("cnt %d\n" % b for b in blks))):
            CNT_BY_BLK[b] = int(a)
        dist["bp_cnt_by_st_blksize"] = {str(b): CNT_BY_BLK[b] for b in blks}
        dist["environment_cases_pinned"] = len(ec)
        cases = list(CORPUS) + sysc + lc + ec
        if ctx.replay:
            import json
            rc = json.load(open(ctx.replay)).get("case", {})
            if "stream_hex" in rc:
                cases.insert(0, C(bytes.fromhex(rc["stream_hex"]), dest=rc["dest"].encode("latin-1"),
                                  p=rc["preserve"], y=rc["target_is_dir"], um=int(rc["umask"], 8), fd=rc["fdmode"],
                                  prepop=rc["prepopulated"], destmode=int(rc["destmode"], 8),
                                  fsz=rc.get("file_size_limit", 0), bigold=rc.get("bigold", False),
                                  links=[(a.encode("latin-1"), b.encode("latin-1")) for a, b in rc["links"]] if rc.get("links") else None,
                                  oracle_only=rc.get("oracle_only", False), link_block=rc.get("link_block", "f"),
                                  env=rc.get("environment"),
                                  files=[(a.encode("latin-1"), n, bytes.fromhex(h)) for a, n, h in rc["files_hex"]]
                                  if rc.get("files_hex") else None))
        cases += [gen_case(rng) for _ in range(n)]
        import random
        rng2 = random.Random(ctx.seed * 7919 + 12)       # own stream: the cases above stay what they were
        cases += [gen_deep(rng2) for _ in range(40 if ctx.quick() else 1000)]
        cases += [gen_near(rng2) for _ in range(60 if ctx.quick() else 2000)]
        for i in range(0, len(cases), 4000):
            run_cases(ctx, exe, cases[i:i + 4000], cnt, var, cov, dist, distinct)
        nb = 60 if ctx.quick() else 1500
        if os.environ.get("VERIF_C12_BINARY", "1") != "0":
            run_binary(ctx, CORPUS + [gen_case(rng) for _ in range(nb)], cnt, var, cov, dist, distinct)
    cov["distinct_nontrivial"] = len(distinct)
    pcp.branch_report(dist)
    cov["distribution"] = dist
    cov["traces_validated_against_impl"] = cov["evaluations"]
    return ctx.finish(
        LEVEL, cov,
        assumptions=["symbolic links: those that already exist INSIDE the destination are part of the check (pinned cases; the "
                     "receiver as found follows them: finding F12-SYMLINK-FOLLOW; model by translation, Pcp/Links.lean, for "
                     "links to existing files/directories outside the destination; dangling links and links to an ancestor of "
                     "the destination: oracle only); the destination the user gives is itself not a link",
                     "the receiver runs as root: permission checks never fail; I/O errors only as injected write faults "
                     "(RLIMIT_FSIZE with SIGXFSZ ignored: short write / EFBIG, ftruncate EFBIG)",
                     "Linux path resolution, mkdir/open(O_CREAT)/chmod/utimes/ftruncate semantics as in Pcp/FS.lean",
                     "nothing else modifies the file system during the copy",
                     "st_blksize of the destination file system: any value (Pcp/Allocbuf.lean; scripted 0..1 MiB in every run); "
                     "system calls that fail or are cut short are outside the model (injected at every call index, oracle only)"],
        trusted_base=["Lean 4.33 kernel", "axioms: propext, Classical.choice, Quot.sound at most (audited per theorem)",
                      "hand-written receiver model Pcp/Sink.lean + file-system model Pcp/FS.lean tied to pcp_server.c and "
                      "the kernel by differential execution", "Gen/Pcp.lean regenerated from /repo (BUFSIZ, NAME_MAX, "
                      "PATH_MAX, type widths)", "harness/pcp_harness.c, vlib/pcp.py (snapshots, reply classes, record "
                      "grammar of the oracle), gcc -fwrapv, ASan/UBSan, chroot"],
        checker_cmd="lake build PdshVerif.Props.C12 && #print axioms on every theorem of Props/C12.lean")
