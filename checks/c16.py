"""C16  Host-list editing behaves like editing a plain list of names.

proof:          lean/PdshVerif/Props/C16.lean (delete by position = eraseIdx on the denoted hosts, shift/pop/push
                laws, find = first position under `Small`, uniq loses no name, iterator laws; witnesses for the
                recorded defects)
correspondence: real src/common/hostlist.c (harness/hl_harness.c: assertions + ASan/UBSan, stateful op histories
                with live iterators) vs `pdshmodel hl edit` (range records with identity, cached iterator pointers)
oracle:         the same histories vs `pdshmodel hl plspec` (Hostlist/EditSpec.lean: plain ordered list of names +
                one cursor per iterator; the order after uniq/sort is taken from the implementation and only
                checked for admissibility)
"""
import itertools
import json
import os
import re

from vlib.hostlist import HL, hx, unhx, names_field, VERIF_CORPUS
from vlib.seqrun import run_batch, ddmin

LEVEL = "proof"
PROPS = "PdshVerif.Props.C16"
MANIFEST = dict(
    engine="hl",
    technique="Lean 4 proof about the executable model of the editable host list (range records with identity, "
              "iterators with cached record pointers, delete-by-position with range split, find with the digit-prefix "
              "recursion, uniq by sort and join) + differential correspondence of the real hostlist.c on stateful op "
              "histories against the compiled model + plain-list oracle",
    text="Theorems in lean/PdshVerif/Props/C16.lean about the model in lean/PdshVerif/Hostlist/{Find,Edit,Uniq}.lean; "
         "the model is executed against the real hostlist.c (harness/hl_harness.c, assertions+ASan/UBSan) on generated "
         "op histories (push/shift/pop/find/delete/delete_host/delete_nth/nth/count/uniq/sort and iterators created at "
         "arbitrary points and kept across mutations); every history is also run through the plain-list specification "
         "(ordered list of names + one cursor per iterator), which yields the failing history (ddmin-shrunk) as replay.",
    design_ref="DESIGN.md section 5 C16",
    note="Lean 4.33 kernel; axioms propext/Classical.choice/Quot.sound at most (audited per theorem every run); "
         "hand-written model tied to hostlist.c by differential execution of the real source built from /repo's "
         "working tree plus constants and behavioural probes regenerated from /repo (defect switches D19/D20/D24 "
         "probed); qsort modelled as a stable sort by the comparator (order after uniq/sort compared as the "
         "implementation's choice); hostlist_sort incl. hostlist_coalesce / hostlist_collapse is in the model (repaired hostrange_intersect) and compared record by record; "
         "harness, generators, gcc, ASan/UBSan trusted")

NAME_OPS = ("push", "find", "delete", "delete_host")


def enc(op):
    w = op.split(" ", 1)
    if w[0] in NAME_OPS and len(w) > 1:
        return w[0] + " " + hx(w[1].encode("latin1"))
    return op


def dec_ans(a):
    try:
        if re.fullmatch(r"([0-9a-f]{2})+", a):
            return bytes.fromhex(a).decode("latin1")
        if re.fullmatch(r"\d+\+?:.*", a):
            k, _, names = names_field(a)
            return "%d:%s" % (k, ",".join(n.decode("latin1") for n in names))
    except Exception:
        pass
    return a


# ------------------------------------------------------------------ generation (guide = plain list, never a verdict)
PREFIXES = ["a", "a", "foo", "n0", "x9", "", "b"]


class Guide:
    def __init__(self):
        self.names = []
        self.cur = {}            # slot -> cursor
        self.removable = {}      # slot -> True when it_remove is meaningful (last it_next gave a host, nothing moved since)

    def delpos(self, p):
        del self.names[p]
        for k in self.cur:
            if self.cur[k] > p:
                self.cur[k] -= 1
        for k in self.removable:
            self.removable[k] = False


def gen_expr(rng, big=False):
    """small expression text + its hosts (plain Python expansion)"""
    words, hosts = [], []
    for _ in range(rng.choice([1, 1, 1, 2, 3])):
        pre = rng.choice(PREFIXES)
        r = rng.random()
        if r < 0.3:
            n = rng.choice([0, 1, 2, 3, 5, 9, 10, 11, 99, 100]) if not big else rng.choice([33554431, 33554432, 33554433, 33554440])
            w = rng.choice([0, 0, 1, 2])
            t = str(n).zfill(len(str(n)) + w)
            if rng.random() < 0.2:
                t = ""
            name = pre + t if pre + t else "h"
            words.append(name)
            hosts.append(name)
        else:
            rs, hs = [], []
            for _ in range(rng.choice([1, 1, 2, 3])):
                lo = rng.choice([0, 1, 2, 3, 4, 5, 8, 9, 10, 98, 99]) if not big else rng.choice([33554430, 33554431, 33554432])
                hi = lo + rng.choice([0, 0, 1, 2, 3, 5])
                # zero-padded widths, now and then beyond the 20 digits of an unsigned long (name buffers sized by width)
                w = len(str(lo)) + (rng.choice([0, 0, 0, 1, 2]) if rng.random() < 0.94 else rng.choice([19, 21, 24, 30]))
                los = str(lo).zfill(w)
                rs.append(los + ("-%d" % hi if hi > lo or rng.random() < 0.3 else ""))
                hs += [str(v).zfill(w) for v in range(lo, hi + 1)]
            suf = rng.choice(["", "", "", "", "x", "-ib"])
            words.append("%s[%s]%s" % (pre, ",".join(rs), suf))
            hosts += [pre + h + suf for h in hs]
    return rng.choice([",", ",", " "]).join(words), hosts


GAP_NUMBERS = [0, 1, 5, 9, 2147483646, 2147483647, 2147483648, 2147483653, 4294967294, 4294967296, 4294967301]


def gen_gap(rng):
    """same-prefix bracketed ranges whose low bounds lie 2^31 / 2^32 apart (hostrange_cmp returns the difference of
    two unsigned longs as int), then uniq (sometimes sort)"""
    pre = rng.choice(["x", "n0", "gap"])
    words, hosts = [], []
    for _ in range(rng.choice([2, 2, 3, 4])):
        lo = rng.choice(GAP_NUMBERS) + rng.choice([0, 0, 1, 2])
        hi = lo + rng.choice([0, 0, 1, 3, 5])
        p = pre if rng.random() < 0.85 else rng.choice(["x", "y"])
        words.append("%s[%d-%d]" % (p, lo, hi) if hi > lo or rng.random() < 0.5 else "%s[%d]" % (p, lo))
        hosts += ["%s%d" % (p, v) for v in range(lo, hi + 1)]
    ops = ["new"] + ["push " + w for w in words] if rng.random() < 0.3 else ["new", "push " + ",".join(words)]
    op = "uniq" if rng.random() < 0.85 else "sort"
    return ops + ["hosts 100000", op, "hosts 100000", "count"]


def variant(rng, name):
    """a name that is NOT in the list but differs from one only in zero padding / one character"""
    m = re.fullmatch(r"(.*?)(\d+)", name)
    r = rng.random()
    if m and r < 0.6:
        return m.group(1) + rng.choice(["0" + m.group(2), m.group(2).lstrip("0") or "0", str(int(m.group(2)) + 1)])
    return name + rng.choice(["x", "0", "1"]) if r < 0.8 else name[:-1] or "q"


def gen_template(rng):
    """short scripted histories around one iterator and ONE kind of mutation (each hits one recorded defect or none)"""
    pre = rng.choice(["a", "foo", "n0", "x"])
    lo = rng.choice([1, 8, 98])
    k = rng.choice([1, 2, 3])
    rng_word = "%s[%d-%d]" % (pre, lo, lo + k)
    single = rng.choice(["b", "mid", "c7x", "9q"])
    tail = rng.choice(["c", "z[1-2]", "d9", ""])
    t = rng.random()
    if t < 0.35:      # own removal of a host that is a record of its own, then go on
        words = [rng_word, single] + ([tail] if tail else [])
        steps = k + 2
        ops = ["new", "push " + ",".join(words), "it_new"] + ["it_next 0"] * steps + ["it_remove 0"] + ["it_next 0"] * 3
    elif t < 0.55:    # own removal inside / at the ends of a range
        steps = rng.randrange(1, k + 2)
        ops = ["new", "push " + rng_word + ("," + tail if tail else ""), "it_new"] + ["it_next 0"] * steps + ["it_remove 0"] + ["it_next 0"] * 3
    elif t < 0.8:     # pop of the host the iterator stands on, then push
        words = [rng_word, single]
        ops = ["new", "push " + ",".join(words), "it_new"] + ["it_next 0"] * (k + 2) + ["pop", "push " + rng.choice(["z", "z[1-2]", single + "1"]), "it_next 0", "it_next 0"]
    elif t < 0.9:     # delete by position / name in the record BEFORE the one the iterator stands in
        m = rng.randrange(0, k + 1)
        steps = k + 1 + rng.randrange(1, 3)
        dele = rng.choice(["delete_nth %d" % m, "delete_host %s%d" % (pre, lo + m)])
        ops = ["new", "push %s,w[1-3]" % rng_word, "it_new"] + ["it_next 0"] * steps + [dele] + ["it_next 0"] * 4
    else:             # pop / shift while the iterator is somewhere in the middle
        ops = ["new", "push " + rng_word + "," + single + ",w[1-2]", "it_new"] + ["it_next 0"] * rng.randrange(1, k + 3) + \
              [rng.choice(["pop", "shift"])] * rng.choice([1, 2]) + ["it_next 0"] * 4
    return ops + ["hosts 100000"]


def gen_tailjoin(rng):
    """an iterator driven to the end of the list and kept; the last record goes away (pop / own removal / delete by
    name or position), then a push CONTINUES the new last range (same prefix, lo = hi + 1, same width) so
    hostlist_push_range joins it; then the iterator goes on.  Also the mirror image at the front."""
    pre = rng.choice(["a", "foo", "n0", "x9"])
    lo = rng.choice([1, 4, 8, 97])
    k = rng.choice([0, 1, 2, 3])
    w = len(str(lo)) + rng.choice([0, 0, 1])
    word = "%s[%s-%s]" % (pre, str(lo).zfill(w), str(lo + k).zfill(w)) if k else pre + str(lo).zfill(w)
    last = rng.choice(["b", "mid", "c7", "z[1-1]"])
    lastname = "z1" if last.startswith("z[") else last
    if rng.random() < 0.2:          # at the front
        ops = ["new", "push %s,%s" % (last, word), "it_new"] + ["it_next 0"] * rng.choice([0, 1, 1]) + \
              [rng.choice(["shift", "delete_nth 0", "delete_host " + lastname])] + ["it_next 0"] * (k + 3)
        return ops + ["hosts 100000"]
    more = rng.choice([[], [], ["q5"]])
    ops = ["new", "push " + ",".join([word] + more + [last]), "it_new"]
    n = k + 1 + len(more) + 1
    ops += ["it_next 0"] * (n + rng.choice([0, 0, 0, 1]))
    gone = rng.choice(["pop", "pop", "it_remove 0", "delete_host " + lastname, "delete_nth %d" % (n - 1)])
    if gone == "it_remove 0" and len(ops) - 3 != n:
        gone = "pop"
    ops.append(gone)
    if more and rng.random() < 0.7:
        ops.append(rng.choice(["pop", "delete_host q5"]))
    nxt = lo + k + 1
    j = rng.choice([0, 1, 2])
    cont = "%s[%s-%s]" % (pre, str(nxt).zfill(w), str(nxt + j).zfill(w)) if j else pre + str(nxt).zfill(w)
    ops.append("push " + cont)
    ops += ["it_next 0"] * (j + 3)
    if rng.random() < 0.3:
        ops += ["push " + pre + str(nxt + j + 1).zfill(w), "it_next 0", "it_next 0"]
    return ops + ["hosts 100000"]


def gen_history(rng, nops, profile):
    """profile: which risky combinations the history may contain (keeps findings attributable)"""
    if profile in ("own", "pop", "delete") and rng.random() < 0.5:
        return gen_template(rng)
    if profile == "tailjoin":
        return gen_tailjoin(rng)
    if profile == "gap":
        return gen_gap(rng)
    g = Guide()
    ops = ["new"]
    e, hs = gen_expr(rng, big=(profile == "big"))
    ops.append("push " + e)
    g.names += hs
    for _ in range(nops):
        r = rng.random()
        live = list(g.cur)
        allow_mut = profile in ("free", "big") or not live         # mutations other than the iterator's own
        if r < 0.14:
            e, hs = gen_expr(rng, big=(profile == "big" and rng.random() < 0.5))
            at_end = any(c == len(g.names) for c in g.cur.values())
            if at_end and profile not in ("free", "endpush"):
                continue
            ops.append("push " + e)
            g.names += hs
            for k in g.removable:
                g.removable[k] = False
        elif r < 0.20 and allow_mut | (profile == "shift"):
            ops.append("shift")
            if g.names:
                g.delpos(0)
        elif r < 0.26 and (allow_mut or profile == "pop"):
            ops.append("pop")
            if g.names:
                g.delpos(len(g.names) - 1)
        elif r < 0.36:
            x = rng.choice(g.names) if g.names and rng.random() < 0.7 else variant(rng, rng.choice(g.names or ["a1"]))
            ops.append("find " + x)
        elif r < 0.42 and (allow_mut or profile == "delete"):
            x = rng.choice(g.names) if g.names and rng.random() < 0.75 else variant(rng, rng.choice(g.names or ["a1"]))
            ops.append("delete_host " + x)
            if x in g.names:
                g.delpos(g.names.index(x))
        elif r < 0.46 and (allow_mut or profile == "delete"):
            e, hs = gen_expr(rng)
            if g.names and rng.random() < 0.6:
                e = ",".join(rng.sample(g.names, min(len(g.names), rng.choice([1, 2, 3]))))
                hs = e.split(",")
            ops.append("delete " + e)
            for x in hs:
                if x in g.names:
                    g.delpos(g.names.index(x))
        elif r < 0.52 and g.names and (allow_mut or profile == "delete"):
            n = rng.randrange(len(g.names))
            ops.append("delete_nth %d" % n)
            g.delpos(n)
        elif r < 0.57:
            if rng.random() < 0.04 and not g.cur:
                k = rng.choice([70, 77, 78, 79, 80, 90])
                ops.append("push " + "p" * k + "[1-2]")
                g.names += ["p" * k + "1", "p" * k + "2"]
                ops.append("nth %d" % (len(g.names) - 1))
            else:
                ops.append("nth %d" % rng.choice([0, len(g.names) - 1, len(g.names), rng.randrange(0, len(g.names) + 1)] if g.names else [0]))
        elif r < 0.60:
            ops.append("count")
        elif r < 0.66 and len(g.cur) < (3 if profile in ("free", "multi") else 1):
            k = min(set(range(16)) - set(g.cur))
            ops.append("it_new")
            g.cur[k] = 0
            g.removable[k] = False
        elif r < 0.84 and live:
            k = rng.choice(live)
            ops.append("it_next %d" % k)
            if g.cur[k] < len(g.names):
                g.cur[k] += 1
                g.removable[k] = True
            else:
                g.removable[k] = False
        elif r < 0.91 and live:
            ks = [k for k in live if g.removable.get(k)]
            if not ks:
                continue
            k = rng.choice(ks)
            ops.append("it_remove %d" % k)
            g.delpos(g.cur[k] - 1)     # moves every cursor behind the deleted position, this one included
        elif r < 0.93 and live:
            k = rng.choice(live)
            ops.append("it_reset %d" % k)
            g.cur[k] = 0
            g.removable[k] = False
        elif r < 0.95 and live:
            k = rng.choice(live)
            ops.append("it_free %d" % k)
            del g.cur[k]
            g.removable.pop(k, None)
        elif r < 0.98 and (allow_mut or profile == "uniq"):
            op = "uniq" if rng.random() < 0.85 or profile != "free" else "sort"
            ops += ["hosts 100000", op, "hosts 100000"]
            if op == "uniq":
                g.names = sorted(set(g.names), key=g.names.index)
            for k in g.cur:
                g.cur[k] = 0
                g.removable[k] = False
            return ops + ["count"]          # the order after uniq/sort is the implementation's: end the guided part
        else:
            ops.append("hosts 100000")
    ops.append("hosts 100000")
    return ops


# ------------------------------------------------------------------ judging
def events(ops, states, upto, k, sp=None):
    """risk events that touched iterator k (k < 0: any) before op index `upto`, read off the plain-list run:
    E push while the iterator stood at the end (X: after it had already answered NULL), A other push, D delete by name/position, P pop, S shift,
    Q pop of the host the iterator stands on (it returned that host last), R own removal, M removal through another
    iterator, U uniq/sort, Z one of these mutations left the list EMPTY, N the iterator's last restart is a uniq/sort that left the list as it was while the
    iterator was not at the start; only events since the iterator's last (re)start"""
    ev = set()
    start = 0
    beyond = False
    same = False
    if k >= 0:
        for i, o in enumerate(ops[:upto]):
            w = o.split()
            if (w[0] in ("it_new",) and states[i] is not None and k in states[i][1] and (i == 0 or states[i - 1] is None or k not in states[i - 1][1])) \
               or (w[0] == "it_reset" and int(w[1]) == k) or w[0] in ("uniq", "sort"):
                start = i
                same = w[0] in ("uniq", "sort") and sp is not None and 0 < i and i + 1 < len(sp) and \
                    ops[i - 1].startswith("hosts") and ops[i + 1].startswith("hosts") and sp[i - 1] == sp[i + 1] and \
                    states[i - 1] is not None and states[i - 1][1].get(k, 0) != 0
    for i, o in enumerate(ops[start:upto], start):
        w = o.split()
        if w[0] in ("it_remove", "delete", "delete_host", "delete_nth", "pop", "shift") and i > 0 and \
           states[i] is not None and states[i - 1] is not None and states[i][0] == 0 and states[i - 1][0] > 0:
            ev.add("Z")
        if w[0] == "it_remove":
            ev.add("R" if int(w[1]) == k else "M")
        elif w[0] in ("delete", "delete_host", "delete_nth"):
            ev.add("D")
        elif w[0] == "it_next" and k >= 0 and int(w[1]) == k and sp is not None and i < len(sp):
            beyond = sp[i] == "null"
        elif w[0] == "pop":
            st = states[i - 1] if i > 0 else None
            on_it = k >= 0 and st is not None and st[0] > 0 and st[1].get(k) == st[0] and not beyond
            ev.add("Q" if on_it else "P")
        elif w[0] == "push" and i > 0 and states[i - 1] is not None:
            ln, cur = states[i - 1]
            at_end = (cur.get(k) == ln) if k >= 0 else any(c == ln for c in cur.values())
            ev.add("X" if at_end and beyond else "E" if at_end else "A")     # X: the iterator had already answered NULL
        elif w[0] == "shift":
            ev.add("S")
        elif w[0] in ("uniq", "sort") and i > start:
            ev.add("U")
    ev.discard("A")
    if same:
        ev.add("N")
    return "+".join(sorted(ev)) or "none"


def split_state(spline):
    """'answer # len k:c ..' -> (answer, (len, {k: c}) | None)"""
    a, _, st = spline.partition(" # ")
    w = st.split()
    if not w or w[0] == "-":
        return a, None
    return a, (int(w[0]), {int(x.split(":")[0]): int(x.split(":")[1]) for x in w[1:]})


def spec_proj(op, ans):
    """the part of an implementation answer the plain-list spec speaks about"""
    w = op.split()[0]
    if w in ("push", "new", "uniq", "sort"):
        return " ".join(ans.split()[:2]) if w in ("uniq", "sort") else ans.split()[0] if w == "push" else "ok 0"
    return ans


def normalize(ops):
    """the plain-list spec judges uniq / sort from the lists before and after: make sure both are asked for"""
    out = []
    for i, o in enumerate(ops):
        if o in ("uniq", "sort") and not (out and out[-1].startswith("hosts")):
            out.append("hosts 100000")
        out.append(o)
        if o in ("uniq", "sort") and not (i + 1 < len(ops) and ops[i + 1].startswith("hosts")):
            out.append("hosts 100000")
    return out


def annotate(ops, ans):
    out = []
    for i, o in enumerate(ops):
        if o in ("uniq", "sort") and i + 1 < len(ops) and ops[i + 1].startswith("hosts") and i + 1 < len(ans) \
           and ans[i + 1].count(",") < 3000:       # (a runaway list is reported at the `hosts` op; the spec's admissibility test is quadratic)
            out.append(o + " @ " + ans[i + 1])
        else:
            out.append(enc(o))
    return out


def mixed_width(names):
    seen = {}
    for n in names:
        m = re.fullmatch(rb"(.*?)(\d+)", n)
        if m:
            key = (m.group(1), int(m.group(2)))
            if key in seen and seen[key] != n:
                return True
            seen.setdefault(key, n)
    return False


def big_suffix(name):
    m = re.fullmatch(r".*?(\d+)", name)
    return bool(m) and int(m.group(1)) > (1 << 25)


def cmp_gap(names):
    """two names with the same text in front of the trailing number whose numbers are 2^31 or more apart: the
    unchanged hostrange_cmp (difference of unsigned longs returned as int) is not an order on such records"""
    lo, hi = {}, {}
    for n in names:
        kk = key(n)
        if kk:
            lo[kk[0]] = min(lo.get(kk[0], kk[1]), kk[1])
            hi[kk[0]] = max(hi.get(kk[0], kk[1]), kk[1])
    return any(hi[p] - lo[p] >= (1 << 31) for p in lo)


def gap_before(ops, ans, k):
    try:
        return k > 0 and ops[k - 1].startswith("hosts") and k - 1 < len(ans) and cmp_gap(names_field(ans[k - 1])[2])
    except Exception:
        return False


def classify(ops, ans, sp, states, k):
    """signature of the first difference between implementation and plain-list spec at op k"""
    w = ops[k].split()
    if w[0] == "it_next":
        return "iter-diverges:" + events(ops, states, k, int(w[1]), sp)
    if w[0] == "hosts":
        return "list-diverges:" + events(ops, states, k, -1, sp)
    if w[0] in ("find", "delete_host", "delete"):
        arg = ops[k].split(" ", 1)[1]
        if sp[k] != "-1" and any(big_suffix(x) for x in re.split(r"[,\[\]-]", arg) if x) or big_suffix(arg):
            return w[0] + "-miss:suffix>2^25"
        if w[0] == "delete" and ans[k].isdigit() and sp[k].isdigit() and int(ans[k]) < int(sp[k]):
            return "delete-leaves-occurrences"       # fewer positions removed than the listed names occupy
        return w[0] + "-mismatch"
    if w[0] in ("uniq", "sort"):
        if sp[k] == "INADMISSIBLE" and k + 1 < len(ans) and k > 0 and ops[k - 1].startswith("hosts"):
            try:
                before = names_field(ans[k - 1])[2]
                after = names_field(ans[k + 1])[2]
            except Exception:
                return w[0] + "-inadmissible"
            gap = ":gap>=2^31" if cmp_gap(before) else ""
            if w[0] == "sort":
                return "sort-inadmissible:" + ("lost" if any(after.count(x) < before.count(x) for x in before) else "extra") + gap
            if set(before) - set(after):
                return "uniq-lost-a-name" + gap
            if set(after) - set(before):
                return "uniq-invented-a-name"
            dups = sorted(set(x for x in after if after.count(x) > 1))
            kinds = set()
            for x in dups:
                if any(twin(x, y) and y != x for y in before):
                    kinds.add("mixed-width")          # foo6 / foo06 in the same list: the two ranges carry different widths
                elif re.search(rb"\d{2,}$", x):
                    kinds.add("digit-prefix")         # the same name built from two different prefix/number splits
                else:
                    kinds.add("other")
            return "uniq-dups-left:" + "+".join(sorted(kinds))
        return w[0] + "-mismatch"
    if w[0] == "nth":
        if len(unhx_safe(sp[k])) > 78:
            return "nth-truncated:name>78"
        return "nth-mismatch"
    return w[0] + "-mismatch:" + events(ops, states, k, -1, sp)


def key(n):
    m = re.fullmatch(rb"(.*?)(\d+)", n)
    return (m.group(1), int(m.group(2))) if m else None


def twin(x, y):
    """same text in front of the trailing number and the same number, whatever the zero padding"""
    return key(x) is not None and key(x) == key(y)


def unhx_safe(a):
    try:
        return unhx(a)
    except Exception:
        return b""


def mixed_width_before(ops, ans, k):
    """did the list hold two names that differ only in zero padding when uniq was called? (names of the result
    with duplicates left are a subset of it)"""
    try:
        return mixed_width(names_field(ans[k + 1])[2])
    except Exception:
        return False


def run(ctx):
    rng = ctx.rng
    ctx.gen_consts(["hostlist"])
    ctx.lean_build([PROPS, "pdshmodel"])
    ctx.audit(PROPS)
    hl = HL(ctx)
    cov = {"evaluations": 0, "distinct_nontrivial": 0, "samples": [],
           "rule": "op histories `new; push EXPR; ...` over push/shift/pop/find/delete_host/delete/delete_nth/nth/count/"
                   "uniq/sort/hosts and it_new/it_next/it_remove/it_reset/it_free (up to 3 live iterators), expressions "
                   "with mixed widths, overlapping and adjacent ranges, single hosts, suffix words, numeric tails around "
                   "2^25; profiles keep the risky combinations apart (own removal only / shift / pop / delete under an "
                   "iterator / push at the end / several iterators / free mix); plus, on every run, EVERY ordered triple over a "
                   "16-entry alphabet (find / nth / delete_nth / delete_host / shift / pop / push / remove through an iterator / "
                   "uniq) on two small lists, one of them made of all-digit names and an empty prefix; non-trivial = at least one mutation while "
                   "an iterator is live, or a find/delete/uniq on a list with >= 3 hosts; distinct = distinct history text"}
    dist = {"ops": 0, "profiles": {}, "ub-predicted": 0, "crash": 0}
    if hl.build():
        profiles = ["own", "own", "shift", "pop", "delete", "endpush", "multi", "uniq", "big", "free", "free", "noiter", "noiter", "gap", "tailjoin"]
        if ctx.replay:
            seqs = [json.load(open(ctx.replay))["case"]["ops"]]
            profs = ["replay"]
        else:
            seqs, profs = [], []
            for s in load_corpus():
                seqs.append(s)
                profs.append("corpus")
            n = 1500 if ctx.quick() else 40000
            for _ in range(n):
                p = rng.choice(profiles)
                seqs.append(gen_history(rng, rng.randrange(4, 28), "free" if p == "noiter" else p))
                profs.append(p)
            # EXHAUSTIVE CORE (every run): every ordered triple of operations over a concrete alphabet on small lists -
            # state a call leaves behind for a later one (a cached position, a stale pointer, a width rewritten in place)
            # shows in some triple, whatever the random histories do
            for s in triples():
                seqs.append(s)
                profs.append("triples")
            if ctx.tier == "thorough":
                for s in exhaustive_small():
                    seqs.append(s)
                    profs.append("exhaustive")
        distinct = set()
        seqs = [normalize(s) for s in seqs]
        for lo in range(0, len(seqs), 5000):
            chunk = seqs[lo:lo + 5000]
            eseqs = [[enc(o) for o in s] for s in chunk]
            impl = run_batch([hl.exe], eseqs, env=hl.env, timeout=600)
            mlines = ctx.model("hl", "".join(l + "\n" for s in eseqs for l in s), args=["edit"])
            slines = ctx.model("hl", "".join(l + "\n" for s, (a, _) in zip(chunk, impl) for l in annotate(s, a)),
                               args=["plspec"])
            pos = 0
            for s, prof, (ans, crash) in zip(chunk, profs[lo:lo + 5000], impl):
                m = mlines[pos:pos + len(s)]
                sp = slines[pos:pos + len(s)]
                pos += len(s)
                cov["evaluations"] += 1
                dist["ops"] += len(s)
                dist["profiles"][prof] = dist["profiles"].get(prof, 0) + 1
                judge(ctx, hl, s, ans, crash, m, sp, dist)
                if nontrivial(s):
                    distinct.add("\n".join(s))
                if len(cov["samples"]) < 3 and 6 < len(s) < 14 and crash is None and nontrivial(s):
                    cov["samples"].append({"ops": s, "impl": [dec_ans(a) for a in ans]})
        cov["distinct_nontrivial"] = len(distinct)
    dist["probed-variant"] = hl.probed()
    cov["distribution"] = dist
    cov["traces_validated_against_impl"] = cov["evaluations"]
    for b in ctx.broken[:4]:
        ctx.log("broken:", b[0], b[1], "::", str(b[2])[:700])
    sigs = {}
    for sig, what, case in ctx.violations:
        if sig not in sigs:
            ctx.log("new offender class %s: %s :: %s" % (sig, what[:200], json.dumps(case.get("ops"))[:500]))
        sigs[sig] = sigs.get(sig, 0) + 1
    if sigs:
        ctx.log("offender signatures not covered by an open finding:", json.dumps(sigs, sort_keys=True))
    return ctx.finish(
        LEVEL, cov,
        assumptions=["glibc qsort orders by the comparator (the order among records that compare equal or inconsistently "
                     "is taken from the implementation)", "malloc never fails",
                     "hostlist_remove is only called on an iterator whose last hostlist_next returned a host",
                     "host names pushed are valid host expressions with numeric parts < 2^64-1"],
        trusted_base=["Lean 4.33 kernel", "axioms: propext, Classical.choice, Quot.sound at most (audited per theorem)",
                      "hand-written model lean/PdshVerif/Hostlist/{Find,Edit,Uniq}.lean tied to hostlist.c by differential "
                      "execution", "Gen/Hostlist.lean regenerated from /repo (constants and probed defect switches)",
                      "harness/hl_harness.c, checks/c16.py (generator, guide), gcc, ASan/UBSan"],
        checker_cmd="lake build PdshVerif.Props.C16 && #print axioms on every theorem of Props/C16.lean")


def crash_line(crash):
    for l in crash.splitlines():
        if "ERROR: AddressSanitizer" in l or "runtime error:" in l or "Assertion" in l or "LIMIT" in l:
            return re.sub(r"==\d+==|0x[0-9a-f]+", "", l).strip()[:200]
    return crash[:80].replace("\n", " ")


def nontrivial(s):
    live = 0
    for o in s:
        w = o.split()[0]
        if w == "it_new":
            live += 1
        elif w == "it_free":
            live -= 1
        elif live > 0 and w in ("push", "shift", "pop", "delete", "delete_host", "delete_nth", "it_remove", "uniq", "sort"):
            return True
    return any(o.split()[0] in ("find", "delete", "delete_host", "uniq") for o in s) and len(s) > 4


def judge(ctx, hl, s, ans, crash, m, sp, dist, shrinking=False):
    """returns the set of tags describing the problems seen (used by the shrinker)"""
    n = len(ans)
    states = [split_state(x)[1] for x in sp]
    sp = [split_state(x)[0] for x in sp]
    # --- correspondence: implementation vs model, op by op, up to the first op the model does not cover
    # (hostlist_sort / hostlist_coalesce / hostlist_collapse are modelled: Hostlist/EditSort.lean)
    mstop = next((i for i, a in enumerate(m) if a == "unsupported"), len(m))
    if not hasattr(hl, "flags_cache"):
        hl.flags_cache = hl.probed()
    if not hl.flags_cache.get("FIX_D26_CMPTRUNC", False):
        # unchanged hostrange_cmp is not an order on such records: which permutation qsort produces is libc's business
        mstop = min([mstop] + [i for i, o in enumerate(s) if o in ("uniq", "sort") and gap_before(s, ans, i)])
    k = next((i for i in range(min(n, mstop)) if ans[i] != m[i]), None)
    if crash is not None:
        dist["crash"] += 0 if shrinking else 1
        predicted = (n < len(m) and m[n].startswith("ub:")) or n >= mstop
        if k is not None or not predicted:
            tag = "model-vs-impl"
            if not shrinking:
                ctx.disagreement("hl edit model vs hostlist.c", "history crashes at op %d `%s` (%s), model answers %s" %
                                 (n, s[n] if n < len(s) else "?", crash_line(crash), m[max(0, n - 1):n + 1]),
                                 {"ops": small(ctx, hl, s, "model-vs-impl")})
        else:
            tag = None
            dist["ub-predicted"] += 0 if shrinking else 1
        # --- oracle: a crash is a violation of the property whatever the model says
        sig = "crash:nth:name>78" if n < len(s) and s[n].startswith("nth") else \
            "crash:uniq:gap>=2^31" if n < len(s) and s[n] == "uniq" and gap_before(s, ans, n) else \
            "crash:%s:%s" % (s[n].split()[0] if n < len(s) else "end",
                               events(s, states, n, int(s[n].split()[1]) if n < len(s) and s[n].startswith("it_") and len(s[n].split()) > 1 else -1, sp))
        if tag:
            sig += ":impl!=model"
        if not shrinking:
            ctx.offender(sig, "hostlist.c aborts (sanitizer / assertion / signal) at op %d `%s`: %s" %
                         (n, s[n] if n < len(s) else "?", crash_line(crash)),
                         {"ops": small(ctx, hl, s, "crash:" + sig), "impl": [dec_ans(a) for a in ans][-6:]})
        return {t for t in (tag, "crash:" + sig) if t}
    if k is not None and not shrinking:
        ctx.disagreement("hl edit model vs hostlist.c", "op %d `%s`: impl `%s` model `%s`" %
                         (k, s[k], dec_ans(ans[k])[:200], dec_ans(m[k])[:200]), {"ops": small(ctx, hl, s, "model-vs-impl")})
    # --- oracle: implementation vs the plain list (a recorded finding describes MODELLED behaviour: where the
    # implementation has already left the model, a difference is never excused by a finding)
    for i, o in enumerate(s):
        if o in ("dump", "nranges") or i >= len(sp):
            continue
        if spec_proj(o, ans[i]) != sp[i]:
            if sp[i] in ("bad-arg", "unsupported", "no-annotation"):
                continue
            sig = classify(s, ans, sp, states, i)
            if k is not None and k <= i:
                sig += ":impl!=model"
            if not shrinking:
                ctx.offender(sig, "op %d `%s`: hostlist.c answers `%s`, the plain list `%s`" %
                             (i, o, dec_ans(ans[i])[:160], dec_ans(sp[i])[:160]),
                             {"ops": small(ctx, hl, s, "spec:" + sig), "first_diff": i,
                              "impl": dec_ans(ans[i])[:300], "spec": dec_ans(sp[i])[:300]})
            return {"spec:" + sig} | ({"model-vs-impl"} if k is not None else set())
    return {"model-vs-impl"} if k is not None else set()


def small(ctx, hl, s, tag):
    """ddmin: keep the same kind of problem"""
    ctx.nshrunk = getattr(ctx, "nshrunk", 0) + 1
    if ctx.nshrunk > 12 or len(s) > 60:
        return s

    def fails(t):
        if not t or t[0] != "new":
            return False
        t = normalize(t)
        et = [enc(o) for o in t]
        (ans, crash), = run_batch([hl.exe], [et], env=hl.env, timeout=60)
        m = ctx.model("hl", "".join(l + "\n" for l in et), args=["edit"])
        sp = ctx.model("hl", "".join(l + "\n" for l in annotate(t, ans)), args=["plspec"])
        # a shrunk history must stay inside the contract of hostlist_remove
        if not remove_contract_ok(t):
            return False
        return tag in judge(ctx, hl, t, ans, crash, m, sp, {"crash": 0, "ub-predicted": 0}, shrinking=True)
    try:
        return ddmin(s, fails, keep_head=1, max_tests=120)
    except Exception:
        return s


def remove_contract_ok(t):
    """it_remove only directly after an it_next of the same iterator that may have returned a host"""
    last = {}
    for o in t:
        w = o.split()
        if w[0] == "it_next":
            last[int(w[1])] = True
        elif w[0] == "it_remove":
            if not last.get(int(w[1])):
                return False
            last = {}
        elif w[0] not in ("find", "nth", "count", "hosts", "dump"):
            last = {}
    return True


def load_corpus():
    d = os.path.join(VERIF_CORPUS, "C16")
    out = []
    if os.path.isdir(d):
        for f in sorted(os.listdir(d)):
            cur = []
            for l in open(os.path.join(d, f)):
                l = l.rstrip("\n")
                if l.startswith("#") or not l.strip():
                    continue
                if l == "new" and cur:
                    out.append(cur)
                    cur = []
                cur.append(l)
            if cur:
                out.append(cur)
    return out


TRIPLE_LISTS = [
    # three range records: lookups land in a later record while an earlier one shrinks in place
    ("a[1-3],b[1-3],c[1-2]",
     [["find b2"], ["find c1"], ["find a3"], ["nth 4"], ["delete_nth 0"], ["delete_nth 3"], ["delete_nth 6"],
      ["delete_host a1"], ["delete_host b3"], ["delete_host c2"], ["shift"], ["pop"], ["push d1"], ["push c3"],
      ["it_new", "it_next 0", "it_remove 0", "it_free 0"],                                     # remove the first host
      ["it_new", "it_next 0", "it_next 0", "it_next 0", "it_remove 0", "it_free 0"]]),         # remove the last host of a record
    # all-digit names, an empty prefix, a zero-padded twin, a repeated name
    ("7,[8-12],x1,007,7",
     [["find 10"], ["find 7"], ["find 12"], ["find 007"], ["nth 2"], ["delete_nth 1"], ["delete_nth 4"],
      ["delete_host 10"], ["delete_host 7"], ["delete_host 8"], ["shift"], ["pop"], ["push 13"], ["push [5-6]"],
      ["uniq"], ["it_new", "it_next 0", "it_next 0", "it_remove 0", "it_free 0"]]),
]


def triples():
    """every ordered triple of alphabet entries (an entry = one operation or one iterator episode) on each small list;
    the list and its count are read back after every entry"""
    for base, alpha in TRIPLE_LISTS:
        for combo in itertools.product(range(len(alpha)), repeat=3):
            t = ["new", "push " + base]
            for k in combo:
                t += alpha[k] + ["count"]
            yield t + ["hosts 100"]


def exhaustive_small():
    """all histories of length <= 5 over a 10-op alphabet on two fixed 6-host lists, one iterator"""
    alpha = ["it_next 0", "it_next 0", "it_remove 0", "shift", "pop", "push a7", "delete_nth 1", "find a3", "it_reset 0", "uniq"]
    alpha = list(dict.fromkeys(alpha))
    for base in ("a[1-3],b,c[1-2]", "a[1-2],a[2-3],x,a4"):
        for n in range(1, 6):
            for combo in itertools.product(alpha, repeat=n):
                t = ["new", "push " + base, "it_new"] + list(combo) + ["hosts 100"]
                if remove_contract_ok(t):
                    yield t
