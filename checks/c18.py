"""C18  Settings obey command line > environment > default; bad values are refused.

proof:          lean/PdshVerif/Props/C18.lean about the model Opt/Settings.lean (opt_default, opt_env, getopt,
                opt_args_early, opt_args, opt_verify, string_to_int, atoi, copy_username) against Opt/Spec.lean
correspondence: the scratch-built pdsh / pdcp / rpdcp (`-q` dump of the effective settings, exit status, stderr;
                `-L` for the module selection; real `-R exec` runs with a 5 s limit; the settings WHERE THEY ARE USED: user,
                fanout (also under low RLIMIT_NOFILE), command time-out through exec, connect time-out through the real rsh
                module against a scripted peer, remote pdcp path through pcptest.so) vs `pdshmodel opt model`
oracle:         Opt/Spec.lean `judge` (`pdshmodel opt spec`) on the structured configuration and the real observation
"""
import concurrent.futures
import itertools
import os
import pwd
import re
import subprocess

from vlib import optuse
from vlib.common import HARNESS, REPO, VERIF

LEVEL = "proof"
PROPS = "PdshVerif.Props.C18"
MANIFEST = dict(
    engine="opt",
    technique="Lean 4 proof (model of main as a whole: opt_default/opt_env/getopt/opt_args_early/opt_args incl. the assembly "
              "of the remote command, opt_verify, main's decision what to start; the C numeric conversions; precedence, "
              "independence, refusal of bad values, fanout >= 1 composed with the fan-out LTS of C03) + differential "
              "correspondence of the real pdsh/pdcp/rpdcp binaries against the compiled model + specification oracle on the "
              "real -q dump / exit status / real runs",
    text="Theorems in lean/PdshVerif/Props/C18.lean about the model Opt/Settings.lean: every setting equals the conversion "
         "of command line <|> environment <|> default (all option orders and spellings, any other options present, every "
         "personality), for every row of the option / environment table that harness/consts/optable.c DERIVES FROM THE "
         "BEHAVIOUR of the opt.c under test (getopt and getenv interposed, experiments in forked children); bad values are "
         "refused with status 1 before anything is started and an accepted fanout is >= 1 (no deadlock of the dispatcher: "
         "C03.progress imported); valid settings are accepted and take exactly the value written; the remote command is the "
         "operands joined by blanks, the prompt loop is entered exactly when there is none; pdsh has no -e, pdcp/rpdcp no "
         "-S/-k; kernel-checked counterexamples for the unchanged code. The model is executed against the real binaries on "
         "generated environment x argument combinations (table-driven deterministic classes + random); the real observations "
         "are judged by Opt/Spec.lean; refusals are classified by the kind of bad input, never by message wording.",
    design_ref="DESIGN.md section 5 C18, section 6 D4 D5",
    note="Lean 4.33 kernel; axioms propext/Classical.choice/Quot.sound at most (audited per theorem every run); hand-written "
         "model tied to opt.c/main.c by differential execution of binaries built from /repo's working tree plus constants "
         "regenerated from /repo (defaults, rcmd ranking, option strings and option/variable table by behavioural probe); "
         "glibc strtoul/strtol/atoi/getopt modelled not verified; WCOLL, DSHPATH, -w - (stdin), what module option handlers "
         "do outside the model; generators, gcc trusted")

NUMS = ["", "0", "1", "2", "7", "32", "100", "2147483647", "2147483648", "2147483649", "4294967295", "4294967296",
        "4294967297", "4294967306", "9223372036854775807", "9223372036854775808", "18446744073709551615",
        "18446744073709551616", "18446744073709551617", "99999999999", "340282366920938463463374607431768211456",
        "-0", "-1", "-5", "-2147483648", "-2147483649", "-4294967295", "-4294967296", "-4294967297",
        "-9223372036854775808", "-9223372036854775809", "-18446744073709551615", "-18446744073709551616",
        "+5", "+0", "+", "-", "+-5", "--5", "- 5", " 5", "  12", "\t8", "\n3", "5 ", "5\t", " ", "\t",
        "0x10", "0X1F", "1f", "x", "abc", "5x", "5.0", "1e3", "1,000", "007", "00", "0000000000000000000000012",
        "10", "9", "64", "1024", "65536",
        # octal / hex / binary spellings (a base-0 conversion reads them differently or accepts them), near-limits
        "010", "017", "08", "09", "0x", "0x7", "0b11", "0o7", "2147483646", "-2147483647", "1 2", "3\n", "+2147483647",
        "+2147483648", "4294967298", "18446744073709551614"]
VALID_NUMS = ["1", "2", "3", "7", "10", "32", "64", "100", "1024"]
FLAGS_DSH = ["N", "b", "d", "S", "k"]
FLAGS_PCP = ["N", "b", "d", "r", "p"]
ENVNAME = {"f": "FANOUT", "t": "PDSH_CONNECT_TIMEOUT", "u": "PDSH_COMMAND_TIMEOUT", "R": "PDSH_RCMD_TYPE",
           "M": "PDSH_MISC_MODULES", "e": "PDSH_REMOTE_PDCP_PATH"}
SPECKEY = {"f": ("cf", "ef"), "t": ("ct", "et"), "u": ("cu", "eu"), "l": ("cl", None), "R": ("cR", "eR"),
           "M": ("cM", "eM"), "e": ("ce", "ee")}
RCMDS = ["rsh", "exec", "nosuch", "", "RSH", "exec ", "ssh", "rsh,exec"]


def hx(s):
    return s.encode("latin1").hex() or "-"


# --------------------------------------------------------------------------- cases
class Case:
    """opts: list of (letter, value|None) in command-line order; env: dict; style: how each option is written"""

    def __init__(self, pers, opts, env, operands, style=None, dashdash=False, oracle=True, struct_ok=True, kind="q"):
        self.pers, self.opts, self.env, self.operands = pers, opts, env, operands
        self.style = style or ["sep"] * len(opts)
        self.dashdash, self.oracle, self.struct_ok, self.kind = dashdash, oracle, struct_ok, kind

    def argv(self):
        out = []
        i = 0
        while i < len(self.opts):
            l, v = self.opts[i]
            st = self.style[i]
            if v is None:
                word = "-" + l
                # cluster following flags / one option into the same word
                while st == "cluster" and i + 1 < len(self.opts):
                    l2, v2 = self.opts[i + 1]
                    if v2 is None:
                        word += l2
                        i += 1
                        st = self.style[i]
                    else:
                        if v2 != "":
                            word += l2 + v2
                            i += 1
                        break
                out.append(word)
            elif st == "att" and v != "":
                out.append("-" + l + v)
            else:
                out += ["-" + l, v]
            i += 1
        if self.dashdash:
            out.append("--")
        return out + list(self.operands)

    def text(self, letter, src):
        """text given for a setting on the command line (last occurrence) / in the environment"""
        if src == "c":
            vals = [v for l, v in self.opts if l == letter]
            return (vals[0] if getattr(self, "pick_first", False) else vals[-1]) if vals else None
        return self.env.get(ENVNAME.get(letter, ""), None)


def operands_for(pers, files):
    return ["true"] if pers == "dsh" else [files["src"], files["dst"]]


def gen_value(rng, letter, valid_bias):
    if letter in "ftu":
        if rng.random() < valid_bias:
            return rng.choice(VALID_NUMS + (["0"] if letter != "f" else []))
        return rng.choice(NUMS)
    if letter == "l":
        if rng.random() < valid_bias:
            return rng.choice(["root", "alice", "bob_1", "u"])
        n = rng.choice([0, 1, 16, 17, 32, 254, 255, 256, 257, 300, 1000])
        return "".join(rng.choice("abcxyz09_") for _ in range(n))
    if letter == "R":
        return rng.choice(["rsh", "exec"]) if rng.random() < valid_bias else rng.choice(RCMDS)
    if letter == "M":
        return rng.choice(["A", "B", "A,B", "B,A", "nosuch", "", "nosuch,B", "b"])
    if letter == "e":
        return rng.choice(["/usr/bin/pdcp", "/x", "relative/pdcp", "", "/a b/c"])
    raise ValueError(letter)


def gen_combo(rng, files, valid_bias):
    """each option / variable present or absent, each value valid or from the hostile generator"""
    pers = rng.choice(["dsh", "dsh", "dsh", "pdcp", "rpdcp"])
    letters = ["f", "t", "u", "l", "R", "M"] + (["e"] if pers != "dsh" else [])
    opts, env = [], {}
    for l in letters:
        if rng.random() < 0.45:
            opts.append((l, gen_value(rng, l, valid_bias)))
        if l in ENVNAME and rng.random() < 0.35:
            env[ENVNAME[l]] = gen_value(rng, l, valid_bias)
    if pers == "dsh" and rng.random() < 0.15:      # ignored for pdsh, must not leak into it
        env["PDSH_REMOTE_PDCP_PATH"] = "/env/pdcp"
    if rng.random() < 0.08:                        # part of the remote command (C09): must not touch any setting here
        env["DSHPATH"] = rng.choice(["/opt/bin", "/a:/b", ""])
    for fl in (FLAGS_DSH if pers == "dsh" else FLAGS_PCP):
        if rng.random() < 0.2:
            opts.append((fl, None))
    opts += [("w", "h[0-2]"), ("q", None)]
    rng.shuffle(opts)
    style = [rng.choice(["sep", "sep", "att", "cluster"]) for _ in opts]
    return Case(pers, opts, env, operands_for(pers, files), style)


def gen_single(pers, letter, src, value, files):
    opts, env = [("w", "foo"), ("q", None)], {}
    if src in ("c", "b"):
        opts.insert(1, (letter, value))
    if src in ("e", "b"):
        env[ENVNAME[letter]] = value if src == "e" else "5"
    return Case(pers, opts, env, operands_for(pers, files))


def gen_wcoll(rng, files):
    """-w words of the documented form [rcmd_type:][user@]hosts: transports and remote users given per target"""
    pers = rng.choice(["dsh", "dsh", "dsh", "pdcp"])
    words, types, users, malformed = [], [], [], False
    for _ in range(rng.choice([1, 1, 2, 3])):
        ty = rng.choice([None, None, None, "exec", "rsh", "nosuch", "", "ssh"])
        us = rng.choice([None, None, None, "bob", "alice_1", "u" * 255, "u" * 256, "u" * 257, "u" * 300, ""])
        hosts = rng.choice(["foo", "bar", "h[0-2]", "n1", "a1,a2"])
        if rng.random() < 0.06:
            # user before the transport: not of the documented form (also with loaded module names on both sides)
            words.append(rng.choice(["bob@exec:", "exec@rsh:", "rsh@exec:"]) + hosts)
            malformed = True
            continue
        w = hosts
        if us is not None:
            w = us + "@" + w
            users.append(us)
        if ty is not None:
            w = ty + ":" + w
            types.append(ty)
        words.append(w)
    opts = [("w", ",".join(words)), ("q", None)]
    if rng.random() < 0.3:
        opts.append(("l", rng.choice(["alice", "root"])))
    if rng.random() < 0.3:
        opts.append(("R", rng.choice(["rsh", "exec"])))
    if rng.random() < 0.2:
        opts.append(("f", rng.choice(VALID_NUMS)))
    rng.shuffle(opts)
    c = Case(pers, opts, {}, operands_for(pers, files), [rng.choice(["sep", "att"]) for _ in opts])
    c.wspec = {"types": types, "users": users, "malformed": malformed}
    return c


def gen_modes(rng, files):
    """correspondence only: the remaining letters of the option table in the personality they belong to — the pdcp
    server / client modes (-z, -Z), -y, -r, -p with 0..3 operands; -T 0 (a built-in self test), -I (in the option
    string, handled by nothing), -s (AIX only: not in this build's option string)"""
    pers = rng.choice(["pdcp", "pdcp", "rpdcp", "dsh"])
    opts = [("w", "foo"), ("q", None)] if rng.random() < 0.7 else [("q", None)]
    pool = [("z", None), ("Z", None), ("y", None), ("r", None), ("p", None), ("T", "0"), ("I", "x"), ("s", None), ("K", None),
            ("x", "bar"), ("Q", None), ("e", "/opt/pdcp")]
    for o in rng.sample(pool, rng.choice([1, 1, 2, 3])):
        opts.append(o)
    # observed while building this group (reported, not part of C18's statement): `pdcp -Z -q file host` WITHOUT -w
    # dereferences the NULL target list in opt_list (SIGSEGV); the undocumented client mode is only ever started by
    # rpdcp itself, so the cases here always give -w with -Z
    if ("Z", None) in opts and not any(l == "w" for l, _ in opts):
        opts.append(("w", "foo"))
    rng.shuffle(opts)
    if pers == "dsh":
        operands = ["true"]
    else:
        n = rng.choice([0, 1, 1, 2, 2, 3])
        operands = ([files["src"]] * max(0, n - 1) + [files["dst"]])[:n] if n else []
        if ("Z", None) in opts and n >= 2:
            operands = [files["src"]] * (n - 1) + ["clienthost"]
    return Case(pers, opts, {}, operands, [rng.choice(["sep", "att", "cluster"]) for _ in opts], oracle=False)


def gen_syntax(rng, files):
    """correspondence only: repeats, early exits, unknown options, missing arguments, options after operands"""
    pers = rng.choice(["dsh", "dsh", "pdcp"])
    opts = [("w", "foo"), ("q", None)]
    for _ in range(rng.randrange(1, 6)):
        l = rng.choice(["f", "f", "t", "u", "l", "R", "M", "N", "b", "d", "q", "S", "k", "L", "V", "h", "J", "c",
                        "e", "r", "p", "y", "x", "Q", "K", ":", "-", "w"])
        if pers != "dsh" and l in "-:":
            continue        # "--" would turn the following option words into (non-existing) source files
        if l in "ftulRMe":
            opts.append((l, gen_value(rng, l, 0.7)))
        elif l == "x":
            opts.append((l, "bar"))
        elif l == "w":
            opts.append((l, "baz"))
        else:
            opts.append((l, None))
    rng.shuffle(opts)
    style = [rng.choice(["sep", "att", "cluster"]) for _ in opts]
    operands = operands_for(pers, files)
    r = rng.random()
    if r < 0.15 and pers == "dsh":
        operands = operands + ["-f", "3"]                  # after the first operand: not options any more
    elif r < 0.25:
        operands = []
    elif r < 0.32:
        operands = operands[:1]
    c = Case(pers, opts, {}, operands, style, dashdash=rng.random() < 0.2, oracle=False)
    if rng.random() < 0.15:                                   # an option that lacks its argument at the very end
        c.operands = []
        c.dashdash = False
        c.opts.append((rng.choice("ftulR"), ""))
        c.style.append("sep")
        c._drop_last = True
    return c


# --------------------------------------------------------------------------- running
class Real:
    def __init__(self, ctx, repo):
        self.ctx = ctx
        d = os.path.join(repo, "src", "pdsh")
        for n in ("pdcp", "rpdcp"):
            p = os.path.join(d, n)
            if not os.path.lexists(p):
                os.symlink("pdsh", p)
        self.bin = {"dsh": os.path.join(d, "pdsh"), "pdcp": os.path.join(d, "pdcp"), "rpdcp": os.path.join(d, "rpdcp")}
        self.files = {"src": os.path.join(ctx.scratch, "c18src.txt"), "dst": os.path.join(ctx.scratch, "c18dst")}
        open(self.files["src"], "w").write("x\n")
        os.makedirs(self.files["dst"], exist_ok=True)
        self.luser = pwd.getpwuid(os.getuid()).pw_name
        self.lmax = os.sysconf("SC_LOGIN_NAME_MAX")
        self.avail = {}
        for pers, b in self.bin.items():
            p = subprocess.run([b, "-L"], env={}, stdout=subprocess.PIPE, stderr=subprocess.PIPE)
            self.avail[pers] = re.findall(r"^Module: rcmd/(\S+)", p.stdout.decode(), re.M)
        gen = open(os.path.join(VERIF, "lean", "PdshVerif", "Gen", "Dsh.lean")).read()
        self.dflt_ctmo = int(re.search(r"def CONNECT_TIMEOUT : Nat := (\d+)", gen).group(1))
        self.dflt_rcmd = {}

    def run(self, pers, argv, env, timeout=20, user=None, stdin_data=None, nofile=None):
        cmd = [self.bin[pers]] + argv
        if nofile is not None:      # the process's limit of open files (soft = hard)
            cmd = ["prlimit", "--nofile=%d:%d" % (nofile, nofile)] + cmd
        if user is not None:
            cmd = ["setpriv", "--reuid", str(user), "--regid", str(user), "--clear-groups"] + cmd
        for attempt in (0, 1):      # a time-out alone is tried once more before it is reported (loaded machine)
            try:
                kw = {"stdin": subprocess.DEVNULL} if stdin_data is None else {"input": stdin_data}
                p = subprocess.run(cmd, env=env, stdout=subprocess.PIPE, stderr=subprocess.PIPE, timeout=timeout, **kw)
                return p.returncode, p.stdout, p.stderr
            except subprocess.TimeoutExpired:
                continue
        return None, b"", b"TIMEOUT"


DUMP = {"path": rb"^Remote program path\t(.*)$", "ruser": rb"^Remote username\t\t(.*)$", "rcmd": rb"^Rcmd type\t\t(.*)$",
        "ctmo": rb"^Connect timeout \(secs\)\t(-?\d+)$", "utmo": rb"^Command timeout \(secs\)\t(-?\d+)$",
        "fanout": rb"^Fanout\t\t\t(-?\d+)$"}


DUMP_OPTIONAL = {"cmd": rb"^Command:\t\t(.*)$", "infiles": rb"^Infile\(s\)\t\t(.*)$", "outfile": rb"^Outfile\t\t\t(.*)$"}


def parse_dump(out):
    d = {}
    for k, rx in DUMP.items():
        m = re.search(rx, out, re.M)
        if not m:
            return None
        d[k] = m.group(1).decode("latin1")
    for k, rx in DUMP_OPTIONAL.items():
        m = re.search(rx, out, re.M)
        if m:
            d[k] = m.group(1).decode("latin1")
    return d


def unhex(h):
    return "" if h == "-" else bytes.fromhex(h).decode("latin1")


def assembly_differs(pers, d, mm):
    """the remote command (DSH) / the source files and the destination (PCP) of the listing vs the model's"""
    kv = dict(x.split("=", 1) for x in mm if "=" in x)
    if "cmd" not in kv:
        return None
    if pers == "dsh":
        want = d.get("cmd")
        got = "none" if kv["cmd"] == "~" else unhex(kv["cmd"])
        return None if want == got else "command: listing `%s` model `%s`" % (want, got)
    ins = ", ".join(unhex(x) for x in kv["in"].split(",")) if kv["in"] else None
    outf = "none" if kv["out"] == "~" else unhex(kv["out"])
    if d.get("infiles") != ins or d.get("outfile") != outf:
        return "files: listing %r -> %r model %r -> %r" % (d.get("infiles"), d.get("outfile"), ins, outf)
    return None


def base_fields(real, pers):
    prog = real.bin[pers]
    return "pers=%s luser=%s lmax=%d prog=%s avail=%s" % (pers, hx(real.luser), real.lmax, hx(prog),
                                                       ",".join(hx(a) for a in real.avail[pers]))


def model_line(real, case, argv, env=None, avail=None, modopts=""):
    env = case.env if env is None else env
    base = base_fields(real, case.pers)
    if avail is not None:
        base = re.sub(r"avail=\S*", "avail=" + ",".join(hx(a) for a in avail), base)
    if modopts:
        base += " modopts=" + hx(modopts)
    return "%s env=%s argv=%s" % (base, ",".join("%s:%s" % (hx(k), hx(v)) for k, v in env.items()),
                                  ",".join(hx(a) for a in argv))


def default_rcmd(real, pers, rank):
    for r in rank:
        if r in real.avail[pers]:
            return r
    return None


def spec_line(real, case, obs, rank, mw=None, avail=None):
    parts = [base_fields(real, case.pers)]
    if avail is not None:
        parts[0] = re.sub(r"avail=\S*", "avail=" + ",".join(hx(a) for a in avail), parts[0])
    dfr = default_rcmd(real, case.pers, rank) if avail is None else None
    if dfr is not None:
        parts.append("dfr=" + hx(dfr))
    parts.append("st=%d" % (1 if case.struct_ok else 0))
    for l, (ck, ek) in SPECKEY.items():
        if l == "e" and case.pers == "dsh":
            continue
        t = case.text(l, "c")
        if t is not None:
            parts.append("%s=%s" % (ck, hx(t)))
        if ek:
            t = case.text(l, "e")
            if t is not None:
                parts.append("%s=%s" % (ek, hx(t)))
    ws = getattr(case, "wspec", None)
    if ws:
        if ws["types"]:
            parts.append("wt=" + ",".join(hx(t) for t in ws["types"]))
        if ws["users"]:
            parts.append("wu=" + ",".join(hx(u) for u in ws["users"]))
        if ws["malformed"]:
            parts.append("wm=1")
    if obs is not None:
        parts.append("obs=" + obs)
    if mw is not None:
        parts.append("mw=" + hx(mw))
    return " ".join(parts)


def case_record(ctx, c, argv, rc, err_, kind, **extra):
    """what an offender / disagreement records of a case: enough to re-run it (`./check.py C18 --replay FILE`)"""
    rel = lambda w: w.replace(ctx.scratch, "@SCRATCH@") if isinstance(w, str) else w
    d = {"pers": c.pers, "env": c.env, "argv": argv, "exit": rc, "stderr": (err_ or b"").decode("latin1")[-200:],
         "kind": kind, "opts": [list(o) for o in c.opts], "style": c.style, "dashdash": c.dashdash,
         "struct_ok": c.struct_ok, "oracle": c.oracle, "operands": [rel(w) for w in c.operands],
         "drop_last": bool(getattr(c, "_drop_last", False)), "wspec": getattr(c, "wspec", None)}
    d.update(extra)
    return d


def load_replay(ctx):
    """(Case, kind) named by --replay FILE, or (None, None)"""
    import json
    if not getattr(ctx, "replay", None):
        return None, None
    rp = json.load(open(ctx.replay))
    k = rp.get("case") or {}
    if rp.get("kind") != "input" or "opts" not in k:
        ctx.log("replay file names no re-runnable input: running the whole check instead")
        return None, None
    c = Case(k["pers"], [tuple(o) for o in k["opts"]], k.get("env", {}),
             [w.replace("@SCRATCH@", ctx.scratch) for w in k.get("operands", [])], k.get("style"),
             dashdash=k.get("dashdash", False), oracle=k.get("oracle", True), struct_ok=k.get("struct_ok", True),
             kind=k.get("kind", "q"))
    if k.get("drop_last"):
        c._drop_last = True
    if k.get("wspec"):
        c.wspec = k["wspec"]
    if k.get("use"):
        c.use = k["use"]
    if k.get("ckind"):
        c.ckind = k["ckind"]
    if k.get("nofile"):
        c.nofile = k["nofile"]
    c.group = "replay"
    ctx.log("replay of %s: %s env %s argv %s (signature %s)" % (os.path.basename(ctx.replay), c.pers, c.env, c.argv(),
                                                             rp.get("signature")))
    return c, k.get("kind", "q")


# ---- refusals are classified by WHAT IS WRONG WITH THE INPUT (a syntactic feature of the generated case), never by the
# wording of the message: a refusal is `exit != 0` (before anything is contacted: -q / the trace file of the real runs)
# plus a diagnostic on stderr; whether the diagnostic names the offending option, variable, setting or value is recorded
NUMRX = re.compile(r"^[ \t\n\v\f\r]*([+-]?[0-9]+)$")
NUMERIC = (("f", "FANOUT", 1, ("fanout",)), ("t", "PDSH_CONNECT_TIMEOUT", 0, ("connect", "timeout")),
           ("u", "PDSH_COMMAND_TIMEOUT", 0, ("command", "timeout")))
REQUIRED_KINDS = (["%s:%s:%s" % (src, l, k) for src in ("cmdline", "env") for l in "ftu"
                   for k in ("not-a-number", "out-of-range", "too-small")] +
                  ["cmdline:l:over-long", "cmdline:R:unknown", "env:R:unknown", "wcoll:user:over-long", "wcoll:rcmd:unknown",
                   "wcoll:malformed", "no-targets", "unknown-option", "missing-argument", "usage", "exec:connect-timeout",
                   "pcp:operands"])


def denotes(t):
    m = NUMRX.match(t)
    return int(m.group(1)) if m else None


def bad_tags(c, real, optstr):
    """[(kind, words a diagnostic could name)]: everything about the case that cannot work / is not a proper command line"""
    tags = []
    letters = [l for l, _ in c.opts]
    # the last option of a `_drop_last` case lacks its argument: it gives no value at all
    valued = c.opts[:-1] if getattr(c, "_drop_last", False) else c.opts
    last = lambda l: ([v for x, v in valued if x == l] or [None])[-1]
    for l, var, lo, nouns in NUMERIC:
        for src, texts in (("cmdline", [v for x, v in valued if x == l]), ("env", [c.env[var]] if var in c.env else [])):
            for i, t in enumerate(texts):
                v = denotes(t)
                names = ("-" + l, var if src == "env" else "-" + l, t) + nouns
                if v is None:
                    tags.append(("%s:%s:not-a-number" % (src, l), names))
                elif not -2 ** 31 <= v < 2 ** 31:
                    tags.append(("%s:%s:out-of-range" % (src, l), names))
                elif v < lo and i == len(texts) - 1 and (src == "cmdline" or last(l) is None):
                    tags.append(("%s:%s:too-small" % (src, l), names))
    for x, v in valued:
        if x == "l" and len(v) > real.lmax:
            tags.append(("cmdline:l:over-long", ("-l", "user", v)))
    avail = real.avail[c.pers]
    rc_, re_ = last("R"), c.env.get("PDSH_RCMD_TYPE")
    chosen = rc_ if rc_ is not None else re_
    if chosen is not None and chosen not in avail:
        tags.append(("%s:R:unknown" % ("cmdline" if rc_ is not None else "env"), ("-R", "PDSH_RCMD_TYPE", "rcmd", "module", chosen)))
    ws = getattr(c, "wspec", None)
    if ws:
        if any(len(u) > real.lmax for u in ws["users"]):
            tags.append(("wcoll:user:over-long", ("user", "-w")))
        if any(t not in avail for t in ws["types"]):
            tags.append(("wcoll:rcmd:unknown", ("rcmd", "module", "-w") + tuple(t for t in ws["types"] if t and t not in avail)))
        if ws["malformed"]:
            tags.append(("wcoll:malformed", ("host", "-w", "form")))
    if "w" not in letters:
        tags.append(("no-targets", ("host", "-w", "target")))
    known = optstr["dsh" if c.pers == "dsh" else "pcp"]
    if any(l not in known.replace(":", "") or l == ":" for l in letters):
        tags.append(("unknown-option", ("option", "usage")))
    if getattr(c, "_drop_last", False):
        tags.append(("missing-argument", ("option", "argument", "usage")))
    if "h" in letters:
        tags.append(("usage", ("usage",)))
    if any(l in "cI" for l in letters):
        tags.append(("unhandled-option", ("usage",)))
    ct = last("t") if last("t") is not None else c.env.get("PDSH_CONNECT_TIMEOUT")
    if (chosen == "exec" or (chosen is None and getattr(real, "dflt_rcmd", {}).get(c.pers) == "exec")) and ct is not None \
            and "exec" in avail and denotes(ct) is not None and denotes(ct) != real.dflt_ctmo:
        tags.append(("exec:connect-timeout", ("-t", "exec", "timeout")))
    if c.pers != "dsh":
        if any(l in "zZy" for l in letters):
            tags.append(("pcp:modes", ("pcp", "server", "client", "directory")))
        elif len(c.operands) < 2:
            tags.append(("pcp:operands", ("source", "dest", "file", "usage")))
    return tags


def names_offender(err_, names):
    e = (err_ or b"").decode("latin1").lower()
    return any(n and n.strip() and n.lower() in e for n in names)


def generated_table():
    """the settings table that harness/consts/optable.c derives from the behaviour of the opt.c under test: option
    strings, rows (letter | variable, opt_t member, behaviour class)"""
    src = open(os.path.join(VERIF, "lean", "PdshVerif", "Gen", "Optable.lean")).read()
    st = {n: re.search(r'def OT_%s : String := "([^"]*)"' % n, src).group(1) for n in ("GEN_ARGS", "DSH_ARGS", "PCP_ARGS")}
    strs = "".join(st.values())
    rows = lambda name: re.findall(r'\("([^"]*)", "([^"]*)", "([^"]*)"\)', re.search(r"def %s : .*" % name, src).group(0))
    letters = {r[0] for r in rows("OT_OPTS")} | {r[0] for r in rows("OT_EARLY")} | set(strs.replace(":", ""))
    return {"letters": {l for l in letters if l in strs}, "absent": {l for l in letters if l not in strs},
            "env": [r[0] for r in rows("OT_ENVS")], "opts": rows("OT_OPTS"), "early": rows("OT_EARLY"), "envs": rows("OT_ENVS"),
            "optstr": {"dsh": st["GEN_ARGS"] + st["DSH_ARGS"], "pcp": st["GEN_ARGS"] + st["PCP_ARGS"]}}


VALUED = ("string_to_int", "atoi", "strdup", "bounded_text")
TABLE_VALUES = {"fanout": ("3", "5", "7"), "connect_timeout": ("4", "6", "8"), "command_timeout": ("9", "11", "13"),
                "ruser": ("alice", "bob", "carol"), "remote_program_path": ("/c1/pdcp", "/c2/pdcp", "/env/pdcp")}


def gen_table_cases(tab, real):
    """deterministic, driven by the GENERATED table: for every valued setting (a letter that takes an argument and sets
    an opt_t member, with the variable that sets the same member if there is one) and every personality that has the
    letter: absent / command line only / variable only / both / twice on the command line (both orders) / twice plus
    variable / valid command line over a hostile variable; for every flag letter: once, twice"""
    out = []
    var_of = {f: v for v, f, cv in tab["envs"] if cv in VALUED}
    settings = [(l, f) for l, f, cv in tab["opts"] + tab["early"] if cv in VALUED and f != "misc_modules"]
    for f, v in var_of.items():
        if not any(f == f2 for _, f2 in settings) and f != "misc_modules":
            settings.append((None, f))
    for pers in ("dsh", "pdcp", "rpdcp"):
        ostr = tab["optstr"]["dsh" if pers == "dsh" else "pcp"]
        avail = real.avail[pers]
        for l, f in settings:
            var = var_of.get(f)
            if f == "rcmd_name":
                good = [a for a in ("exec", "rsh") if a in avail] or avail[:1]
                if not good:
                    continue
                v1, v2, ve = good[0], good[-1], good[-1]
                hostile = "nosuch"
            else:
                v1, v2, ve = TABLE_VALUES.get(f, ("7", "8", "9"))
                hostile = "x" if f in ("fanout", "connect_timeout", "command_timeout") else "nosuch"
            has = l is not None and l in ostr
            pats = [([], {})]
            if has:
                pats += [([(l, v1)], {}), ([(l, v1), (l, v2)], {}), ([(l, v2), (l, v1)], {}), ([(l, v1), (l, v1)], {})]
                if f == "rcmd_name":
                    pats += [([(l, "nosuch"), (l, v2)], {}), ([(l, v1), (l, "nosuch")], {})]
            if var:
                pats += [([], {var: ve})]
                if has:
                    pats += [([(l, v1)], {var: ve}), ([(l, v1), (l, v2)], {var: ve}), ([(l, v1)], {var: hostile}),
                             ([(l, hostile)], {var: ve})]
            if f in ("fanout", "connect_timeout", "command_timeout"):
                # a number that parses but cannot work: refused by the sanity checks at the END of option processing
                # (opt_verify), which has a branch of its own for each personality
                small = "0" if f == "fanout" else "-1"
                if has:
                    pats += [([(l, small)], {}), ([(l, v1), (l, small)], {}), ([(l, small), (l, v1)], {})]
                    if var:
                        pats += [([(l, v1)], {var: small})]
                if var:
                    pats += [([], {var: small})]
                # ... whatever else is on the command line: next to every flag and every other valued option of this
                # personality ("independent of which other options are present" holds for the refusals too)
                if has:
                    for fl in (FLAGS_DSH if pers == "dsh" else FLAGS_PCP):
                        pats += [([(l, small), (fl, None)], {}), ([(fl, None), (l, small)], {})]
                    for l2, f2 in settings:
                        if l2 is not None and l2 != l and l2 in ostr and f2 != "rcmd_name":
                            pats += [([(l, small), (l2, TABLE_VALUES.get(f2, ("7",))[0])], {})]
            for opts, env in pats:
                for front in (True, False):
                    o = (opts + [("w", "foo"), ("q", None)]) if front else ([("w", "foo"), ("q", None)] + opts)
                    c = Case(pers, o, dict(env), operands_for(pers, real.files))
                    c.group = "table"
                    out.append(c)
                    if not opts:
                        break
        for l, f, cv in tab["opts"]:
            if cv in VALUED or l not in ostr or ostr[ostr.index(l) + 1:ostr.index(l) + 2] == ":" or l in "wq":
                continue
            for n in (1, 2):
                c = Case(pers, [("w", "foo"), ("q", None)] + [(l, None)] * n, {}, operands_for(pers, real.files),
                         oracle=l in (FLAGS_DSH if pers == "dsh" else FLAGS_PCP))
                c.group = "table"
                out.append(c)
    return out


def rank_from_gen():
    src = open(os.path.join(VERIF, "lean", "PdshVerif", "Gen", "Opt.lean")).read()
    return re.findall(r'"([^"]*)"', re.search(r"RCMD_RANK : List String := \[(.*)\]", src).group(1))


def build_test_modules(ctx, repo):
    """the conflicting misc modules A and B of tests/test-modules plus harness/optmod_g.c (module G: an option WITH
    an argument), all inside the scratch copy; returns the module directory or None"""
    tm = os.path.join(repo, "tests", "test-modules")
    mk = subprocess.run(["make", "-C", tm, "a.la", "b.la"], stdout=subprocess.PIPE, stderr=subprocess.STDOUT)
    moddir = os.path.join(tm, ".libs")
    if mk.returncode != 0 or not os.path.exists(os.path.join(moddir, "a.so")):
        ctx.broken.append(("C-BROKEN", "test modules build", mk.stdout.decode("latin1")[-600:]))
        return None
    g = subprocess.run(["gcc", "-shared", "-fPIC", "-w", "-DHAVE_CONFIG_H", "-I" + repo, "-I" + repo + "/src/pdsh",
                        "-I" + repo + "/src/common", os.path.join(HARNESS, "optmod_g.c"), "-o", os.path.join(moddir, "g.so")],
                       stdout=subprocess.PIPE, stderr=subprocess.STDOUT)
    if g.returncode != 0:
        ctx.broken.append(("C-BROKEN", "module G build", g.stdout.decode("latin1")[-600:]))
        return None
    return moddir


MODOPTS = "ag:"      # what A/B (-a) and G (-g name) register


def active_misc(out):
    act = dict(re.findall(r"Module: misc/(\S+)\n(?:.*\n){2}Active: (\w+)", out.decode("latin1")))
    return "A" if act.get("A") == "yes" else ("B" if act.get("B") == "yes" else "?")


def detect_variant(real, moddir):
    def acc(argv, env=None):
        rc, out, _ = real.run("dsh", ["-q", "-w", "x"] + argv, env or {})
        return rc == 0 and parse_dump(out)
    d4 = not acc(["-f", "0"])
    a = acc(["-f", "4294967297"])
    d5 = not (a and a["fanout"] == "1")
    at = not acc(["-u", "5x"])
    dopt = bool(acc(["-d"]))
    rc, _, _ = real.run("dsh", ["-q", "-w", "u" * 300 + "@x"], {})
    wuser = rc != 0
    early = False
    if moddir:
        rc, out, _ = real.run("dsh", ["-L", "-g", "x", "-M", "B"], {"PDSH_MODULE_DIR": moddir}, user=1000)
        early = active_misc(out) == "B"
    return "".join("1" if b else "0" for b in (d4, d5, at, dopt, wuser, early))


# --------------------------------------------------------------------------- the settings where they take effect
USE_SCRIPTS = {
    "rec.sh": "#!/bin/sh\n# rec.sh DIR USER HOST: the user this target is contacted with\nprintf '%s' \"$2\" > \"$1/user.$3\"\n",
    "conc.sh": "#!/bin/sh\n# conc.sh DIR RANK LIFE_MS: how many commands run at the same time\nd=$1; n=$2; life=$3\n: > \"$d/run.$n\"\n"
               "max=0; i=0\nwhile [ $i -lt $life ]; do\n  c=$(ls \"$d\" | grep -c '^run\\.')\n  [ \"$c\" -gt \"$max\" ] && max=$c\n"
               "  sleep 0.05; i=$((i+50))\ndone\necho $max > \"$d/peak.$n\"\nrm -f \"$d/run.$n\"\n",
    "tmo.sh": "#!/bin/sh\n# tmo.sh DIR RANK SECONDS: is a command of that length cut short\n: > \"$1/start.$2\"\nsleep $3\n: > \"$1/end.$2\"\n",
}
# the watchdog looks at the targets every WDOG_POLL = 2 s: a limit of 1 s is enforced after about 2 s, one of 9 s not before
# 10 s; a command of 4.5 s leaves more than 2 s to either side
TMO_SHORT, TMO_LONG, TMO_SLEEP = 1, 9, "4.5"


def own_users(c):
    """[(host, the user the target names itself | None)] of the -w words of a case (plain names, no brackets)"""
    out = []
    for l, v in c.opts:
        if l != "w":
            continue
        for piece in v.split(","):
            rest = piece.split(":", 1)[1] if ":" in piece else piece
            us, host = rest.split("@", 1) if "@" in rest else (None, rest)
            out.append((host, us))
    return out


def gen_use_cases(real, rng, quick):
    """real runs through exec that show each setting WHERE IT TAKES EFFECT: the user every target is contacted with
    (exec's %u) for every order of -l / -R / -w words with and without `type:` and `user@` prefixes; the number of
    commands running at the same time for every source of the fanout; whether a command is cut short for every source
    of the command time-out.  Returns (cases, permutation groups)."""
    cases, groups = [], []
    L, L2, R = ("l", "bar"), ("l", "baz"), ("R", "exec")
    sets = [([L, ("w", "exec:h1")], {}), ([L, R, ("w", "h2")], {}), ([L, ("w", "exec:h1"), ("w", "exec:u2@h3")], {}),
            ([L, R, ("w", "h2"), ("w", "u4@h4")], {}), ([R, ("w", "exec:h1"), ("w", "h2")], {}),
            ([L, ("w", "h2")], {"PDSH_RCMD_TYPE": "exec"}), ([L, ("w", "exec:h1,exec:h5")], {}),
            ([L, R, ("w", "exec:h1,h2,exec:u2@h3,u4@h4")], {}), ([L, ("w", "exec:h1"), ("f", "2"), ("N", None)], {}),
            ([L, L2, ("w", "exec:h1")], {}), ([R, ("w", "exec:u9@h9,exec:h1"), L], {}),
            # the transport a target names itself is the one that is used, wherever -R / PDSH_RCMD_TYPE say otherwise
            ([("R", "rsh"), ("w", "exec:h1"), L], {}), ([("w", "exec:h1,exec:u2@h3")], {"PDSH_RCMD_TYPE": "rsh"})]
    for opts, env in sets:
        grp = []
        for perm in itertools.permutations(opts):
            c = Case("dsh", list(perm), dict(env), [], kind="use")
            c.use, c.group = "user", "use"
            grp.append(c)
        if len({l for l, _ in opts if l in "lR"}) == len([l for l, _ in opts if l in "lR"]):
            groups.append(grp)
        cases += grp
    # fanout in use: more targets than the fanout allows, commands that live long enough to overlap
    for opts, env in (([("f", "2")], {}), ([], {"FANOUT": "3"}), ([("f", "2")], {"FANOUT": "3"}), ([("f", "3")], {"FANOUT": "2"}),
                      ([("f", "3"), ("f", "2")], {}), ([("f", "2"), ("S", None)], {"FANOUT": "1"})):
        for front in (True, False):
            base = [R, ("w", "h[0-6]")]
            c = Case("dsh", (opts + base) if front else (base + opts), dict(env), [], kind="use")
            c.use, c.group = "fanout", "use"
            cases.append(c)
    # ... and the same when few file descriptors are available (RLIMIT_NOFILE below 2 * fanout + 32, the number dsh() would
    # like to have): the fanout in force is still the one that was given -- no silent reduction, no hang
    for opts, env, nofile in (([("f", "2")], {}, 35), ([("f", "2")], {}, 33), ([("f", "2")], {}, 30), ([], {}, 40),
                              ([], {"FANOUT": "3"}, 37), ([("f", "3")], {"FANOUT": "2"}, 36)):
        c = Case("dsh", opts + [R, ("w", "h[0-6]")], dict(env), [], kind="use")
        c.use, c.group, c.nofile = "fanout", "use", nofile
        cases.append(c)
    # command time-out in use
    for opts, env in (([("u", "1")], {}), ([], {"PDSH_COMMAND_TIMEOUT": "1"}), ([("u", "9")], {"PDSH_COMMAND_TIMEOUT": "1"}),
                      ([("u", "1")], {"PDSH_COMMAND_TIMEOUT": "9"}), ([], {}), ([("u", "9"), ("u", "1")], {}), ([("u", "1"), ("u", "9")], {})):
        for front in ((True, False) if opts else (True,)):
            base = [R, ("w", "h[0-1]")]
            c = Case("dsh", (opts + base) if front else (base + opts), dict(env), [], kind="use")
            c.use, c.group = "timeout", "use"
            cases.append(c)
    return cases, groups


def run_use_case(real, ctx, c, i, life=500):
    d = os.path.join(ctx.scratch, "c18use_%d_%d" % (i, life))
    os.makedirs(d, exist_ok=True)
    sdir = os.path.join(ctx.scratch, "c18use_scripts")
    if c.use == "user":
        c.operands = [os.path.join(sdir, "rec.sh"), d, "%u", "%h"]
    elif c.use == "fanout":
        c.operands = [os.path.join(sdir, "conc.sh"), d, "%n", str(life)]
    else:
        c.operands = [os.path.join(sdir, "tmo.sh"), d, "%n", TMO_SLEEP]
    rc, out, err_ = real.run("dsh", c.argv(), c.env, timeout=40, nofile=getattr(c, "nofile", None))
    obs = {}
    if c.use == "user":
        for f in os.listdir(d):
            if f.startswith("user."):
                obs[f[5:]] = open(os.path.join(d, f)).read()
    elif c.use == "fanout":
        peaks = [int(open(os.path.join(d, f)).read().strip() or 0) for f in os.listdir(d) if f.startswith("peak.")]
        obs = {"peak": max(peaks) if peaks else 0, "finished": len(peaks)}
    else:
        obs = {"started": len([f for f in os.listdir(d) if f.startswith("start.")]),
               "ended": len([f for f in os.listdir(d) if f.startswith("end.")])}
    return rc, out, err_, obs



# --------------------------------------------------------------------------- main
def run(ctx):
    rng = ctx.rng
    ctx.gen_consts(["dsh", "opt", "optable"])
    ctx.lean_build([PROPS, "pdshmodel"])
    ctx.audit(PROPS)
    cov = {"evaluations": 0, "distinct_nontrivial": 0, "samples": [],
           "rule": "environment x argument combinations for pdsh/pdcp/rpdcp: (A) every numeric setting x source (command "
                   "line, variable, both) x a numeric-string generator (empty, signed, blanks, hex, overflow at 2^31 2^32 "
                   "2^63 2^64 and beyond, trailing garbage, leading zeros); (B) each option and each variable present/absent "
                   "with valid/hostile values, shuffled, written separate/attached/clustered; (C) all orders of <= 4 options; "
                   "(D) syntax cases (repeats, early exits -L -V -h, unknown options, missing arguments, `--`, options after "
                   "operands; correspondence only); (E) module selection through -L with the conflicting test modules A/B; "
                   "(G) -w words [rcmd_type:][user@]hosts with loaded/unknown transports, short/over-long users, a malformed prefix; "
                   "(H) options registered by modules (-a, -g NAME of the test modules A/B/G) before and after -M; "
                   "(F) real `-R exec` runs for accepted configuration classes and refused ones (trace file: nothing contacted), "
                   "runs without a command (prompt loop: stdin at end of file / one command line); "
                   "(T) deterministic, driven by the table derived from the behaviour of opt.c: every valued setting x personality x "
                   "{absent, command line, variable, both, twice (both orders), twice + variable, valid over hostile and back, too small "
                   "on either side, too small next to every flag / every other valued option}, every flag once and twice; user names "
                   "at LOGIN_NAME_MAX-2..+2 (-l and user@), structurally bad command lines one kind each; "
                   "(U) the settings where they take effect, every source and option position: the user every target is contacted "
                   "with, the number of commands running at once (also with RLIMIT_NOFILE 30..40), a command cut short or not, a host "
                   "whose connect handshake is answered late / never (real rsh module, scripted peer), the program run on the remote "
                   "side of a copy (pcptest.so, wrappers recording their name); "
                   "(W) remote command words (option-like, empty, blank-containing, `--`) vs the listing's Command / Infile(s) / Outfile; "
                   "refusals are classified by the kind of bad INPUT (evidence refusal_kinds), never by message wording; non-trivial = at least one "
                   "setting given by option or variable; distinct = distinct (personality, environment, argv)"}
    dist = {"single": 0, "combo": 0, "orders": 0, "syntax": 0, "misc": 0, "runs": 0, "accepted": 0, "rejected": 0,
            "hang": 0, "info_exit": 0, "pers": {"dsh": 0, "pdcp": 0, "rpdcp": 0}, "classes": {}}
    repo = ctx.repo_build()
    if repo:
        os.chmod(ctx.scratch, 0o755)
        real = Real(ctx, repo)
        rank = rank_from_gen()
        moddir = build_test_modules(ctx, repo)
        bits = detect_variant(real, moddir)
        cov["variant_detected"] = dict(zip(["d4", "d5", "atoi", "dopt", "wuser", "early"], [b == "1" for b in bits]))
        ctx.log("code under test contains repairs:", cov["variant_detected"], "rcmd modules:", real.avail)
        quick = ctx.quick()
        rp_case, rp_kind = load_replay(ctx)
        # (U2) the connect time-out (real rsh module against a scripted peer that answers late / never) and the remote pdcp
        # path (pcptest.so, uid 1000) WHERE THEY ARE USED: mostly waiting, so the group is started now and collected at the end
        peer = bench = None
        try:
            peer = optuse.SlowPeer()
        except OSError as e:
            ctx.notes.append("connect time-out in use: skipped (%s)" % e)
            dist["use_connect"] = "skipped (%s)" % e
        bench = optuse.PathBench(ctx, repo)
        if not bench.ok:
            ctx.notes.append("remote pdcp path in use: skipped (%s)" % bench.why)
            dist["use_path"] = "skipped (%s)" % bench.why
        u2only = rp_case if (rp_case is not None and rp_kind == "use" and getattr(rp_case, "use", "") in ("connect", "path")) else None
        u2pool = concurrent.futures.ThreadPoolExecutor(max_workers=1)
        u2fut = u2pool.submit(optuse.run_all, real, Case, peer, bench, u2only) if (rp_case is None or u2only is not None) else None
        cases = []
        # (A) single-setting sweeps
        for letter in "ftu":
            for src in "ceb":
                for i, v in enumerate(NUMS if not quick else NUMS):
                    pers = ["dsh", "pdcp", "rpdcp"][(i + ord(letter)) % 3] if not quick else ["pdcp", "dsh", "rpdcp", "dsh"][i % 4]
                    c = gen_single(pers, letter, src, v, real.files)
                    c.group = "single"
                    cases.append(c)
        L = real.lmax
        for pers in ("dsh", "pdcp"):
            for v in ["u" * n for n in sorted({0, 1, 16, 17, L - 2, L - 1, L, L + 1, L + 2, L + 44, 5000, 70000})]:
                c = gen_single(pers, "l", "c", v, real.files)
                c.group = "single"
                cases.append(c)
        # values given per target, deterministically: user@ at the limit, unknown / empty / loaded transport, malformed
        for pers in ("dsh", "pdcp"):
            for ty, us, malformed in ([(None, "u" * n, False) for n in (L - 1, L, L + 1, L + 2)] +
                                      [("nosuch", None, False), ("", None, False), ("rsh", None, False), ("rsh", "bob", False),
                                       ("nosuch", "u" * (L + 1), False), (None, None, True)]):
                w = "bob@rsh:foo" if malformed else ((ty + ":" if ty is not None else "") + (us + "@" if us is not None else "") + "foo")
                c = Case(pers, [("w", w), ("q", None)], {}, operands_for(pers, real.files))
                c.wspec = {"types": [ty] if ty is not None and not malformed else [],
                           "users": [us] if us is not None and not malformed else [], "malformed": malformed}
                c.group = "wcoll"
                cases.append(c)
        tab = generated_table()
        for pers in real.avail:
            real.dflt_rcmd[pers] = default_rcmd(real, pers, rank)
        cases += gen_table_cases(tab, real)
        # structurally bad command lines, one kind each
        for pers in ("dsh", "pdcp"):
            for opts, ops, drop in (([("q", None)], None, False), ([("w", "foo"), ("q", None), ("J", None)], None, False),
                                    ([("w", "foo"), ("q", None), ("h", None)], None, False),
                                    ([("w", "foo"), ("q", None), ("f", "")], [], True),
                                    ([("w", "foo"), ("q", None), ("c", None)], None, False),
                                    ([("w", "foo"), ("q", None), ("I", "x")], None, False)):
                c = Case(pers, opts, {}, operands_for(pers, real.files) if ops is None else ops, oracle=False, struct_ok=False)
                if drop:
                    c._drop_last = True
                c.group = "syntax"
                cases.append(c)
        for n in (0, 1):
            c = Case("pdcp", [("w", "foo"), ("q", None)], {}, operands_for("pdcp", real.files)[:n], oracle=False, struct_ok=False)
            c.group = "syntax"
            cases.append(c)
        for t in ("5", "0", "11"):
            for src in "ce":
                c = Case("dsh", [("w", "foo"), ("q", None), ("R", "exec")] + ([("t", t)] if src == "c" else []),
                         {"PDSH_CONNECT_TIMEOUT": t} if src == "e" else {}, ["true"])
                c.group = "single"
                cases.append(c)
        for v in RCMDS:
            for src in "ceb":
                for pers in ("dsh", "pdcp"):
                    c = gen_single(pers, "R", src, v, real.files)
                    if src == "b":
                        c.env[ENVNAME["R"]] = "nosuch"
                    c.group = "single"
                    cases.append(c)
        # (B) combinations
        for _ in range(900 if quick else 20000):
            c = gen_combo(rng, real.files, rng.choice([0.95, 0.95, 0.6, 0.3]))
            c.group = "combo"
            cases.append(c)
        # (C) all orders of <= 4 options
        order_groups = []
        pinned_orders = [("dsh", [("f", "3"), ("t", "4"), ("u", "9"), ("l", "alice")], {}),
                         ("dsh", [("R", "rsh"), ("f", "5"), ("S", None), ("N", None)], {"FANOUT": "7", "PDSH_RCMD_TYPE": "exec"}),
                         ("dsh", [("t", "4"), ("u", "9"), ("b", None)], {"PDSH_COMMAND_TIMEOUT": "13"}),
                         ("pdcp", [("e", "/c1/pdcp"), ("f", "3"), ("r", None), ("p", None)], {"PDSH_REMOTE_PDCP_PATH": "/env/pdcp"}),
                         ("rpdcp", [("e", "/c1/pdcp"), ("l", "bob"), ("u", "9")], {"FANOUT": "7"})]
        for gi in range(len(pinned_orders) + (25 if quick else 400)):
            pers = rng.choice(["dsh", "dsh", "pdcp"])
            letters = rng.sample(["f", "t", "u", "l", "R", "N", "b"] + (["e"] if pers != "dsh" else ["S"]), rng.choice([2, 3, 4]))
            opts = [(l, gen_value(rng, l, 1.0) if l in "ftulRe" else None) for l in letters]
            env = {ENVNAME[l]: gen_value(rng, l, 1.0) for l in "ftuR" if rng.random() < 0.4}
            if gi < len(pinned_orders):
                pers, opts, env = pinned_orders[gi]
            grp = []
            for perm in itertools.permutations(opts):
                c = Case(pers, [("w", "foo"), ("q", None)] + list(perm), env, operands_for(pers, real.files))
                c.group = "orders"
                grp.append(c)
            order_groups.append(grp)
            cases += grp
        # (D) syntax
        for _ in range(350 if quick else 6000):
            c = gen_syntax(rng, real.files)
            c.group = "syntax"
            cases.append(c)
        for _ in range(150 if quick else 3000):
            c = gen_wcoll(rng, real.files)
            c.group = "wcoll"
            cases.append(c)
        for _ in range(60 if quick else 1500):
            c = gen_modes(rng, real.files)
            c.group = "modes"
            cases.append(c)
        # the remote command: the words after the options, joined by blanks (correspondence; the property about the command
        # as such is C09's): several words, words that look like options, empty words, blanks inside words, `--`
        WORDS = ["ls", "-l", "-f", "3", "", " ", "a b", "--", "-", "echo", "%h", "x;y", "'q'", "-w", "foo", "-S", "none2", "\t"]
        cmdsets = [["ls", "-l"], ["echo", "-f", "3"], ["a", "", "b"], [""], ["", ""], ["a b", "c"], ["--", "x"], ["-"], ["-", "x"],
                   ["echo", "--", "-q"], [" "], ["x", " ", "y"], ["uname"], ["a"] * 40]
        for i in range(len(cmdsets) + (40 if quick else 1500)):
            ops = cmdsets[i] if i < len(cmdsets) else [rng.choice(WORDS) for _ in range(rng.choice([1, 2, 2, 3, 5]))]
            opts = [("w", "foo"), ("q", None)] + ([("f", "3")] if i % 3 == 0 else []) + ([("S", None)] if i % 4 == 0 else [])
            dd = i % 2 == 0
            if not dd and ops and ops[0].startswith("-") and ops[0] != "-":
                dd = True           # the first word after the options must not look like one (else it IS one)
            c = Case("dsh", opts, {}, ops, dashdash=dd, oracle=False)
            c.group = "cmdwords"
            cases.append(c)
        for n in range(0, 5):       # PCP: source files and destination
            c = Case("pdcp", [("w", "foo"), ("q", None)], {}, [real.files["src"]] * max(0, n - 1) + ([real.files["dst"]] if n else []),
                     oracle=False)
            c.group = "cmdwords"
            cases.append(c)
        for c in load_corpus(real.files):
            cases.append(c)
        if rp_case is not None:         # --replay: only the recorded case
            cases = [rp_case] if rp_kind == "q" else []
            order_groups = []
            if rp_kind == "orders":     # all orders of the recorded options (after the fixed -w / -q)
                grp = []
                for perm in itertools.permutations(rp_case.opts[2:]):
                    c = Case(rp_case.pers, rp_case.opts[:2] + list(perm), rp_case.env, rp_case.operands)
                    c.group = "orders"
                    grp.append(c)
                cases, order_groups = grp, [grp]
        # oracle domain: every setting option at most once, nothing structurally odd
        for c in cases:
            letters = [l for l, _ in c.opts if l in "ftulRMe"]
            if len(letters) != len(set(letters)) and c.group != "table":
                c.oracle = False
        argvs = []
        for c in cases:
            a = c.argv()
            if getattr(c, "_drop_last", False):
                a = a[:-1]
            argvs.append(a)
        mod = ctx.model("opt", "".join(model_line(real, c, a) + "\n" for c, a in zip(cases, argvs)), args=["model", bits])
        # never start a real remote run from this group: a case for which the model predicts that pdsh would go on
        # to dsh() / the prompt loop (accepted without -q) is not executed
        keep = [not (m.startswith("ok ") and "q=1" not in m.split(" ")) for m in mod]
        dist["skipped_would_run"] = keep.count(False)
        cases = [c for c, k in zip(cases, keep) if k]
        argvs = [a for a, k in zip(argvs, keep) if k]
        mod = [m for m, k in zip(mod, keep) if k]
        with concurrent.futures.ThreadPoolExecutor(max_workers=8) as ex:
            res = list(ex.map(lambda ca: real.run(ca[0].pers, ca[1], ca[0].env), zip(cases, argvs)))
        obs = []
        for (rc, out, err_) in res:
            d = parse_dump(out) if rc == 0 else None
            if rc is None:
                obs.append("hang")
            elif rc != 0:
                obs.append("rej:%d" % (1 if err_.strip() else 0))
            elif d:
                obs.append("acc:%s:%s:%s:%s:%s:%s" % (d["fanout"], d["ctmo"], d["utmo"], hx(d["ruser"]), hx(d["rcmd"]), hx(d["path"])))
            else:
                obs.append(None)
        spec = ctx.model("opt", "".join(spec_line(real, c, o, rank) + "\n" for c, o in zip(cases, obs)), args=["spec"])
        distinct = set()
        seen_dump = {}
        for c, a, (rc, out, err_), m, o, sp in zip(cases, argvs, res, mod, obs, spec):
            cov["evaluations"] += 1
            dist[c.group] = dist.get(c.group, 0) + 1
            dist["pers"][c.pers] += 1
            if any(l in "ftulRMe" for l, _ in c.opts) or c.env:
                distinct.add((c.pers, tuple(sorted(c.env.items())), tuple(a)))
            case = case_record(ctx, c, a, rc, err_, "q")
            d = parse_dump(out) if rc == 0 else None
            if rc is None:
                dist["hang"] += 1
                want = "hang"
            elif rc != 0:
                dist["rejected"] += 1
                want = "exit %d" % rc
            elif d is None:
                dist["info_exit"] += 1
                want = "exit 0"
            else:
                dist["accepted"] += 1
                want = "ok %s %s %s %s %s" % (d["fanout"], d["ctmo"], d["utmo"], hx(d["ruser"]), hx(d["rcmd"]))
                case["dump"] = d
            if rc is not None and rc < 0:
                ctx.offender("crash", "%s killed by signal %d" % (c.pers, -rc), case)
                continue
            # correspondence
            mm = m.split(" ")
            if m.startswith("ok "):
                got = "ok %s %s %s %s %s" % (mm[1], mm[2], mm[3], mm[4], mm[5] if mm[5] != "~" else hx("none"))
                if d is not None and (mm[7] != hx(d["path"]) or "q=1" not in mm):
                    got += " path/q differ: model %s" % m
                if d is not None and assembly_differs(c.pers, d, mm):
                    got += " " + assembly_differs(c.pers, d, mm)
                if "z=1" in mm and "q=1" in mm and d is None and rc == 0:
                    got = want      # pdcp server mode: opt_list prints the PCP section only (no generic settings to compare)
            else:
                got = m
            if got != want:
                ctx.disagreement("opt model vs %s -q" % c.pers, "impl `%s` model `%s`" % (want, m), case)
            if len(cov["samples"]) < 4 and c.group == "combo" and len(a) < 12 and c.env:
                cov["samples"].append({"pers": c.pers, "env": c.env, "argv": a, "exit": rc, "dump": d, "spec": sp})
            # oracle
            if c.oracle and o is not None:
                if sp != "ok" and c.group == "table" and len({l for l, _ in c.opts}) < len(c.opts):
                    # a setting given twice: the text says "the value given on the command line" -- the first or the last
                    # occurrence may be meant (the code takes the last; the model says so): judged against both
                    c.pick_first = True
                    sp = ctx.model("opt", spec_line(real, c, o, rank) + "\n", args=["spec"])[0]
                    c.pick_first = False
                if sp != "ok":
                    for clause in sp.split(" "):
                        if clause == "rejected-valid" and ("d", None) in c.opts:
                            # refused only because of the (valid, documented) -d ?  re-run the same case without it
                            c2 = Case(c.pers, [o for o in c.opts if o != ("d", None)], c.env, c.operands)
                            rc2, out2, _ = real.run(c.pers, c2.argv(), c.env)
                            if rc2 == 0 and parse_dump(out2):
                                clause = "rejected-valid:debug-option"
                        dist["classes"][clause] = dist["classes"].get(clause, 0) + 1
                        ctx.offender(clause, "%s: clause `%s` of the specification is violated: env %s argv %s -> %s" %
                                     (c.pers, clause, c.env, a, want), dict(case, clause=clause, spec_query_obs=o))
        # (C) order independence observed directly: all orders of a group give the same observation
        pos = {id(c): i for i, c in enumerate(cases)}
        for grp in order_groups:
            outs = set()
            for c in grp:
                rc, out, _ = res[pos[id(c)]]
                d = parse_dump(out) if rc == 0 else None
                outs.add((rc, tuple(sorted(d.items())) if d else None))
            if len(outs) > 1:
                c = grp[0]
                ctx.offender("order-dependent", "the same options in another order give another result: env %s options %s: %s"
                             % (c.env, c.opts, list(outs)[:2]),
                             case_record(ctx, c, c.argv(), None, b"", "orders", results=[str(o) for o in outs][:4]))
        # (E) module selection (uid 1000, PDSH_MODULE_DIR = the conflicting test modules A and B)
        if moddir:
            mcases = []
            # deterministic: module selection absent / command line only / variable only / both / twice (both orders)
            for mo, me in (([], None), (["A"], None), (["B"], None), ([], "B"), ([], "A"), (["A"], "B"), (["B"], "A"),
                           (["A", "B"], None), (["B", "A"], None), (["A", "B"], "A"), (["B", "A"], "B"), (["nosuch,B"], "A"),
                           ([], "nosuch,B"), (["B,A"], None), (["A,B"], "B")):
                for front in (True, False):
                    o = [("M", m) for m in mo]
                    o = (o + [("w", "foo"), ("N", None)]) if front else ([("N", None), ("w", "foo")] + o)
                    c = Case("dsh", o, {"PDSH_MISC_MODULES": me} if me is not None else {}, ["true"])
                    c.oracle = len(mo) <= 1
                    mcases.append(c)
            for _ in range(60 if quick else 1200):
                opts = [("w", "foo")]
                for _i in range(rng.choice([0, 1, 1, 1, 2])):
                    opts.append(("M", gen_value(rng, "M", 0)))
                for fl in ("N", "b", "S"):
                    if rng.random() < 0.3:
                        opts.append((fl, None))
                if rng.random() < 0.3:
                    opts.append(("f", rng.choice(VALID_NUMS)))
                # options the modules provide: -a (a flag) and -g NAME (with an argument, unknown to opt_args_early)
                if rng.random() < 0.45:
                    opts.append(("g", rng.choice(["x", "B", "M", "compute"])))
                if rng.random() < 0.25:
                    opts.append(("a", None))
                rng.shuffle(opts)
                env = {}
                if rng.random() < 0.5:
                    env["PDSH_MISC_MODULES"] = gen_value(rng, "M", 0)
                c = Case("dsh", opts, env, ["true"], [rng.choice(["sep", "att"]) for _ in opts])
                c.oracle = len([1 for l, _ in opts if l == "M"]) <= 1
                mcases.append(c)
            if rp_case is not None:
                mcases = [rp_case] if rp_kind == "misc" else []
            margv = [c.argv() for c in mcases]
            with concurrent.futures.ThreadPoolExecutor(max_workers=8) as ex:
                mres = list(ex.map(lambda ca: real.run("dsh", ["-L"] + ca[1], dict(ca[0].env, PDSH_MODULE_DIR=moddir), user=1000),
                                   zip(mcases, margv)))
            mmod = ctx.model("opt", "".join(model_line(real, c, a, avail=[], modopts=MODOPTS) + "\n"
                                            for c, a in zip(mcases, margv)), args=["model", bits])
            mws = [active_misc(out) for rc, out, err_ in mres]
            mspec = ctx.model("opt", "".join(spec_line(real, c, None, rank, mw=w, avail=[]) + "\n" for c, w in zip(mcases, mws)),
                              args=["spec"])
            for c, a, (rc, out, err_), m, w, sp in zip(mcases, margv, mres, mmod, mws, mspec):
                cov["evaluations"] += 1
                dist["misc"] += 1
                distinct.add(("misc", tuple(sorted(c.env.items())), tuple(a)))
                case = case_record(ctx, c, ["-L"] + a, rc, err_, "misc", active=w)
                if "mw=" + w not in m.split(" "):
                    ctx.disagreement("opt model vs pdsh -L (module selection)", "active module %s, model `%s`" % (w, m), case)
                if c.oracle and sp != "ok":
                    for clause in sp.split(" "):
                        if clause.startswith("misc:") and any(l in "ga" for l, _ in c.opts):
                            # wrong only because of an option that a module provides ?  the same case without them
                            c2 = Case("dsh", [o for o in c.opts if o[0] not in "ga"], c.env, c.operands)
                            rc2, out2, _ = real.run("dsh", ["-L"] + c2.argv(), dict(c.env, PDSH_MODULE_DIR=moddir), user=1000)
                            sp2 = ctx.model("opt", spec_line(real, c2, None, rank, mw=active_misc(out2), avail=[]) + "\n",
                                            args=["spec"])[0]
                            if sp2 == "ok":
                                clause += ":module-option-with-argument"
                        ctx.offender(clause, "module selection: clause `%s` violated: env %s argv %s -> active %s" %
                                     (clause, c.env, a, w), dict(case, clause=clause))
            # the second pass: options of the modules are accepted (their handler), unknown ones are not
            qcases = []
            for _ in range(25 if quick else 300):
                opts = [("w", "foo"), ("q", None)]
                for l, v in (("g", "x"), ("a", None), ("j", None), ("f", rng.choice(VALID_NUMS)), ("M", "B"), ("N", None)):
                    if rng.random() < 0.4:
                        opts.append((l, v))
                rng.shuffle(opts)
                qcases.append(Case("dsh", opts, {}, ["true"], [rng.choice(["sep", "att"]) for _ in opts], oracle=False))
            if rp_case is not None:
                qcases = []
            qargv = [c.argv() for c in qcases]
            with concurrent.futures.ThreadPoolExecutor(max_workers=8) as ex:
                qres = list(ex.map(lambda ca: real.run("dsh", ca[1], dict(ca[0].env, PDSH_MODULE_DIR=moddir), user=1000),
                                   zip(qcases, qargv)))
            qmod = ctx.model("opt", "".join(model_line(real, c, a, avail=[], modopts=MODOPTS) + "\n"
                                            for c, a in zip(qcases, qargv)), args=["model", bits])
            for c, a, (rc, out, err_), m in zip(qcases, qargv, qres, qmod):
                cov["evaluations"] += 1
                dist["module_options"] = dist.get("module_options", 0) + 1
                d = parse_dump(out) if rc == 0 else None
                want = "ok %s" % d["fanout"] if d else "exit %s" % rc
                got = "ok %s" % m.split(" ")[1] if m.startswith("ok ") else m
                if got != want:
                    ctx.disagreement("opt model vs pdsh -q with module options", "impl `%s` model `%s`" % (want, m),
                                     case_record(ctx, c, a, rc, err_, "modq"))
        # (F) real runs through exec, 5 s limit: accepted configuration classes + refused ones
        rcases = []
        fan_texts = ["1", "2", "3", "32", "2147483647", "+5", " 5", "007", "4294967297", "-1", "-4294967295", "x", "5x"]
        hang_texts = ["0", "", "4294967296", "-0"]
        picks = fan_texts + (rng.sample(hang_texts, 2) if quick else hang_texts)
        for t in picks:
            for src in ("c", "e"):
                if quick and src == "e" and t not in ("", "3", "4294967297"):
                    continue
                opts = [("R", "exec"), ("w", "h[0-2]")] + ([("f", t)] if src == "c" else [])
                if rng.random() < 0.5:
                    opts.append(("u", rng.choice(["0", "5", "60"])))
                if rng.random() < 0.3:
                    opts.append((rng.choice(["S", "N", "b"]), None))
                rng.shuffle(opts)
                rcases.append(Case("dsh", opts, {"FANOUT": t} if src == "e" else {}, ["/bin/true"], kind="run"))
        for extra in ([("u", "-1")], [("u", "7")], [("l", "u" * 300)], [("t", "5")], [("l", "someone")], [("u", "-4294967295")]):
            rcases.append(Case("dsh", [("R", "exec"), ("w", "h[0-2]")] + extra, {}, ["/bin/true"], kind="run"))
        # no command: the prompt loop reads commands from stdin (at once end of file: nothing is contacted, exit 0; one
        # command line: it is run on the targets)
        for how in ("eof", "cmd", "cmd"):
            c = Case("dsh", [("R", "exec"), ("w", "h[0-2]")] + ([("f", "2")] if how == "cmd" else []), {}, [], kind="run")
            c.interactive = how
            rcases.append(c)
        if rp_case is not None:
            rcases = [rp_case] if rp_kind == "run" else []
        # the remote command leaves a trace, so that "refused before anything is contacted" is observable
        touch = "/usr/bin/touch" if os.path.exists("/usr/bin/touch") else "/bin/touch"
        for i, c in enumerate(rcases):
            c.trace = os.path.join(ctx.scratch, "c18contacted_%d" % i)
            c.operands = [touch, c.trace] if not getattr(c, "interactive", None) else []
        rargv = [c.argv() for c in rcases]
        rmod = ctx.model("opt", "".join(model_line(real, c, a) + "\n" for c, a in zip(rcases, rargv)), args=["model", bits])

        def one_run(cam):
            c, a, m = cam
            # generous limit (and one more try) where the model says the run ends; 5 s where it predicts a hang
            limit = 5 if (m.startswith("ok ") and "term=0" in m.split(" ")) else 25
            data = None
            if getattr(c, "interactive", None) == "cmd":
                data = ("%s %s\n" % (touch, c.trace)).encode()
            return real.run("dsh", a, c.env, timeout=limit, stdin_data=data)

        with concurrent.futures.ThreadPoolExecutor(max_workers=8) as ex:
            rres = list(ex.map(one_run, zip(rcases, rargv, rmod)))
        robs = []
        for c, (rc, out, err_) in zip(rcases, rres):
            robs.append("hang" if rc is None else ("rej:%d" % (1 if err_.strip() else 0) if rc != 0 else None))
        rspec = ctx.model("opt", "".join(spec_line(real, c, o, rank) + "\n" for c, o in zip(rcases, robs)), args=["spec"])
        for c, a, (rc, out, err_), m, o, sp in zip(rcases, rargv, rres, rmod, robs, rspec):
            cov["evaluations"] += 1
            dist["runs"] += 1
            distinct.add(("run", tuple(sorted(c.env.items())), tuple(a)))
            case = case_record(ctx, c, a, rc, err_, "run")
            if rc is None:
                dist["hang"] += 1
            want = "hang" if rc is None else "exit %d" % rc
            if m.startswith("ok "):
                got = "exit 0" if "term=1" in m.split(" ") else "hang"
            else:
                got = m
            if got != want:
                ctx.disagreement("opt model vs pdsh -R exec run", "impl `%s` model `%s`" % (want, m), case)
            contacted = os.path.exists(c.trace)
            how = getattr(c, "interactive", None)
            if how:
                dist["interactive"] = dist.get("interactive", 0) + 1
                nxt = [w for w in m.split(" ") if w.startswith("next=")]
                if nxt != ["next=interactive"]:
                    ctx.disagreement("opt model: no command", "model does not predict the prompt loop: `%s`" % m, case)
                if rc == 0 and contacted != (how == "cmd"):
                    ctx.disagreement("pdsh without a command", "stdin %s: targets %scontacted" %
                                     ("gives one command line" if how == "cmd" else "is at end of file", "" if contacted else "not "), case)
                continue
            if rc is not None and rc != 0 and contacted:
                ctx.offender("refused-but-contacted", "pdsh refused the configuration (exit %d) but had already run the "
                             "remote command: env %s argv %s" % (rc, c.env, a), case)
            if rc == 0 and not contacted:
                ctx.disagreement("pdsh -R exec run", "exit 0 but the remote command left no trace", case)
            if o is not None and sp != "ok":
                for clause in sp.split(" "):
                    ctx.offender(clause, "real run: clause `%s` violated: env %s argv %s -> %s" % (clause, c.env, a, want),
                                 dict(case, clause=clause))
        # (U) the settings where they take effect
        os.makedirs(os.path.join(ctx.scratch, "c18use_scripts"), exist_ok=True)
        for name, text in USE_SCRIPTS.items():
            sp_ = os.path.join(ctx.scratch, "c18use_scripts", name)
            open(sp_, "w").write(text)
            os.chmod(sp_, 0o755)
        ucases, ugroups = gen_use_cases(real, rng, quick)
        if rp_case is not None:
            ucases, ugroups = ([rp_case] if rp_kind == "use" and u2only is None else []), []
        # (the commands of this group mostly sleep: a wider pool keeps the group at about the length of its longest case)
        with concurrent.futures.ThreadPoolExecutor(max_workers=24) as ex:
            ures = list(ex.map(lambda ic: run_use_case(real, ctx, ic[1], ic[0]), enumerate(ucases)))
        umod = ctx.model("opt", "".join(model_line(real, c, c.argv()) + "\n" for c in ucases), args=["model", bits])
        for i, (c, m) in enumerate(zip(ucases, umod)):
            rc, out, err_, obs = ures[i]
            if c.use == "fanout" and rc == 0 and m.startswith("ok ") and obs.get("peak") != min(int(m.split(" ")[1]), 7):
                # fewer (or more) overlapping commands than the fanout in force: once more with longer-lived commands before
                # it is reported (a loaded machine starts the commands further apart)
                ures[i] = run_use_case(real, ctx, c, i, life=2000)
        uspec_in = []
        for c, (rc, out, err_, obs) in zip(ucases, ures):
            base = spec_line(real, c, None, rank)
            if c.use == "user":
                for host, own in own_users(c):
                    uspec_in.append((c, host, base + (" uown=" + hx(own) if own is not None else "") + " uobs=" + hx(obs.get(host, "\x00not-contacted"))))
            elif c.use == "fanout":
                uspec_in.append((c, None, base + " peak=%d ntargets=7" % obs["peak"]))
            else:
                uspec_in.append((c, None, base + " cut=%d short=%d long=%d" % (1 if obs["ended"] < obs["started"] or not obs["started"] else 0,
                                                                               TMO_SHORT, TMO_LONG)))
        uspec = ctx.model("opt", "".join(l + "\n" for _, _, l in uspec_in), args=["spec"])
        seen_case = set()
        for (c, host, line), sp in zip(uspec_in, uspec):
            i = ucases.index(c)
            rc, out, err_, obs = ures[i]
            a = c.argv()
            case = case_record(ctx, c, a, rc, err_, "use", use=c.use, observed=obs, nofile=getattr(c, "nofile", None))
            if id(c) not in seen_case:
                seen_case.add(id(c))
                cov["evaluations"] += 1
                dist["use_" + c.use] = dist.get("use_" + c.use, 0) + 1
                distinct.add(("use", tuple(sorted(c.env.items())), tuple(a)))
                want = "hang" if rc is None else "exit %d" % rc
                got = ("exit 0" if "term=1" in umod[i].split(" ") else "hang") if umod[i].startswith("ok ") else umod[i]
                if got != want:
                    ctx.disagreement("opt model vs pdsh -R exec run (settings in use)", "impl `%s` model `%s`" % (want, umod[i]), case)
                if rc is None and umod[i].startswith("ok ") and "term=1" in umod[i].split(" "):
                    ctx.offender("hang:in-use", "pdsh does not end on an accepted configuration (%s in use%s): env %s argv %s"
                                 % (c.use, ", RLIMIT_NOFILE %s" % c.nofile if getattr(c, "nofile", None) else "", c.env, a[:-4] + ["..."]),
                                 case)
                if rc is not None and rc < 0:
                    ctx.offender("crash", "pdsh killed by signal %d" % -rc, case)
                if c.use == "user" and rc == 0 and umod[i].startswith("ok "):
                    # the model's `contacts` (composition with the registry model of C09): host -> user
                    mu = [w[6:] for w in umod[i].split(" ") if w.startswith("users=")]
                    mmap = {unhex(x.split(":")[0]): unhex(x.split(":")[1]) for x in mu[0].split(",") if ":" in x} if mu else None
                    if mmap != obs:
                        ctx.disagreement("opt model (contacts) vs pdsh -R exec run", "targets contacted as %s, model %s" % (obs, mmap), case)
            if rc != 0:
                continue
            if sp != "ok":
                for clause in sp.split(" "):
                    what = {"user": "target %s was contacted as user %r" % (host, obs.get(host, "<not contacted>")),
                            "fanout": "%s commands ran at the same time%s" % (
                                obs.get("peak"), " (RLIMIT_NOFILE %s)" % c.nofile if getattr(c, "nofile", None) else ""),
                            "timeout": "%s of %s commands of %s s ran to their end" % (obs.get("ended"), obs.get("started"), TMO_SLEEP)}[c.use]
                    ctx.offender(clause, "setting not in force where it takes effect: clause `%s`: env %s argv %s: %s"
                                 % (clause, c.env, a[:-4] + ["..."], what), dict(case, clause=clause, host=host))
        # every order of the same options: every target is contacted as the same user
        upos = {id(c): i for i, c in enumerate(ucases)}
        for grp in ugroups:
            outs = {}
            for c in grp:
                rc, out, err_, obs = ures[upos[id(c)]]
                outs.setdefault((rc, tuple(sorted(obs.items()))), c)
            if len(outs) > 1:
                (k1, c1), (k2, c2) = list(outs.items())[:2]
                ctx.offender("order-dependent:in-use", "the same options in another order contact the targets as other users: %s -> %s, "
                             "%s -> %s" % (c1.argv()[:-4], dict(k1[1]), c2.argv()[:-4], dict(k2[1])),
                             case_record(ctx, c2, c2.argv(), k2[0], b"", "use", use="user", observed=dict(k2[1])))
        # (U2) collected: the connect time-out and the remote pdcp path in use
        u2cases = []
        if u2fut is not None:
            cres, pres = u2fut.result()
            u2pool.shutdown()
            if peer:
                u2cases = judge_u2(ctx, real, rank, bits, cres + pres, peer, bench, cov, dist, distinct)
                peer.close()
            else:
                u2cases = judge_u2(ctx, real, rank, bits, pres, peer, bench, cov, dist, distinct)
        cov["distinct_nontrivial"] = len(distinct)
        # ---- what the run hit: every option letter / variable of the table GENERATED from opt.c, the diagnostics ----
        if rp_case is None:
            groups = [(cases, res), (rcases, rres), (ucases, [(r[0], r[1], r[2]) for r in ures]),
                      ([c for c, _ in u2cases], [(r[0], r[1], r[2]) for _, r in u2cases])]
            if moddir:
                groups += [(mcases, mres), (qcases, qres)]
            hit = {"dsh": set(), "pdcp": set(), "rpdcp": set()}
            envhit, kinds = set(), {}
            for cs_, rs_ in groups:
                for c, (rc, out, err_) in zip(cs_, rs_):
                    hit[c.pers].update(l for l, _ in c.opts)
                    envhit.update(c.env)
                    tags = bad_tags(c, real, tab["optstr"])
                    for kind, names in tags:
                        k = kinds.setdefault(kind, {"cases": 0, "alone": 0, "refused_with_diagnostic": 0, "names_offender": 0})
                        k["cases"] += 1
                        if len(tags) == 1:
                            k["alone"] += 1
                            if rc is not None and rc > 0 and (err_ or b"").strip():
                                k["refused_with_diagnostic"] += 1
                                k["names_offender"] += 1 if names_offender(err_, names) else 0
            allhit = set().union(*hit.values())
            dist["options_hit"] = {k: "".join(sorted(v)) for k, v in hit.items()}
            dist["env_hit"] = sorted(envhit)
            dist["refusal_kinds"] = kinds
            dist["table_letters"] = "".join(sorted(tab["letters"]))
            dist["table_env"] = sorted(tab["env"])
            missing = sorted(tab["letters"] - allhit)
            missing_env = sorted(set(tab["env"]) - envhit)
            # a kind counts as covered when a case whose ONLY defect is of that kind was generated (what the code under
            # test then did with it is the oracle's business, not the generator's)
            missing_kinds = [k for k in REQUIRED_KINDS if kinds.get(k, {}).get("alone", 0) == 0]
            if missing or missing_env or missing_kinds:
                ctx.broken.append(("C-BROKEN", "generator coverage", "not generated in this run: option letters %s, variables %s, "
                                   "kinds of bad value %s (table derived from the behaviour of opt.c)"
                                   % (missing, missing_env, missing_kinds)))
    cov["distribution"] = dist
    cov["traces_validated_against_impl"] = cov["evaluations"]
    return ctx.finish(
        LEVEL, cov,
        assumptions=["the process starts with exactly the generated environment (env -i); WCOLL, DSHPATH unset",
                     "no loaded module registers options of its own (true of this build: rsh, exec)",
                     "argument and variable texts are 7-bit ASCII without NUL",
                     "glibc getopt with POSIXLY_CORRECT, strtoul, strtol, atoi as modelled in Opt/Settings.lean, Base/CInt.lean",
                     "pdcp/rpdcp operands name existing files (a regular source file, a destination directory)",
                     "-T, -x, -w expressions other than a plain host list, `-w -` are outside the model; -z/-Z/-y: correspondence only"],
        trusted_base=["Lean 4.33 kernel", "axioms: propext, Classical.choice, Quot.sound at most (audited per theorem)",
                      "hand-written model Opt/Settings.lean tied to opt.c/main.c by differential execution of the built binaries",
                      "Gen/Dsh.lean, Gen/Opt.lean, Gen/Optable.lean regenerated from /repo (defaults, rcmd ranking; option strings and the "
                      "option / variable table by a behavioural probe: harness/consts/optable.c)",
                      "checks/c18.py (generator, dump parser), vlib/optuse.py (scripted rsh peer, wrapper programs), "
                      "tests/test-modules/pcptest.so, setpriv, prlimit, gcc/make"],
        checker_cmd="lake build PdshVerif.Props.C18 && #print axioms on every theorem of Props/C18.lean")


def judge_u2(ctx, real, rank, bits, results, peer, bench, cov, dist, distinct):
    """the connect time-out / the remote pdcp path where they are USED: model (correspondence) and specification (oracle);
    a case that fails is run once more, alone, before anything is said (the connect cases are a matter of seconds)"""
    final = []
    retries = 0
    for c, r in results:
        for attempt in (0, 1):
            verdicts = judge_u2_case(ctx, real, rank, bits, c, r, peer, bench)
            if not verdicts or attempt == 1 or retries >= 3:      # (many failures at once are not a matter of timing)
                break
            retries += 1
            r = optuse.run_connect_case(real, peer, c) if c.use == "connect" else optuse.run_path_case(bench, c, 1000 + len(final))
        for kind, a, b, case in verdicts:
            if kind == "disagreement":
                ctx.disagreement(a, b, case)
            else:
                ctx.offender(a, b, case)
        final.append((c, r))
        cov["evaluations"] += 1
        dist["use_" + c.use] = dist.get("use_" + c.use, 0) + 1
        distinct.add(("use", c.use, c.pers, tuple(sorted(c.env0.items())), tuple(c.opts0)))
    return final


def judge_u2_case(ctx, real, rank, bits, c, r, peer, bench):
    """-> list of ("disagreement" | "offender", signature / what, text, case)"""
    rc, out, err_, obs = r
    a = c.argv()
    out_ = []
    ml = model_line(real, c, a)
    sl = spec_line(real, c, None, rank)
    if c.use == "path":
        fix = lambda l: re.sub(r"avail=\S*", "avail=" + hx("pcptest"), re.sub(r"prog=\S*", "prog=" + hx(c.dflt_path), l))
        ml, sl = fix(ml), re.sub(r" dfr=\S*", "", fix(sl))
    m = ctx.model("opt", ml + "\n", args=["model", bits])[0]
    case = case_record(ctx, c, a, rc, err_, "use", use=c.use, observed=obs, ckind=getattr(c, "ckind", None))
    case["opts"], case["env"] = [list(o) for o in c.opts0], c.env0          # as generated (placeholders), for --replay
    want = "hang" if rc is None else "exit %d" % rc
    got = ("exit 0" if "term=1" in m.split(" ") else "hang") if m.startswith("ok ") else m
    if got != want:
        out_.append(("disagreement", "opt model vs real run (%s in use)" % c.use, "impl `%s` model `%s`" % (want, m), case))
        return out_
    if rc is not None and rc < 0:
        out_.append(("offender", "crash", "%s killed by signal %d" % (c.pers, -rc), case))
        return out_
    if rc != 0:
        return out_
    mm = m.split(" ")
    if c.use == "connect":
        sl += optuse.connect_spec_words(c, obs, real.dflt_ctmo)
        # correspondence: the limit the model stores decides what is observed
        lim = int(mm[2])
        if c.ckind == "slow":
            cut = not obs["answered"]
            if (lim != 0 and lim <= optuse.CT_SHORT and not cut) or ((lim == 0 or lim >= optuse.CT_LONG) and cut):
                out_.append(("disagreement", "opt model vs pdsh -R rsh (connect time-out in use)",
                             "limit in the model %d s, the host that answers after %.1f s was %sgiven up first"
                             % (lim, optuse.SLOW, "" if cut else "not "), case))
        what = "a host answering the connect handshake after %.1f s was %sgiven up before it answered" % (
            optuse.SLOW, "not " if obs["answered"] else "") if c.ckind == "slow" else \
            "a host that never answers was %sgiven up, pdsh ended after %.1f s" % ("not " if obs["answered"] else "", obs["wall_tenths"] / 10)
    else:
        progs = obs["programs"]
        if len(progs) != 1 or obs["invocations"] != 2 or obs["arrived"] != 2:
            out_.append(("disagreement", "%s -R pcptest run (remote program in use)" % c.pers,
                         "two targets: programs run %s (%d invocations), files arrived on %d" % (progs, obs["invocations"], obs["arrived"]), case))
            return out_
        if mm[7] != hx(progs[0]):
            out_.append(("disagreement", "opt model vs %s -R pcptest (remote program in use)" % c.pers,
                         "program run on the targets %s, model %s" % (progs[0], unhex(mm[7])), case))
        sl += " pobs=" + hx(progs[0])
        what = "the program run on the targets was %s" % progs[0].replace(ctx.scratch, "@SCRATCH@")
    sp = ctx.model("opt", sl + "\n", args=["spec"])[0]
    if sp != "ok":
        for clause in sp.split(" "):
            out_.append(("offender", clause, "setting not in force where it takes effect: clause `%s`: env %s argv %s: %s"
                         % (clause, c.env, a[:-1] + ["..."], what), dict(case, clause=clause)))
    return out_


def load_corpus(files):
    """corpus/C18/*: one case per line: `pers | NAME=value ... | argv words` (python literal lists)"""
    import ast
    d = os.path.join(VERIF, "corpus", "C18")
    out = []
    if os.path.isdir(d):
        for f in sorted(os.listdir(d)):
            for l in open(os.path.join(d, f)):
                l = l.strip()
                if not l or l.startswith("#"):
                    continue
                pers, env, opts = l.split("|")
                c = Case(pers.strip(), [tuple(o) for o in ast.literal_eval(opts.strip())], ast.literal_eval(env.strip()),
                         operands_for(pers.strip(), files))
                c.group = "corpus"
                out.append(c)
    return out
