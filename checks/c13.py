"""C13  The circular buffer is a loss-free FIFO with exact drop accounting.

proof:          lean/PdshVerif/Props/C13.lean (index model refines the FIFO spec; invariant)
correspondence: real src/pdsh/cbuf.c (assertions+ASan/UBSan flavour and shipped flavour)
                vs `pdshmodel cbuf model` on generated op sequences
oracle:         real cbuf.c vs `pdshmodel cbuf spec` (the plain FIFO), same sequences
"""
import os

from vlib.common import HARNESS, hexs
from vlib.seqrun import run_batch, ddmin

LEVEL = "proof"
PROPS = "PdshVerif.Props.C13"
MANIFEST = dict(
    engine="cbuf",
    technique="Lean 4 proof (index model refines FIFO spec, invariant by induction over operations) + "
              "differential correspondence of cbuf.c against the compiled model",
    text="Theorems in lean/PdshVerif/Props/C13.lean about the index-level model of cbuf.c (all op sequences, "
         "all sizes, all three modes, EVERY admissible growth policy of cbuf_grow; the property's operation list "
         "and, beyond it, every function cbuf.h declares: replay/rewind and their line-level forms, the *_to_fd "
         "calls on a descriptor that takes only some bytes, copy/move between two buffers, all getters; any "
         "concurrent history under the buffer's mutex equals the sequential history of its calls); the protocol "
         "driver executes exactly the step functions the theorems are about, following at every step the "
         "capacity the code under test reported (the growth policy is learnt behaviourally); the model is "
         "executed against the real cbuf.c (assertions+ASan and shipped flavour) on a deterministic core of op "
         "histories plus random ones, and the real code is also compared op by op with the FIFO specification "
         "(with its history of replayable bytes), which yields the failing history as replay; every public call "
         "is checked for the locking discipline.  The two-lock protocol of cbuf_copy/cbuf_move is proved "
         "deadlock-free for any threads, calls, directions and schedules (ordered acquisition; the unordered "
         "protocol deadlocks: witness); on the real code every two-buffer call must take the two mutexes in the "
         "same order as every earlier one, and two real threads copy and move in opposite directions under a "
         "watchdog (no deadlock, no byte lost or duplicated).  alloc-size/minsize/maxsize are proved constants "
         "of the buffer; every additive int statement of cbuf.c (list regenerated from the source) is "
         "classified by a bound class proved safe for max <= INT_MAX/2.",
    design_ref="DESIGN.md section 5 C13",
    note="Lean 4.33 kernel; axioms propext/Classical.choice/Quot.sound at most (audited per theorem every run); "
         "hand-written model tied to cbuf.c by differential execution of the real source built from /repo's "
         "working tree plus constants and the list of prototypes of cbuf.h regenerated from /repo; "
         "read(2)/pipe, memcpy/memmove/realloc modelled not verified; the mutex is modelled as the discipline "
         "lock / critical section / unlock, which the harness checks on every call (pthread semantics trusted); "
         "harness, generators, gcc, ASan/UBSan trusted")
CHUNK = 1000


class Guide:
    """generation guidance only (never used for a verdict): approximate used/size"""

    def __init__(self, mn, mx, meta):
        self.mn, self.mx, self.size, self.alloc, self.used, self.mode = mn, max(mx, mn), mn, mn + meta, 0, 2

    def room(self, n):
        free = self.size - self.used
        if n > free and self.size < self.mx:
            meta = self.alloc - self.size
            m = self.alloc + (n - free)
            m = m + (CHUNK - m % CHUNK)
            m = min(m, self.mx + meta)
            self.alloc, self.size = m, m - meta

    def wrote(self, n):
        self.room(n)
        free = self.size - self.used
        if self.mode == 0:
            n = min(n, free)
        elif self.mode == 1:
            n = min(n, self.size)
        self.used = min(self.size, self.used + n)

    def took(self, n):
        self.used = max(0, self.used - max(0, n))


def gen_bytes(rng, n, nul_ok=True):
    style = rng.random()
    out = bytearray()
    for _ in range(n):
        r = rng.random()
        if r < (0.25 if style < 0.7 else 0.03):
            out.append(10)
        elif r < 0.9:
            out.append(rng.choice(b"abcxyz019 "))
        else:
            b = rng.randrange(256)
            if b == 0 and not nul_ok:
                b = 1
            out.append(b)
    return bytes(out)


def pick_len(rng, g):
    free = g.size - g.used
    c = rng.random()
    if c < 0.35:
        cand = [free - 1, free, free + 1, g.size, g.size + 1, 2 * g.size + 3, g.used, g.used + 1, 1, 2]
        return max(0, rng.choice(cand))
    if c < 0.8:
        return rng.randrange(0, max(2, min(g.size + 4, 64)))
    return rng.randrange(0, max(2, min(3 * g.mx, 5000)))


def gen_seq(rng, meta, nops, shape):
    if shape == "tiny":
        mn = rng.randrange(1, 9)
        mx = rng.choice([mn, mn, rng.randrange(mn, 41), rng.randrange(1, 41)])
    elif shape == "fixed":
        mn = rng.randrange(1, 24)
        mx = rng.choice([mn, 0, -3, mn - 1])
    elif shape == "chunk":
        mn = rng.randrange(1, 80)
        mx = rng.choice([rng.randrange(900, 1100), rng.randrange(1900, 2100), rng.randrange(mn, 5000), 983, 999, 1000, 1999, 2999])
    else:  # production sizes used by dsh.c
        mn, mx = 64, 131072
    seq = ["create %d %d %d" % (mn, mx, meta)]
    g = Guide(mn, mx, meta)
    if rng.random() < 0.5:
        g.mode = rng.choice([0, 1, 2])
        seq.append("opt %d" % g.mode)
    two = rng.random() < 0.35
    g2 = None
    if two:
        # a second buffer (own size bounds and mode) for cbuf_copy / cbuf_move
        mn2 = rng.choice([mn, rng.randrange(1, 9), rng.randrange(1, 80)])
        mx2 = rng.choice([mn2, mx, rng.randrange(1, 41), rng.randrange(mn2, mn2 + 2100)])
        seq.append("sel 1")
        seq.append("create %d %d %d" % (mn2, mx2, meta))
        g2 = Guide(mn2, mx2, meta)
        if rng.random() < 0.6:
            g2.mode = rng.choice([0, 1, 2])
            seq.append("opt %d" % g2.mode)
        g.idx, g2.idx = 0, 1
        if rng.random() < 0.7:
            seq.append("sel 0")
        else:
            g, g2 = g2, g
    for _ in range(nops):
        r0 = rng.random()
        if r0 < (0.34 if two else 0.2):
            # replay side, descriptor sinks with a capacity, buffer-to-buffer
            k = rng.random()
            cap = rng.choice([0, 1, 2, 3, g.used - 1, g.used, g.used + 1, g.size, 1 << 20, 1 << 20])
            cap = max(0, cap)
            if two and k < 0.40:
                n = rng.choice([pick_len(rng, g), pick_len(rng, g), -1, -1, 0, -2, g.used, g.used + 1, g2.size - g2.used,
                                g2.size - g2.used + 1, g2.size + 1])
                n = max(-2, n)
                mv = rng.random() < 0.5
                seq.append("%s %d" % ("move" if mv else "copy", n))
                cnt = g.used if n == -1 else max(0, min(n, g.used))
                g2.wrote(cnt)
                if mv:
                    g.took(cnt)
            elif two and k < 0.52:
                g, g2 = g2, g
                seq.append("sel %d" % g.idx)
            elif k < 0.57:
                seq.append("yline %d %d" % (rng.choice([pick_len(rng, g), pick_len(rng, g), 0, 1, 2, -1, g.size + 1]),
                                            rng.choice([-1, -1, 1, 1, 2, 3, 0, -2, 7])))
            elif k < 0.60:
                ln = rng.choice([pick_len(rng, g), 0, 1, 2, -1, g.size])
                seq.append("wrline %d %d" % (ln, rng.choice([-1, -1, 1, 1, 2, 0, -2])))
                g.used = min(g.size, g.used + max(0, ln) // 2)
            elif k < 0.64:
                seq.append("replay %d" % rng.choice([pick_len(rng, g), 1, 2, 3, g.size, g.size + 1, 0, -1, -2]))
            elif k < 0.78:
                n = rng.choice([pick_len(rng, g), 1, 2, 3, -1, -1, 0, -2, g.size])
                seq.append("rewind %d" % n)
                g.used = min(g.size, g.used + (g.size if n == -1 else max(0, n)) // 2)
            elif k < 0.86:
                seq.append("pfd %d %d" % (rng.choice([pick_len(rng, g), -1, -1, 0, -2, g.used]), cap))
            elif k < 0.94:
                n = rng.choice([pick_len(rng, g), -1, -1, 0, -2, g.used])
                seq.append("rfd %d %d" % (n, cap))
                g.took(min(cap, g.used if n == -1 else max(0, n)))
            else:
                seq.append("yfd %d %d" % (rng.choice([pick_len(rng, g), -1, -1, 0, -2, 1, 2, g.size]), cap))
            continue
        r = rng.random()
        if r < 0.30:
            n = pick_len(rng, g)
            seq.append("write " + hexs(gen_bytes(rng, n)))
            g.wrote(n)
        elif r < 0.42:
            ln = rng.choice([-1, -1, -1, pick_len(rng, g), pick_len(rng, g), 0, -2])
            av = pick_len(rng, g) if rng.random() < 0.8 else 0
            if shape == "prod" and rng.random() < 0.5:
                av = rng.choice([63, 64, 65, 999, 1000, 1001, 5000])
            eof = rng.choice([0, 0, 1])
            seq.append("wfd %d %s %d" % (ln, hexs(gen_bytes(rng, av)), eof))
            req = (g.size - g.used or min(g.size, CHUNK)) if ln == -1 else max(ln, 0)
            g.wrote(min(req, av))
        elif r < 0.48:
            n = pick_len(rng, g)
            seq.append("wline " + hexs(gen_bytes(rng, n, nul_ok=False)))
            g.wrote(n + 1)
        elif r < 0.62:
            n = rng.choice([pick_len(rng, g), pick_len(rng, g), -1, 0])
            seq.append("read %d" % n)
            g.took(n)
        elif r < 0.67:
            seq.append("peek %d" % rng.choice([pick_len(rng, g), -1, 0, g.used]))
        elif r < 0.74:
            n = rng.choice([pick_len(rng, g), -1, 0, -2, pick_len(rng, g)])
            seq.append("drop %d" % n)
            g.took(g.used if n == -1 else n)
        elif r < 0.86:
            ln = rng.choice([pick_len(rng, g), pick_len(rng, g), 0, 1, 2, -1, g.used + 1])
            lines = rng.choice([-1, -1, 1, 1, 2, 3, 0, -2, 7])
            seq.append("%s %d %d" % (rng.choice(["rline", "rline", "pline"]), ln, lines))
            g.took(min(g.used, max(ln, 0)) // 2)
        elif r < 0.90:
            ln = rng.choice([pick_len(rng, g), 0, 1, -1, g.used])
            seq.append("dline %d %d" % (ln, rng.choice([-1, 1, 2, 0, -2])))
        elif r < 0.93:
            n = rng.choice([pick_len(rng, g), -1, -1, 0, -2])
            seq.append("rfd %d" % n)
            g.took(g.used if n == -1 else n)
        elif r < 0.97:
            g.mode = rng.choice([0, 1, 2, 2, 3])
            seq.append("opt %d" % g.mode)
            if g.mode == 3:
                g.mode = 2
        else:
            seq.append("flush")
            g.used = 0
    return seq


def nontrivial(ans):
    """a sequence is non-trivial when it reached a grow or an overwrite (drop count > 0)"""
    sizes = set()
    dropped = False
    for a in ans:
        if " | " in a:
            head, tail = a.split(" | ", 1)
            sizes.add((tail.split() or ["?"])[0])
            h = head.split()
            if len(h) == 2 and h[1].isdigit() and int(h[1]) > 0 and h[0].lstrip("-").isdigit():
                dropped = True
    return len(sizes) > 1 or dropped


def run(ctx):
    rng = ctx.rng
    ctx.gen_consts(["cbuf"])
    ctx.lean_build([PROPS, "pdshmodel"])
    ctx.audit(PROPS)
    exe_dbg = os.path.join(ctx.scratch, "cbuf_dbg")
    exe_rel = os.path.join(ctx.scratch, "cbuf_rel")
    ok1 = ctx.cc(exe_dbg, [os.path.join(HARNESS, "cbuf_harness.c")], san=True, assertions=True)
    ok2 = ctx.cc(exe_rel, [os.path.join(HARNESS, "cbuf_harness.c")], san=True, assertions=False)
    cov = {"evaluations": 0, "distinct_nontrivial": 0, "samples": [],
           "rule": "FIRST a deterministic core, identical at every seed (blocks `core:*` of the distribution): "
                   "descriptor calls whose source/sink stops exactly at (and one byte before/after) every chunk "
                   "boundary of the copy loop after a partial transfer, at every wrap position, with EAGAIN / EIO / "
                   "EPIPE / EOF behind it (requests that cross the array end once and several times); every call "
                   "that takes a length with n = used-1, used, used+1, 2*used+3, -1 (replay side: relative to the "
                   "replayable bytes) at every wrap position and fill level, two-buffer calls in both directions "
                   "between the same buffers; OUT-PARAMETERS: *ndropped is poisoned (0x5a5a5a5a) before EVERY call and "
                   "reported, incl. the zero-length calls and the calls refused with EINVAL (op `refused K`: NULL "
                   "source, negative length, invalid descriptor, src == dst, write_line(NULL)) directly behind a "
                   "write that dropped bytes, at every wrap position / fill / mode, and every writing call with a "
                   "NULL out-parameter (`nullnd 1`); all "
                   "sequences of length <= 4 over a 9-op alphabet on a min=2,max=5 buffer per mode; every public "
                   "operation with boundary arguments (lines -1/0/1/many, lengths around every line length, "
                   "descriptor capacities 0.., short reads 0..request, EOF/EAGAIN, EINTR before every read/write) x "
                   "every wrap position x fill level and newline layout x every overwrite mode of a 3/3 and a "
                   "2..5 buffer; copy/move at every wrap position into growing/wrapping destinations; sizes around "
                   "every growth step up to the maximum per mode and writing call; growth capped by the maximum "
                   "with space already free; short reads on a buffer that cannot grow; cbuf_grow from every index "
                   "relation (all prefixes write a, read b, write c, read d); the dsh.c buffer 64..131072 filled "
                   "through all growth steps; the pinned corpus/C13 cases.  THEN random "
                   "op sequences over create/opt/write/write_from_fd/write_line/read/read_to_fd/peek/drop/"
                   "read_line/peek_line/drop_line/flush/replay/rewind/peek_to_fd/read_to_fd/replay_to_fd (descriptor "
                   "sinks that take 0, 1, .., used-1, used, used+1 or all bytes and then fail with EAGAIN) and, on a "
                   "pair of buffers with independent bounds and modes (35% of the sequences), copy/move, "
                   "with boundary-biased lengths (free-1, free, free+1, size, "
                   "size+1, 2*size+3), all three overwrite modes, buffer shapes tiny/min=max/chunk-growth/"
                   "production(64,131072); non-trivial = the sequence reached a buffer growth or an overwrite "
                   "(ndropped>0); distinct = distinct op-sequence text.  LAST the lock-order stage: two real "
                   "threads, 3000 iterations each (thorough: 60000) of write / copy or move to the other buffer / "
                   "read on two NO_DROP buffers in opposite directions, rendezvous after the first lock of every "
                   "two-lock call, watchdog"}
    if ok1 and ok2:
        import subprocess
        flavours = []
        for exe, name in ((exe_dbg, "assert+asan"), (exe_rel, "shipped(NDEBUG)+asan")):
            meta = int(subprocess.run([exe, "--meta"], stdout=subprocess.PIPE).stdout.decode().strip())
            flavours.append((exe, name, meta))
        nseq = 500 if ctx.quick() else 12000
        corpus = load_corpus()
        replay_seq = None
        replay_mt = False
        if getattr(ctx, "replay", None):
            import json
            rj = json.load(open(ctx.replay))
            rc = rj.get("case")
            if rc is None:
                ctx.log("replay file records a broken theorem/correspondence, not an input: running the normal check")
            elif isinstance(rc, dict) and "mt" in rc:
                # a deadlock / lock-order replay: only the two-thread stage is re-run
                replay_seq, replay_mt = [], True
                nseq, corpus = 0, []
            else:
                replay_seq = rc["ops"] if isinstance(rc, dict) else rc
                nseq, corpus = 0, []
        dist = {"ops": 0, "grow_or_overwrite": 0, "shapes": {}, "crash": 0, "op_kinds": {}, "blocks": {},
                "lock_discipline_calls_checked": 0}
        distinct = set()
        for exe, name, meta in flavours:
            # named blocks, processed in this order; the deterministic core (the same in every run,
            # whatever VERIF_SEED is) comes before the random sequences
            blocks = [("corpus", [[l.replace("META", str(meta)) for l in s] for s in corpus])]
            if replay_mt:
                pass
            elif replay_seq:
                # a replay re-runs exactly the recorded op sequence (create lines re-targeted to this flavour)
                blocks.append(("replay", [[" ".join(l.split()[:3] + [str(meta)]) if l.startswith("create ") else l
                                           for l in replay_seq]]))
            else:
                full = name.startswith("assert") or ctx.tier == "thorough"
                blocks += core_blocks(meta, full)
            rnd = []
            for i in range(nseq):
                shape = rng.choices(["tiny", "fixed", "chunk", "prod"], [50, 15, 25, 10])[0]
                dist["shapes"][shape] = dist["shapes"].get(shape, 0) + 1
                rnd.append(gen_seq(rng, meta, rng.randrange(4, 40 if shape != "prod" else 14), shape))
            blocks.append(("random", rnd))
            if ctx.tier == "thorough" and name.startswith("assert") and replay_seq is None:
                blocks.append(("exhaustive-small", exhaustive_small(meta)))
            found = 0
            for bname, seqs in blocks:
                if not seqs:
                    continue
                if found >= 3 and bname != "random":
                    # concrete replays exist already: do not grind through thousands of further
                    # deterministic sequences of a tree that fails on most of them
                    dist["blocks"][bname + "/" + name] = "skipped after %d findings" % found
                    continue
                found += process_block(ctx, cov, dist, distinct, exe, name, bname, seqs)
        if replay_seq is None or replay_mt:
            for exe, name, meta in flavours:
                lock_order_stage(ctx, dist, exe, name)
        cov["distinct_nontrivial"] = len(distinct)
        cov["distribution"] = dist
        cov["traces_validated_against_impl"] = cov["evaluations"]
    return ctx.finish(
        LEVEL, cov,
        assumptions=["read(2)/pipe semantics as modelled by Src.fd (available bytes, then EAGAIN or EOF)",
                     "memcpy/memmove/realloc behave per ISO C; realloc never fails",
                     "pthread mutexes are mutually exclusive; every public function of cbuf.c is one critical "
                     "section of the buffer's mutex (checked on every call the harness makes, not proved of the C text)",
                     "cbuf_copy / cbuf_move take their two mutexes in one fixed total order (checked on every call of "
                     "every history and by the two-thread run; LockOrder.lean proves that this excludes deadlock)",
                     "growth policy of cbuf_grow: any choice that covers the request or reaches the maximum "
                     "(Admissible); the choices of the code under test are observed, not assumed"],
        trusted_base=["Lean 4.33 kernel", "axioms: propext, Classical.choice, Quot.sound at most (audited per theorem)",
                      "hand-written index model Cbuf/Model.lean tied to cbuf.c by differential execution",
                      "Gen/Cbuf.lean regenerated from /repo (CBUF_CHUNK, mode codes, every prototype of cbuf.h)",
                      "harness/cbuf_harness.c, vlib/, gcc, ASan/UBSan"],
        checker_cmd="lake build PdshVerif.Props.C13 && #print axioms on every theorem of Props/C13.lean")


def lock_order_stage(ctx, dist, exe, name):
    """cbuf_copy / cbuf_move take TWO mutexes: two real threads copy and move in opposite directions
    between two NO_DROP buffers (harness `--mt`), interleaved with single-buffer calls.  Oracle
    (policy-free): the run ends (no deadlock: PdshVerif/Cbuf/LockOrder.lean proves that ordered
    locking cannot deadlock and exhibits the deadlock of the unordered protocol), the two mutexes
    were never taken in two different orders, no byte was lost or duplicated (every copy / move is
    one critical section of both buffers), no call failed other than with ENOSPC."""
    import subprocess
    iters = 3000 if ctx.quick() else 60000
    env = dict(os.environ, ASAN_OPTIONS="detect_leaks=0")
    out, rc = "", None
    for attempt in (0, 1):      # a timeout alone is re-tried once before it is reported
        try:
            p = subprocess.run([exe, "--mt", str(iters), "20"], stdout=subprocess.PIPE, stderr=subprocess.PIPE,
                               timeout=90, env=env)
            out, rc = p.stdout.decode("utf-8", "replace").strip(), p.returncode
            err = p.stderr.decode("utf-8", "replace")[-800:]
            break
        except subprocess.TimeoutExpired:
            out, rc, err = "", -999, "TIMEOUT (the watchdog of the harness did not fire either)"
    dist["lock_order"] = dist.get("lock_order", {})
    dist["lock_order"][name] = out[:300] or ("rc=%s" % rc)
    case = {"flavour": name, "mt": "--mt %d 20" % iters, "impl": out[:400], "rc": rc}
    if rc == 0 and out.startswith("mt done") and " conserved=1 " in out and " failed=0 " in out and " order_inverted=0 " in out:
        return 0
    if "DEADLOCK" in out or rc == -999:
        ctx.offender("deadlock", "two threads copying / moving between two buffers in opposite directions block each "
                     "other for ever (%s): %s" % (name, out[:200] or err), case)
    elif out.startswith("mt done") and " order_inverted=1 " in out:
        ctx.offender("lock-order", "cbuf_copy / cbuf_move took the same two mutexes in two different orders (%s): a "
                     "deadlock is possible: %s" % (name, out[:200]), case)
    elif out.startswith("mt done"):
        ctx.offender("mt-atomicity", "bytes lost / duplicated or calls failed when two threads copy and move between "
                     "two NO_DROP buffers (%s): %s" % (name, out[:300]), case)
    else:
        ctx.offender("crash", "cbuf.c aborts (assertion/sanitizer/fatal) in the two-thread run (%s): rc=%s %s" %
                     (name, rc, (out + " " + err)[-600:]), case)
    return 1


def run_batch_capped(cmd, seqs, env, max_crashes=3, timeout=600):
    """like vlib.seqrun.run_batch (one process, restarted behind a sequence that crashed it), but
    gives up after `max_crashes` crashes: returns the results of the sequences actually run.  A tree
    that aborts on thousands of sequences would otherwise cost one process restart per abort."""
    import subprocess
    results = []
    start = 0
    crashes = 0
    tried_timeout = False
    while start < len(seqs) and crashes < max_crashes:
        chunk = seqs[start:]
        text = "".join(l + "\n" for s in chunk for l in s)
        try:
            p = subprocess.run(cmd, input=text.encode(), stdout=subprocess.PIPE, stderr=subprocess.PIPE,
                               timeout=timeout, env=env)
            rc, out, err = p.returncode, p.stdout, p.stderr
        except subprocess.TimeoutExpired as e:
            if not tried_timeout:
                tried_timeout = True        # a timeout alone is re-tried once before it is reported
                continue
            rc, out, err = -999, e.stdout or b"", b"TIMEOUT"
        lines = out.decode("utf-8", "replace").split("\n")
        if lines and lines[-1] == "":
            lines.pop()
        pos = 0
        stopped = False
        for k, s in enumerate(chunk):
            if pos + len(s) <= len(lines):
                results.append((lines[pos:pos + len(s)], None))
                pos += len(s)
            else:
                results.append((lines[pos:], "rc=%s %s" % (rc, err.decode("utf-8", "replace")[-1500:])))
                crashes += 1
                start = start + k + 1
                stopped = True
                break
        if not stopped:
            if rc != 0 and results:
                a, _ = results[-1]
                results[-1] = (a, "rc=%s %s" % (rc, err.decode("utf-8", "replace")[-1500:]))
            break
    return results


def process_block(ctx, cov, dist, distinct, exe, name, bname, seqs):
    """run one block of sequences on the implementation, the model and the spec; returns the
    number of findings (offenders and disagreements) it produced"""
    found = 0
    # every sequence starts from nothing (both buffers gone, first buffer selected): the three
    # runs stay in step even when the implementation's process had to be restarted after a crash
    seqs = [s if s and s[0] == "reset" else ["reset"] + s for s in seqs]
    impl = run_batch_capped([exe], seqs, env=dict(os.environ, ASAN_OPTIONS="detect_leaks=0"))
    if len(impl) < len(seqs):
        dist["blocks"][bname + "/" + name + " (cut after 3 crashes)"] = len(impl)
        seqs = seqs[:len(impl)]
    # model and spec both get the op lines annotated with the implementation's own answer
    # (`@ RET SIZE`): the spec takes them as the choices the property leaves open, the model
    # FOLLOWS the observed capacity (growth policy = parameter of the model, learnt
    # behaviourally; an inadmissible choice makes model and spec disagree with the code)
    text = annotate(seqs, [a for a, _ in impl])
    mlines = ctx.model("cbuf", text, args=["model"])
    slines = ctx.model("cbuf", text, args=["spec"])
    dist["blocks"][bname + "/" + name] = len(seqs)
    pos = 0
    for s, (ans, crash) in zip(seqs, impl):
        if found >= 25:
            break       # the replays exist; do not record thousands of further failing sequences
        m = mlines[pos:pos + len(s)]
        sp = slines[pos:pos + len(s)]
        pos += len(s)
        cov["evaluations"] += 1
        dist["ops"] += len(s)
        for l, a_ in zip(s, ans):
            k = l.split(None, 1)[0]
            dist["op_kinds"][k] = dist["op_kinds"].get(k, 0) + 1
            if a_ in ("bad-op", "no-cbuf"):
                dist["refused_lines"] = dist.get("refused_lines", 0) + 1
        # every answer line with a stat tail stands for 8 public calls whose locking was checked
        dist["lock_discipline_calls_checked"] += 8 * sum(1 for a_ in ans if " | " in a_)
        if nontrivial(ans):
            key = hash("\n".join(s))
            if key not in distinct:
                distinct.add(key)
                dist["grow_or_overwrite"] += 1
        if len(cov["samples"]) < 3 and len(s) < 12 and nontrivial(ans) and bname == "random":
            cov["samples"].append({"flavour": name, "ops": s, "impl": ans})
        if crash is not None:
            dist["crash"] += 1
            found += 1
            k = len(ans)
            ctx.offender("crash", "cbuf.c aborts (assertion/sanitizer/fatal) in flavour %s at op %d: %s" %
                         (name, k, crash[-600:]),
                         {"flavour": name, "block": bname, "ops": s[:k + 1], "impl": ans, "spec": sp[:k + 1]})
            continue
        lk = next((i for i, a_ in enumerate(ans) if "!LOCK:" in a_), None)
        if lk is not None:
            found += 1
            ctx.offender("lock-discipline",
                         "a public function of cbuf.c breaks the locking discipline (takes and releases the "
                         "buffer's mutex exactly once, never nested) at op `%s`: `%s`" % (s[lk][:80], ans[lk][:160]),
                         {"flavour": name, "block": bname, "ops": s[:lk + 1], "impl": ans[lk]})
            continue
        if ans != sp:
            found += 1
            k = next(i for i in range(len(s)) if ans[i] != sp[i])
            small = shrink(ctx, exe, s, "spec")
            ctx.offender("fifo-mismatch:" + s[k].split()[0],
                         "cbuf.c differs from the FIFO specification at op `%s`: impl `%s` spec `%s`" %
                         (s[k][:80], ans[k][:120], sp[k][:120]),
                         {"flavour": name, "block": bname, "ops": small, "first_diff_op_in_original": s[k][:200],
                          "impl": ans[k], "spec": sp[k]})
        if ans != m:
            found += 1
            k = next(i for i in range(len(s)) if ans[i] != m[i])
            ctx.disagreement("cbuf model vs cbuf.c (%s)" % name,
                             "op `%s`: impl `%s` model `%s`" % (s[k][:80], ans[k][:120], m[k][:120]),
                             shrink(ctx, exe, s, "model"))
    return found


# ------------------------------------------------------------------ the deterministic core
# Runs first in EVERY quick run, identical at every seed.  Each class below answers the question
# "if a maintainer broke this branch / boundary / error path, which case would notice?".

ALPHA9 = ["write 610a", "write 6263640a65", "write 0a", "read 1", "read 3", "rline 8 1", "rline 3 -1",
          "drop 2", "wfd -1 780a797a 0"]
# buffer contents (hex) with newlines at every position relative to the ends
FILLS = ["-", "61", "610a", "61620a", "0a0a", "610a62", "610a62630a", "6162636465", "0a61620a63"]


def hexlen(h):
    return 0 if h == "-" else len(h) // 2


def pat(n, salt=0):
    """n deterministic bytes (hex), a newline every 7th"""
    return "".join("0a" if (i + salt) % 7 == 6 else "%02x" % (97 + (i + salt) % 23) for i in range(n)) or "-"


def core_ops():
    """every operation of the public API with boundary arguments: each entry is a list of lines"""
    ops = []
    ops += [["write " + h] for h in ("78", "780a", "78790a7a", "0a", "78790a7a770a", "7879797979797979790a")]
    ops += [["wline " + h] for h in ("-", "78", "780a", "7879797979", "78797979797979797979")]
    for ln in (-1, 2, 5):
        for av in ("-", "78", "780a", "780a79", "780a797a7b", "780a797a7b0a7c"):
            for eof in (0, 1):
                ops.append(["wfd %d %s %d" % (ln, av, eof)])
    ops += [["wfd 0 7879 0"], ["wfd -2 7879 0"]]
    # OUT-PARAMETERS on every early-return path: the calls that store nothing (zero length, refused with
    # EINVAL before the buffer is looked at) must still SET *ndropped (the harness poisons it before every
    # call); directly behind a write that really dropped bytes (what a caller re-using its variable sees);
    # and every writing call with NULL for the out-parameter (`nullnd 1`: "if not NULL")
    ops += [["write -"]] + [["refused %d" % k] for k in range(7)]
    ops += [["write 78797a7b7c7d", z] for z in ("write -", "wfd 0 7879 0", "wfd -2 7879 0", "wfd 3 - 1", "refused 0",
                                                 "refused 1", "refused 2", "refused 3", "refused 4", "refused 6")]
    ops += [["nullnd 1", o, "nullnd 0"] for o in ("write -", "write 78790a7a770a", "wline -", "wline 7879797979",
                                                  "wfd -1 780a797a7b 0", "wfd 0 7879 0", "wfd -2 7879 0", "wfd 3 - 1",
                                                  "refused 0", "refused 1", "refused 2", "refused 3", "refused 4", "refused 6")]
    # interrupted system calls at every chunk of the descriptor calls: must be invisible
    ops += [["eintr 1", "wfd -1 780a79 0"], ["eintr 3", "wfd 5 780a797a7b 1"], ["eintr 2", "wfd 5 78 0"],
            ["eintr 1", "rfd -1 9"], ["eintr 3", "rfd 9 2"], ["eintr 2", "pfd -1 9"], ["eintr 2", "yfd -1 9"],
            ["eintr 1", "yfd 2 1"]]
    for n in (-2, -1, 0, 1, 2, 9):
        ops += [["read %d" % n], ["peek %d" % n], ["drop %d" % n]]
    for ln in (-1, 0, 1, 2, 3, 4, 6, 9):
        for lines in (-2, -1, 0, 1, 2, 3):
            ops += [["rline %d %d" % (ln, lines)], ["pline %d %d" % (ln, lines)]]
    for ln in (-1, 0, 1, 3, 9):
        for lines in (-2, -1, 0, 1, 2):
            ops.append(["dline %d %d" % (ln, lines)])
    ops += [["replay %d" % n] for n in (-1, 0, 1, 2, 9)]
    ops += [["rewind %d" % n] for n in (-2, -1, 0, 1, 2, 9)]
    for ln in (-2, -1, 0, 2, 9):
        for cap in (0, 1, 2, 9):
            ops += [["pfd %d %d" % (ln, cap)], ["rfd %d %d" % (ln, cap)], ["yfd %d %d" % (ln, cap)]]
    ops += [["rfd -1"], ["flush"], ["opt 0"], ["opt 1"], ["opt 2"], ["opt 3"]]
    ops += core_ops_lines()
    return ops


def core_ops_lines():
    """line-level replay side: cbuf_replay_line / cbuf_rewind_line with lines = -1 / 0 / 1 / many and
    lengths around the line lengths (cbuf_lines_reused is a column of every answer)"""
    ops = []
    for ln in (-1, 0, 1, 2, 3, 4, 6, 9):
        for lines in (-2, -1, 0, 1, 2, 3):
            ops.append(["yline %d %d" % (ln, lines)])
    for ln in (-1, 0, 1, 2, 3, 9):
        for lines in (-2, -1, 0, 1, 2):
            ops.append(["wrline %d %d" % (ln, lines)])
    # after consuming something, so that there is a history to look at
    for k in (1, 2, 9):
        ops += [["read %d" % k, "yline 9 1"], ["read %d" % k, "yline 9 -1"], ["read %d" % k, "yline 2 -1"],
                ["read %d" % k, "wrline 9 1"], ["read %d" % k, "wrline 9 -1"], ["read %d" % k, "wrline 1 -1"],
                ["rline 9 1", "yline 9 %d" % k], ["drop %d" % k, "wrline 9 2", "rline 9 -1"]]
    return ops


def wrap_sweep(meta, thin=1):
    """EVERY op of the public API x EVERY wrap position of a tiny buffer x fill level and newline
    layout x EVERY overwrite mode.  `rot` bytes are written and read first, so that i_in/i_out
    stand at cell `rot` and `rot` replayable bytes exist; then the buffer is filled; then the op;
    then everything is read back and replayed, so a wrong index or counter shows in the data."""
    ops = core_ops()
    out = []
    n = 0
    for mn, mx, rots in ((3, 3, (0, 1, 2, 3)), (2, 5, (0, 1, 2))):
        for rot in rots:
            for fill in FILLS:
                if hexlen(fill) > mx:
                    continue
                for mode in (0, 1, 2):
                    pre = ["create %d %d %d" % (mn, mx, meta)]
                    if rot:
                        pre += ["write " + pat(rot, 3), "read %d" % rot]
                    pre += ["opt %d" % mode]
                    if fill != "-":
                        pre += ["write " + fill]
                    for op in ops:
                        n += 1
                        if n % thin:
                            continue
                        out.append(pre + op + ["yline 9 -1", "pline 9 -1", "read 9", "replay 9"])
    return out


def pair_sweep(meta, thin=1):
    """cbuf_copy / cbuf_move at every wrap position of the source into destinations that must grow,
    wrap once or wrap many times, in every mode of the destination"""
    out = []
    n = 0
    for rot in (0, 1, 2, 3):
        for fill in FILLS:
            if hexlen(fill) > 3:
                continue
            for dmn, dmx in ((1, 3), (2, 2), (1, 1)):
                for dpre in ("-", "7a"):
                    for mode in (0, 1, 2):
                        pre = ["create 3 3 %d" % meta]
                        if rot:
                            pre += ["write " + pat(rot, 5), "read %d" % rot]
                        if fill != "-":
                            pre += ["write " + fill]
                        pre += ["sel 1", "create %d %d %d" % (dmn, dmx, meta), "opt %d" % mode]
                        if dpre != "-":
                            pre += ["write " + dpre]
                        pre += ["sel 0"]
                        for k in ("copy", "move"):
                            for ln in (-2, -1, 0, 1, 2, 9):
                                n += 1
                                if n % thin:
                                    continue
                                out.append(pre + ["%s %d" % (k, ln), "read 9", "replay 9", "sel 1", "read 9", "replay 9"])
                            if mode == 2:
                                # NULL for the out-parameter: accepted on every path (refused, zero length, drop)
                                out.append(pre + ["nullnd 1", "%s -2" % k, "%s 0" % k, "%s -1" % k, "nullnd 0",
                                                  "read 9", "replay 9", "sel 1", "read 9", "replay 9"])
    return out


def growth_core(meta):
    """sizes around EVERY growth step up to the maximum, in every mode: the buffer is pushed one
    byte over its free space again and again (memory writes, descriptor writes with short reads,
    lines), then over the maximum; and the writes whose growth is capped by the maximum while
    some space was already free (0 < free < len <= growth + free)."""
    out = []
    geos = [(2, 5), (3, 12), (10, 30), (10, 999), (10, 1000), (10, 1001), (64, 983), (64, 1983), (64, 2000),
            (64, 2017), (100, 2999), (1, 3000), (999, 1000), (1000, 1001)]
    for mn, mx in geos:
        for mode in (0, 1, 2):
            for kind in ("write", "wfd", "wline"):
                g = Guide(mn, mx, meta)
                g.mode = mode
                seq = ["create %d %d %d" % (mn, mx, meta), "opt %d" % mode]
                for step in range(7):
                    free = g.size - g.used
                    for d in ((0, 1) if step % 2 == 0 else (1,)):
                        n = max(1, free + d)
                        if kind == "write":
                            seq.append("write " + pat(n, step))
                            g.wrote(n)
                        elif kind == "wfd":
                            # request more than is available: short read, then EAGAIN / EOF
                            seq.append("wfd %d %s %d" % (n + 3, pat(n, step), step % 2))
                            g.wrote(n)
                        else:
                            seq.append("wline " + pat(max(0, n - 1), step).replace("0a", "2e"))
                            g.wrote(n)
                        free = g.size - g.used
                    seq.append("read 1")
                    g.took(1)
                seq += ["pline 99999 -1", "read 99999", "replay 99999"]
                out.append(seq)
    # growth capped by the maximum with space already free
    for mn, mx in ((10, 30), (2, 5), (5, 6), (64, 100), (10, 1005)):
        for u in (1, mn - 1, mn):
            for d in (-1, 0, 1, 2):
                for mode in (0, 1, 2):
                    n = mx - u + d
                    if u < 1 or n < 1:
                        continue
                    base = ["create %d %d %d" % (mn, mx, meta), "opt %d" % mode, "write " + pat(u)]
                    out.append(base + ["write " + pat(n, 2), "read 99999", "replay 99999"])
                    out.append(base + ["wfd %d %s 0" % (n, pat(n, 2)), "read 99999"])
                    out.append(base + ["wfd %d %s 1" % (n + 2, pat(max(1, n - 1), 2)), "read 99999"])
                    out.append(base + ["wline " + pat(max(0, n - 1), 2).replace("0a", "2e"), "read 99999"])
    # a buffer that cannot grow any more, request larger than the free space, descriptor delivers less
    for size in (3, 8):
        for u in range(0, size + 1):
            for req in (size - u + 1, size - u + 2, size + 1, 2 * size + 3):
                for av in (0, 1, max(1, size - u), size - u + 1):
                    for mode in (0, 1, 2):
                        for eof in (0, 1):
                            seq = ["create %d %d %d" % (size, size, meta), "opt %d" % mode]
                            if u:
                                seq.append("write " + pat(u))
                            seq += ["wfd %d %s %d" % (req, pat(av, 4), eof), "read 99"]
                            out.append(seq)
    return out


def grow_states(meta):
    """cbuf_grow from EVERY index relation of a tiny buffer: every prefix `write a, read b, write c,
    read d` (a, c up to the minimum size: the second write may wrap, overwrite or grow; b, d up to
    everything) leaves the three indices, the wrap flag and `used` in every relation they can have
    -- including empty-and-wrapped, full-and-wrapped, replay region straddling the end --, then a
    write of each kind that must grow the buffer, then everything is read back and replayed"""
    out = []
    for mn, mx in ((2, 9), (3, 40)):
        for a in range(0, mn + 1):
            for b in range(0, a + 1):
                for c in range(0, mn + 1):
                    for d in range(0, mn + 1):
                        for mode in (0, 1, 2):
                            pre = ["create %d %d %d" % (mn, mx, meta), "opt %d" % mode]
                            if a:
                                pre.append("write " + pat(a, 1))
                            if b:
                                pre.append("read %d" % b)
                            if c:
                                pre.append("write " + pat(c, 2))
                            if d:
                                pre.append("read %d" % d)
                            for grow in ("write " + pat(mn + 1, 3), "write " + pat(mn + 4, 4),
                                         "wfd %d %s 0" % (mn + 2, pat(mn + 2, 5)),
                                         "wline " + pat(mn + 1, 6).replace("0a", "2e")):
                                out.append(pre + [grow, "yline 99 -1", "pline 99 -1", "read 99", "replay 99"])
    return out


def prod_fill(meta):
    """the buffer dsh.c creates (64 .. 131072), filled by `cbuf_write_from_fd (.., -1, ..)` through
    every one of its growth steps up to the maximum and beyond (overwrite), then read back"""
    seq = ["create 64 131072 %d" % meta]
    for i in range(136):
        seq.append("wfd -1 %s 0" % pat(1100, i))
    seq += ["pline 200000 -1", "rline 70 1", "read 200000", "wfd -1 %s 1" % pat(10), "read 99"]
    return [seq]


def chunk_boundaries(meta):
    """descriptor calls whose source / sink stops EXACTLY at a chunk boundary of the copy loop, after a
    partial transfer, at every wrap position: the request crosses the physical end of the data
    array (once, or several times when the buffer wraps many times), the descriptor delivers /
    takes the bytes up to the array end (+ k whole turns) and then fails (EAGAIN, EIO) or is at EOF
    -- the bytes already transferred must be stored / consumed and reported; one byte less (short
    count) and one byte more; then everything is read back and replayed."""
    out = []
    for size in (3, 5):
        cells = size + 1
        # sources: cbuf_write_from_fd
        for rot in range(0, cells):
            for u in sorted({0, 1, size - 1}):
                i_in = (rot + u) % cells
                dist = cells - i_in
                for mode in (0, 1, 2):
                    pre = ["create %d %d %d" % (size, size, meta)]
                    if rot:
                        pre += ["write " + pat(rot, 3), "read %d" % rot]
                    pre += ["opt %d" % mode]
                    if u:
                        pre += ["write " + pat(u, 1)]
                    for ln in (dist + 1, dist + 2, cells + dist + 1, -1):
                        for av in (dist, dist + cells, dist - 1, dist + 1):
                            if av < 0 or (ln != -1 and av > ln):
                                continue
                            for eof in (0, 1, 2):
                                op = ["wfd %d %s %d" % (ln, pat(av, 4), eof)]
                                if eof == 2:
                                    op = ["errno 1"] + op       # the exhausted descriptor fails with EIO
                                out.append(pre + op + ["pline 99 -1", "read 99", "replay 99"])
        # sinks: cbuf_read_to_fd / cbuf_peek_to_fd stop at / around the array end
        for rot in range(0, cells):
            for u in range(1, size + 1):
                dist = cells - rot
                pre = ["create %d %d %d" % (size, size, meta)]
                if rot:
                    pre += ["write " + pat(rot, 3), "read %d" % rot]
                pre += ["write " + pat(u, 2)]
                for op in ("rfd", "pfd"):
                    for ln in (-1, u, u + 1):
                        for cap in sorted({0, dist - 1, dist, dist + 1}):
                            for ek in (0, 1, 2):
                                o = ["%s %d %d" % (op, ln, cap)]
                                if ek:
                                    o = ["errno %d" % ek] + o
                                out.append(pre + o + ["read 99", "replay 99"])
        # sinks: cbuf_replay_to_fd with a history that straddles the array end
        for t in range(1, 2 * cells + 1):
            pre = ["create %d %d %d" % (size, size, meta)]
            for k in range(t):
                pre += ["write %02x" % (97 + k % 26), "read 1"]
            r = min(t, size)
            for ln in sorted({-1, r - 1, r, r + 1} - {0, -2}):
                for cap in range(0, r + 2):
                    for ek in (0, 1):
                        o = ["yfd %d %d" % (ln, cap)]
                        if ek:
                            o = ["errno 1"] + o
                        out.append(pre + o + ["replay 99"])
    return out


def beyond_contents(meta):
    """return value against effect for EVERY call that takes a length, with arguments at and beyond
    the contents: n = used-1, used, used+1, 2*used+3, -1 (for the replay side: relative to the
    number of replayable bytes), at every wrap position and fill level; the effect shows in the
    counters of the answer and in what is read back and replayed afterwards.  The two-buffer calls
    run in BOTH directions between the same two buffers (the harness checks that the two mutexes are
    always taken in the same order)."""
    out = []
    for mn, mx in ((3, 3), (2, 5)):
        for rot in range(0, mn + 1):
            for u in range(0, mx + 1):
                for nl in (0, 1):
                    if nl and u == 0:
                        continue
                    fill = pat(u, 1)
                    if nl:
                        fill = fill[:-2] + "0a"
                    pre = ["create %d %d %d" % (mn, mx, meta)]
                    if rot:
                        pre += ["write " + pat(rot, 3), "read %d" % rot]
                    if u:
                        pre += ["write " + fill]
                    r = rot
                    tail = ["read 99", "replay 99"]
                    for n in sorted({u - 1, u, u + 1, 2 * u + 3, -1} - {-2}):
                        if n < -1:
                            continue
                        for k in ("read", "peek", "drop"):
                            out.append(pre + ["%s %d" % (k, n)] + tail)
                        for k in ("rfd", "pfd"):
                            out.append(pre + ["%s %d 99" % (k, n)] + tail)
                        for lines in (-1, 1):
                            out.append(pre + ["dline %d %d" % (n, lines)] + tail)
                            # line reads: `len` is the size of the caller's buffer (contents + NUL)
                            out.append(pre + ["rline %d %d" % (n + 1, lines)] + tail)
                            out.append(pre + ["pline %d %d" % (n + 1, lines)] + tail)
                    for n in sorted({r - 1, r, r + 1, 2 * r + 3, -1} - {-2}):
                        if n < -1:
                            continue
                        out.append(pre + ["replay %d" % n] + tail)
                        out.append(pre + ["rewind %d" % n] + tail)
                        out.append(pre + ["yfd %d 99" % n] + tail)
                        for lines in (-1, 1):
                            out.append(pre + ["yline %d %d" % (n + 1, lines)] + tail)
                            out.append(pre + ["wrline %d %d" % (n, lines)] + tail)
                    # buffer to buffer, both directions between the same two buffers
                    if nl:
                        continue
                    for dmn, dmx, dmode in ((9, 9, 2), (1, 2, 0), (2, 2, 1)):
                        pre2 = pre + ["sel 1", "create %d %d %d" % (dmn, dmx, meta), "opt %d" % dmode, "write 7a", "sel 0"]
                        for n in sorted({u - 1, u, u + 1, 2 * u + 3, -1} - {-2}):
                            if n < -1:
                                continue
                            for k in ("copy", "move"):
                                out.append(pre2 + ["%s %d" % (k, n), "sel 1", "%s %d" % (k, 1), "%s %d" % (k, 9),
                                                   "read 99", "replay 99", "sel 0", "copy -1", "read 99", "replay 99"])
    return out


def exhaustive_tiny(meta, maxlen=4):
    """all sequences of length <= maxlen over the 9-op alphabet on a min=2,max=5 buffer, per mode"""
    import itertools
    out = []
    for mode in (0, 1, 2):
        for n in range(1, maxlen + 1):
            for combo in itertools.product(ALPHA9, repeat=n):
                out.append(["create 2 5 %d" % meta, "opt %d" % mode] + list(combo))
    return out


def core_blocks(meta, full):
    """`full`: the assertion+sanitizer flavour gets everything; the shipped flavour a thinner slice
    of the two big sweeps (its code differs only in size_meta and the compiled-out assertions)"""
    return [("core:chunk-boundaries", chunk_boundaries(meta)),
            ("core:beyond-contents", beyond_contents(meta)[::1 if full else 3]),
            ("core:exhaustive<=4", exhaustive_tiny(meta, 4 if full else 3)),
            ("core:wrap-sweep", wrap_sweep(meta, 1 if full else 5)),
            ("core:pair-sweep", pair_sweep(meta, 1 if full else 3)),
            ("core:growth-steps", growth_core(meta)),
            ("core:grow-from-every-state", grow_states(meta)),
            ("core:prod-fill", prod_fill(meta))]


def shrink(ctx, exe, seq, against):
    ctx.nshrunk = getattr(ctx, "nshrunk", 0) + 1
    if ctx.nshrunk > 4:
        return seq

    def fails(s):
        (ans, crash), = run_batch([exe], [s], timeout=30, env=dict(os.environ, ASAN_OPTIONS="detect_leaks=0"))
        if crash is not None:
            return False
        ref = ctx.model("cbuf", annotate([s], [ans]), args=[against])
        return ans != ref
    try:
        return ddmin(seq, fails, keep_head=1, max_tests=150)
    except Exception:
        return seq


def annotate(seqs, answers):
    """spec input: each op line annotated with the implementation's own return value and reported
    capacity (`@ RET SIZE`): the choices the property leaves to the implementation"""
    out = []
    for s, ans in zip(seqs, answers):
        for i, l in enumerate(s):
            a = ans[i] if i < len(ans) else ""
            ret, size = "0", "0"
            if " | " in a:
                # a crash (assertion abort) can leave a truncated last answer line
                segs = a.split(" | ")
                head, tail = segs[0], segs[-1]      # copy/move: the last group is the destination buffer
                ret = (head.split() or ["0"])[0]
                size = (tail.split() or ["0"])[0]
                if not size.isdigit():
                    size = "0"
            out.append("%s @ %s %s\n" % (l, ret if ret.lstrip("-").isdigit() else "0", size))
    return "".join(out)


def load_corpus():
    d = os.path.join(os.path.dirname(HARNESS), "corpus", "C13")
    out = []
    if os.path.isdir(d):
        for f in sorted(os.listdir(d)):
            seq = [l.rstrip("\n") for l in open(os.path.join(d, f)) if l.strip() and not l.startswith("#")]
            if seq:
                out.append(seq)
    return out


def exhaustive_small(meta):
    """all op sequences of length <= 5 over a 9-op alphabet on a min=2,max=5 buffer, per mode; plus the replay side"""
    import itertools
    alpha = ["write 610a", "write 6263640a65", "write 0a", "read 1", "read 3", "rline 8 1", "rline 3 -1",
             "drop 2", "wfd -1 780a797a 0"]
    out = []
    for mode in (0, 1, 2):
        for n in range(1, 6):
            for combo in itertools.product(alpha, repeat=n):
                out.append(["create 2 5 %d" % meta, "opt %d" % mode] + list(combo))
    # the replay side and the second buffer: all sequences of length <= 4 over a 10-op alphabet on a pair of
    # tiny buffers (min=2,max=4 and min=1,max=3), per mode of the destination
    alpha2 = ["write 610a62", "read 2", "replay 2", "rewind 1", "rewind -1", "rfd -1 1", "yfd -1 1", "copy -1",
              "move 1", "drop 1"]
    for mode in (0, 1, 2):
        for n in range(1, 5):
            for combo in itertools.product(alpha2, repeat=n):
                out.append(["create 2 4 %d" % meta, "sel 1", "create 1 3 %d" % meta, "opt %d" % mode, "sel 0"] +
                           list(combo) + ["sel 1", "read 9", "replay 9"])
    return out
