"""C13  The circular buffer is a loss-free FIFO with exact drop accounting.

proof:          lean/PdshVerif/Props/C13.lean (index model refines the FIFO spec; invariant)
correspondence: real src/pdsh/cbuf.c (assertions+ASan/UBSan flavour and shipped flavour)
                vs `pdshmodel cbuf model` on generated op sequences
oracle:         real cbuf.c vs `pdshmodel cbuf spec` (the plain FIFO), same sequences
"""
import os

from vlib.common import HARNESS, hexs
from vlib.seqrun import run_batch, ddmin

LEVEL = "proof"
PROPS = "PdshVerif.Props.C13"
MANIFEST = dict(
    engine="cbuf",
    technique="Lean 4 proof (index model refines FIFO spec, invariant by induction over operations) + "
              "differential correspondence of cbuf.c against the compiled model",
    text="Theorems in lean/PdshVerif/Props/C13.lean about the index-level model of cbuf.c (all op sequences, "
         "all sizes, all three modes; the property's operation list and, beyond it, replay/rewind, the *_to_fd "
         "calls on a descriptor that takes only some bytes, and copy/move between two buffers); the protocol "
         "driver executes exactly the step functions the theorems are about; the model is executed against the "
         "real cbuf.c (assertions+ASan and shipped flavour) on generated op histories, and the real code is "
         "also compared op by op with the FIFO specification (with its history of replayable bytes), which "
         "yields the failing history as replay.",
    design_ref="DESIGN.md section 5 C13",
    note="Lean 4.33 kernel; axioms propext/Classical.choice/Quot.sound at most (audited per theorem every run); "
         "hand-written model tied to cbuf.c by differential execution of the real source built from /repo's "
         "working tree plus constants regenerated from /repo; read(2)/pipe, memcpy/memmove/realloc modelled not "
         "verified; per-cbuf mutex not modelled; harness, generators, gcc, ASan/UBSan trusted")
CHUNK = 1000


class Guide:
    """generation guidance only (never used for a verdict): approximate used/size"""

    def __init__(self, mn, mx, meta):
        self.mn, self.mx, self.size, self.alloc, self.used, self.mode = mn, max(mx, mn), mn, mn + meta, 0, 2

    def room(self, n):
        free = self.size - self.used
        if n > free and self.size < self.mx:
            meta = self.alloc - self.size
            m = self.alloc + (n - free)
            m = m + (CHUNK - m % CHUNK)
            m = min(m, self.mx + meta)
            self.alloc, self.size = m, m - meta

    def wrote(self, n):
        self.room(n)
        free = self.size - self.used
        if self.mode == 0:
            n = min(n, free)
        elif self.mode == 1:
            n = min(n, self.size)
        self.used = min(self.size, self.used + n)

    def took(self, n):
        self.used = max(0, self.used - max(0, n))


def gen_bytes(rng, n, nul_ok=True):
    style = rng.random()
    out = bytearray()
    for _ in range(n):
        r = rng.random()
        if r < (0.25 if style < 0.7 else 0.03):
            out.append(10)
        elif r < 0.9:
            out.append(rng.choice(b"abcxyz019 "))
        else:
            b = rng.randrange(256)
            if b == 0 and not nul_ok:
                b = 1
            out.append(b)
    return bytes(out)


def pick_len(rng, g):
    free = g.size - g.used
    c = rng.random()
    if c < 0.35:
        cand = [free - 1, free, free + 1, g.size, g.size + 1, 2 * g.size + 3, g.used, g.used + 1, 1, 2]
        return max(0, rng.choice(cand))
    if c < 0.8:
        return rng.randrange(0, max(2, min(g.size + 4, 64)))
    return rng.randrange(0, max(2, min(3 * g.mx, 5000)))


def gen_seq(rng, meta, nops, shape):
    if shape == "tiny":
        mn = rng.randrange(1, 9)
        mx = rng.choice([mn, mn, rng.randrange(mn, 41), rng.randrange(1, 41)])
    elif shape == "fixed":
        mn = rng.randrange(1, 24)
        mx = rng.choice([mn, 0, -3, mn - 1])
    elif shape == "chunk":
        mn = rng.randrange(1, 80)
        mx = rng.choice([rng.randrange(900, 1100), rng.randrange(1900, 2100), rng.randrange(mn, 5000), 983, 999, 1000, 1999, 2999])
    else:  # production sizes used by dsh.c
        mn, mx = 64, 131072
    seq = ["create %d %d %d" % (mn, mx, meta)]
    g = Guide(mn, mx, meta)
    if rng.random() < 0.5:
        g.mode = rng.choice([0, 1, 2])
        seq.append("opt %d" % g.mode)
    two = rng.random() < 0.35
    g2 = None
    if two:
        # a second buffer (own size bounds and mode) for cbuf_copy / cbuf_move
        mn2 = rng.choice([mn, rng.randrange(1, 9), rng.randrange(1, 80)])
        mx2 = rng.choice([mn2, mx, rng.randrange(1, 41), rng.randrange(mn2, mn2 + 2100)])
        seq.append("sel 1")
        seq.append("create %d %d %d" % (mn2, mx2, meta))
        g2 = Guide(mn2, mx2, meta)
        if rng.random() < 0.6:
            g2.mode = rng.choice([0, 1, 2])
            seq.append("opt %d" % g2.mode)
        g.idx, g2.idx = 0, 1
        if rng.random() < 0.7:
            seq.append("sel 0")
        else:
            g, g2 = g2, g
    for _ in range(nops):
        r0 = rng.random()
        if r0 < (0.34 if two else 0.2):
            # replay side, descriptor sinks with a capacity, buffer-to-buffer
            k = rng.random()
            cap = rng.choice([0, 1, 2, 3, g.used - 1, g.used, g.used + 1, g.size, 1 << 20, 1 << 20])
            cap = max(0, cap)
            if two and k < 0.40:
                n = rng.choice([pick_len(rng, g), pick_len(rng, g), -1, -1, 0, -2, g.used, g.used + 1, g2.size - g2.used,
                                g2.size - g2.used + 1, g2.size + 1])
                n = max(-2, n)
                mv = rng.random() < 0.5
                seq.append("%s %d" % ("move" if mv else "copy", n))
                cnt = g.used if n == -1 else max(0, min(n, g.used))
                g2.wrote(cnt)
                if mv:
                    g.took(cnt)
            elif two and k < 0.52:
                g, g2 = g2, g
                seq.append("sel %d" % g.idx)
            elif k < 0.62:
                seq.append("replay %d" % rng.choice([pick_len(rng, g), 1, 2, 3, g.size, g.size + 1, 0, -1, -2]))
            elif k < 0.78:
                n = rng.choice([pick_len(rng, g), 1, 2, 3, -1, -1, 0, -2, g.size])
                seq.append("rewind %d" % n)
                g.used = min(g.size, g.used + (g.size if n == -1 else max(0, n)) // 2)
            elif k < 0.86:
                seq.append("pfd %d %d" % (rng.choice([pick_len(rng, g), -1, -1, 0, -2, g.used]), cap))
            elif k < 0.94:
                n = rng.choice([pick_len(rng, g), -1, -1, 0, -2, g.used])
                seq.append("rfd %d %d" % (n, cap))
                g.took(min(cap, g.used if n == -1 else max(0, n)))
            else:
                seq.append("yfd %d %d" % (rng.choice([pick_len(rng, g), -1, -1, 0, -2, 1, 2, g.size]), cap))
            continue
        r = rng.random()
        if r < 0.30:
            n = pick_len(rng, g)
            seq.append("write " + hexs(gen_bytes(rng, n)))
            g.wrote(n)
        elif r < 0.42:
            ln = rng.choice([-1, -1, -1, pick_len(rng, g), pick_len(rng, g), 0, -2])
            av = pick_len(rng, g) if rng.random() < 0.8 else 0
            if shape == "prod" and rng.random() < 0.5:
                av = rng.choice([63, 64, 65, 999, 1000, 1001, 5000])
            eof = rng.choice([0, 0, 1])
            seq.append("wfd %d %s %d" % (ln, hexs(gen_bytes(rng, av)), eof))
            req = (g.size - g.used or min(g.size, CHUNK)) if ln == -1 else max(ln, 0)
            g.wrote(min(req, av))
        elif r < 0.48:
            n = pick_len(rng, g)
            seq.append("wline " + hexs(gen_bytes(rng, n, nul_ok=False)))
            g.wrote(n + 1)
        elif r < 0.62:
            n = rng.choice([pick_len(rng, g), pick_len(rng, g), -1, 0])
            seq.append("read %d" % n)
            g.took(n)
        elif r < 0.67:
            seq.append("peek %d" % rng.choice([pick_len(rng, g), -1, 0, g.used]))
        elif r < 0.74:
            n = rng.choice([pick_len(rng, g), -1, 0, -2, pick_len(rng, g)])
            seq.append("drop %d" % n)
            g.took(g.used if n == -1 else n)
        elif r < 0.86:
            ln = rng.choice([pick_len(rng, g), pick_len(rng, g), 0, 1, 2, -1, g.used + 1])
            lines = rng.choice([-1, -1, 1, 1, 2, 3, 0, -2, 7])
            seq.append("%s %d %d" % (rng.choice(["rline", "rline", "pline"]), ln, lines))
            g.took(min(g.used, max(ln, 0)) // 2)
        elif r < 0.90:
            ln = rng.choice([pick_len(rng, g), 0, 1, -1, g.used])
            seq.append("dline %d %d" % (ln, rng.choice([-1, 1, 2, 0, -2])))
        elif r < 0.93:
            n = rng.choice([pick_len(rng, g), -1, -1, 0, -2])
            seq.append("rfd %d" % n)
            g.took(g.used if n == -1 else n)
        elif r < 0.97:
            g.mode = rng.choice([0, 1, 2, 2, 3])
            seq.append("opt %d" % g.mode)
            if g.mode == 3:
                g.mode = 2
        else:
            seq.append("flush")
            g.used = 0
    return seq


def nontrivial(ans):
    """a sequence is non-trivial when it reached a grow or an overwrite (drop count > 0)"""
    sizes = set()
    dropped = False
    for a in ans:
        if " | " in a:
            head, tail = a.split(" | ", 1)
            sizes.add((tail.split() or ["?"])[0])
            h = head.split()
            if len(h) == 2 and h[1].isdigit() and int(h[1]) > 0 and h[0].lstrip("-").isdigit():
                dropped = True
    return len(sizes) > 1 or dropped


def run(ctx):
    rng = ctx.rng
    ctx.gen_consts(["cbuf"])
    ctx.lean_build([PROPS, "pdshmodel"])
    ctx.audit(PROPS)
    exe_dbg = os.path.join(ctx.scratch, "cbuf_dbg")
    exe_rel = os.path.join(ctx.scratch, "cbuf_rel")
    ok1 = ctx.cc(exe_dbg, [os.path.join(HARNESS, "cbuf_harness.c")], san=True, assertions=True)
    ok2 = ctx.cc(exe_rel, [os.path.join(HARNESS, "cbuf_harness.c")], san=True, assertions=False)
    cov = {"evaluations": 0, "distinct_nontrivial": 0, "samples": [],
           "rule": "op sequences over create/opt/write/write_from_fd/write_line/read/read_to_fd/peek/drop/"
                   "read_line/peek_line/drop_line/flush/replay/rewind/peek_to_fd/read_to_fd/replay_to_fd (descriptor "
                   "sinks that take 0, 1, .., used-1, used, used+1 or all bytes and then fail with EAGAIN) and, on a "
                   "pair of buffers with independent bounds and modes (35% of the sequences), copy/move, "
                   "with boundary-biased lengths (free-1, free, free+1, size, "
                   "size+1, 2*size+3), all three overwrite modes, buffer shapes tiny/min=max/chunk-growth/"
                   "production(64,131072); non-trivial = the sequence reached a buffer growth or an overwrite "
                   "(ndropped>0); distinct = distinct op-sequence text"}
    if ok1 and ok2:
        import subprocess
        flavours = []
        for exe, name in ((exe_dbg, "assert+asan"), (exe_rel, "shipped(NDEBUG)+asan")):
            meta = int(subprocess.run([exe, "--meta"], stdout=subprocess.PIPE).stdout.decode().strip())
            flavours.append((exe, name, meta))
        nseq = 500 if ctx.quick() else 12000
        corpus = load_corpus()
        replay_seq = None
        if getattr(ctx, "replay", None):
            import json
            rj = json.load(open(ctx.replay))
            rc = rj.get("case")
            if rc is None:
                ctx.log("replay file records a broken theorem/correspondence, not an input: running the normal check")
            else:
                replay_seq = rc["ops"] if isinstance(rc, dict) else rc
                nseq, corpus = 0, []
        dist = {"ops": 0, "grow_or_overwrite": 0, "shapes": {}, "crash": 0, "op_kinds": {}}
        distinct = set()
        for exe, name, meta in flavours:
            seqs = [[l.replace("META", str(meta)) for l in s] for s in corpus]
            if replay_seq:
                # a replay re-runs exactly the recorded op sequence (create lines re-targeted to this flavour)
                seqs.append([" ".join(l.split()[:3] + [str(meta)]) if l.startswith("create ") else l
                             for l in replay_seq])
            for i in range(nseq):
                shape = rng.choices(["tiny", "fixed", "chunk", "prod"], [50, 15, 25, 10])[0]
                dist["shapes"][shape] = dist["shapes"].get(shape, 0) + 1
                seqs.append(gen_seq(rng, meta, rng.randrange(4, 40 if shape != "prod" else 14), shape))
            if ctx.tier == "thorough" and name.startswith("assert") and not replay_seq:
                seqs += exhaustive_small(meta)
            # every sequence starts from nothing (both buffers gone, first buffer selected): the three
            # runs stay in step even when the implementation's process had to be restarted after a crash
            seqs = [s if s and s[0] == "reset" else ["reset"] + s for s in seqs]
            impl = run_batch([exe], seqs, env=dict(os.environ, ASAN_OPTIONS="detect_leaks=0"))
            # model and spec both get the op lines annotated with the implementation's own answer
            # (`@ RET SIZE`): the spec takes them as the choices the property leaves open, the model
            # FOLLOWS the observed capacity (growth policy = parameter of the model, learnt
            # behaviourally; an inadmissible choice makes model and spec disagree with the code)
            text = annotate(seqs, [a for a, _ in impl])
            mlines = ctx.model("cbuf", text, args=["model"])
            slines = ctx.model("cbuf", text, args=["spec"])
            pos = 0
            for s, (ans, crash) in zip(seqs, impl):
                m = mlines[pos:pos + len(s)]
                sp = slines[pos:pos + len(s)]
                pos += len(s)
                cov["evaluations"] += 1
                dist["ops"] += len(s)
                for l, a_ in zip(s, ans):
                    k = l.split()[0]
                    dist["op_kinds"][k] = dist["op_kinds"].get(k, 0) + 1
                    if a_ in ("bad-op", "no-cbuf"):
                        dist["refused_lines"] = dist.get("refused_lines", 0) + 1
                if nontrivial(ans):
                    key = hash("\n".join(s))
                    if key not in distinct:
                        distinct.add(key)
                        dist["grow_or_overwrite"] += 1
                if len(cov["samples"]) < 3 and len(s) < 12 and nontrivial(ans):
                    cov["samples"].append({"flavour": name, "ops": s, "impl": ans})
                if crash is not None:
                    dist["crash"] += 1
                    k = len(ans)
                    ctx.offender("crash", "cbuf.c aborts (assertion/sanitizer/fatal) in flavour %s at op %d: %s" %
                                 (name, k, crash[-600:]),
                                 {"flavour": name, "ops": s[:k + 1], "impl": ans, "spec": sp[:k + 1]})
                    continue
                if ans != sp:
                    k = next(i for i in range(len(s)) if ans[i] != sp[i])
                    small = shrink(ctx, exe, s, "spec")
                    ctx.offender("fifo-mismatch:" + s[k].split()[0],
                                 "cbuf.c differs from the FIFO specification at op `%s`: impl `%s` spec `%s`" %
                                 (s[k][:80], ans[k][:120], sp[k][:120]),
                                 {"flavour": name, "ops": small, "first_diff_op_in_original": s[k][:200],
                                  "impl": ans[k], "spec": sp[k]})
                if ans != m:
                    k = next(i for i in range(len(s)) if ans[i] != m[i])
                    ctx.disagreement("cbuf model vs cbuf.c (%s)" % name,
                                     "op `%s`: impl `%s` model `%s`" % (s[k][:80], ans[k][:120], m[k][:120]),
                                     shrink(ctx, exe, s, "model"))
        cov["distinct_nontrivial"] = len(distinct)
        cov["distribution"] = dist
        cov["traces_validated_against_impl"] = cov["evaluations"]
    return ctx.finish(
        LEVEL, cov,
        assumptions=["read(2)/pipe semantics as modelled by Src.fd (available bytes, then EAGAIN or EOF)",
                     "memcpy/memmove/realloc behave per ISO C; realloc never fails",
                     "single-threaded use per buffer (the per-cbuf mutex is not modelled)"],
        trusted_base=["Lean 4.33 kernel", "axioms: propext, Classical.choice, Quot.sound at most (audited per theorem)",
                      "hand-written index model Cbuf/Model.lean tied to cbuf.c by differential execution",
                      "Gen/Consts.lean regenerated from /repo (CBUF_CHUNK, mode codes)",
                      "harness/cbuf_harness.c, vlib/, gcc, ASan/UBSan"],
        checker_cmd="lake build PdshVerif.Props.C13 && #print axioms on every theorem of Props/C13.lean")


def shrink(ctx, exe, seq, against):
    ctx.nshrunk = getattr(ctx, "nshrunk", 0) + 1
    if ctx.nshrunk > 4:
        return seq

    def fails(s):
        (ans, crash), = run_batch([exe], [s], timeout=30, env=dict(os.environ, ASAN_OPTIONS="detect_leaks=0"))
        if crash is not None:
            return False
        ref = ctx.model("cbuf", annotate([s], [ans]), args=[against])
        return ans != ref
    try:
        return ddmin(seq, fails, keep_head=1, max_tests=150)
    except Exception:
        return seq


def annotate(seqs, answers):
    """spec input: each op line annotated with the implementation's own return value and reported
    capacity (`@ RET SIZE`): the choices the property leaves to the implementation"""
    out = []
    for s, ans in zip(seqs, answers):
        for i, l in enumerate(s):
            a = ans[i] if i < len(ans) else ""
            ret, size = "0", "0"
            if " | " in a:
                # a crash (assertion abort) can leave a truncated last answer line
                segs = a.split(" | ")
                head, tail = segs[0], segs[-1]      # copy/move: the last group is the destination buffer
                ret = (head.split() or ["0"])[0]
                size = (tail.split() or ["0"])[0]
                if not size.isdigit():
                    size = "0"
            out.append("%s @ %s %s\n" % (l, ret if ret.lstrip("-").isdigit() else "0", size))
    return "".join(out)


def load_corpus():
    d = os.path.join(os.path.dirname(HARNESS), "corpus", "C13")
    out = []
    if os.path.isdir(d):
        for f in sorted(os.listdir(d)):
            seq = [l.rstrip("\n") for l in open(os.path.join(d, f)) if l.strip() and not l.startswith("#")]
            if seq:
                out.append(seq)
    return out


def exhaustive_small(meta):
    """all op sequences of length <= 5 over a 9-op alphabet on a min=2,max=5 buffer, per mode; plus the replay side"""
    import itertools
    alpha = ["write 610a", "write 6263640a65", "write 0a", "read 1", "read 3", "rline 8 1", "rline 3 -1",
             "drop 2", "wfd -1 780a797a 0"]
    out = []
    for mode in (0, 1, 2):
        for n in range(1, 6):
            for combo in itertools.product(alpha, repeat=n):
                out.append(["create 2 5 %d" % meta, "opt %d" % mode] + list(combo))
    # the replay side and the second buffer: all sequences of length <= 4 over a 10-op alphabet on a pair of
    # tiny buffers (min=2,max=4 and min=1,max=3), per mode of the destination
    alpha2 = ["write 610a62", "read 2", "replay 2", "rewind 1", "rewind -1", "rfd -1 1", "yfd -1 1", "copy -1",
              "move 1", "drop 1"]
    for mode in (0, 1, 2):
        for n in range(1, 5):
            for combo in itertools.product(alpha2, repeat=n):
                out.append(["create 2 4 %d" % meta, "sel 1", "create 1 3 %d" % meta, "opt %d" % mode, "sel 0"] +
                           list(combo) + ["sel 1", "read 9", "replay 9"])
    return out
