"""C15  Any text given as a host expression is handled safely and within limits.

proof:          lean/PdshVerif/Props/C15.lean (an accepted range holds <= 16384 hosts except the one wrapped
                range, witness of the wrap, the repaired test; what is accepted/refused; totality by
                Lean's termination check)
correspondence: real src/common/hostlist.c (assertions + ASan/UBSan, per-call CPU and heap limits in a forked
                child for suspicious inputs) and the scratch-built pdsh binary vs `pdshmodel hl model`
oracle:         real code vs `pdshmodel hl spec` (Hostlist/Spec.lean): the classes the property text names
                (unbalanced / non-numeric / reversed -> must fail; too large -> 'too many hosts'; else a
                host list of the expected size), crashes / time / memory ceilings as observables
"""
import itertools
import json
import os
import re

from vlib.hostlist import (HL, Cli, WFGen, LIMIT, hx, unhx, parse_probe, parse_spec, same_answer, feat_big,
                           feat_longplain, feat_first_group_complete, feat_d16, gen_malformed, exhaustive, names_field, U64,
                           impl_tokens,
                           VERIF_CORPUS, pinned_classes, cli_phase, poisoned_classes, state_pairs)

LEVEL = "proof"
PROPS = "PdshVerif.Props.C15"
MANIFEST = dict(
    engine="hl",
    technique="Lean 4 proof about the executable model of the hostlist parser (for EVERY text: one equation for the "
              "verdict on a range item with strtoul saturation, iff-characterisations of accepted / invalid / "
              "too-many, refinement of the independent item reader, exact acceptance condition of a group, a token "
              "and the whole call, accepted <=> the independent whole-text reader Spec.classify finds no problem "
              "and then the hosts are its expansion, counter exact and <= 16384 x text length, fuel sufficiency, "
              "explicit buffers) "
              "+ differential correspondence of the real "
              "hostlist.c under ASan/UBSan and per-call resource limits against the compiled model + "
              "classification oracle from the property text",
    text="Theorems in lean/PdshVerif/Props/C15.lean about the parser model in lean/PdshVerif/Hostlist/Parse.lean; "
         "the model is executed against the real hostlist.c (harness/hl_harness.c: assertions, ASan/UBSan, 2 s CPU "
         "and 512 MiB live-heap ceilings per call in a forked child) and against `pdsh -Q -w` of a scratch build on "
         "malformed byte strings; the real code is also compared with the independent classification of "
         "Hostlist/Spec.lean, which yields the failing text as replay.",
    design_ref="DESIGN.md section 5 C15",
    note="Lean 4.33 kernel; axioms propext/Classical.choice/Quot.sound at most (audited per theorem every run); "
         "hand-written model tied to hostlist.c by differential execution of the real source built from /repo's "
         "working tree plus constants regenerated from /repo; glibc strtoul/snprintf/strncpy modelled not verified; "
         "memory safety and the CPU/memory ceilings of the compiled code are observed (ASan/UBSan, limits), "
         "not proved; harness, generators, gcc trusted")


def judge(ctx, s, sp, impl, model, origin, extra=None):
    case = {"text": s[:300].decode("latin1"), "expr_hex": hx(s) if len(s) <= 20000 else hx(s[:20000]) + "..",
            "length": len(s), "origin": origin, "impl": impl[:300], "spec": sp[:200]}
    if extra:
        case.update(extra)
    if not same_answer(impl, model):
        ctx.disagreement("hl model vs hostlist.c (probe)", "text %r: impl `%s` model `%s`" %
                         (s[:200], impl[:300], model[:300]), case)
    p = parse_probe(impl)
    if p["kind"] == "skipped":
        return
    v = parse_spec(sp)
    big = feat_big(s)
    if p["kind"] == "crash":
        if feat_longplain(s) and "stack-buffer-overflow" in p["cls"]:
            sig = "crash:asan:stack-buffer-overflow:plainword>=1023"
        elif big:
            sig = "crash:bound>=2^64-1"
        else:
            sig = "crash:" + p["cls"]
        ctx.offender(sig, "hostlist_create (or walking its result) crashes: %s" % impl[:100], case)
        return
    if p["kind"] == "null" and str(p.get("fatal", "")).endswith("-garbled"):
        ctx.offender("diagnostic-garbled", "the diagnostic does not quote the text that was typed (the text was "
                     "interpreted, e.g. as a printf format): %s" % impl[:100], case)
        return
    if p["kind"] in ("timeout", "oom"):
        ctx.offender("resource:bound>=2^64-1" if big else "resource:" + p["kind"],
                     "hostlist_create exceeds the per-call ceiling (%s)" % p["kind"], case)
        return
    if p["kind"] not in ("ok", "null"):
        ctx.disagreement("hl harness answer", "garbled answer `%s`" % impl[:200], case)
        return
    if not v["ok"]:
        probs = set(v["problems"])
        if p["kind"] == "null":
            if probs == {"toomany"} and not (p["errno"] == "ERANGE" and p["fatal"] == "toomany"):
                ctx.offender("toomany-misreported:%s:%s" % (p["errno"], p["fatal"]),
                             "a range larger than the limit is refused without the 'too many hosts' diagnostic: %s" % impl,
                             case)
            return
        # accepted although the property text says it must fail
        if probs == {"toomanyranges"}:
            return      # the text states no behaviour for > 10240 ranges
        sigs = []
        if "unbalanced" in probs:
            sigs.append("unbalanced-accepted" + (":first-group-complete" if feat_first_group_complete(s) else ""))
        if "nonnumeric" in probs:
            sigs.append("nonnumeric-accepted" + (":strtoul-shapes" if feat_d16(s) else ""))
        if "reversed" in probs:
            sigs.append("reversed-accepted" + (":with-strtoul-shapes" if "nonnumeric" in probs and feat_d16(s) else
                                               ":bound>=2^64-1" if big else ""))
        if "toomany" in probs:
            sigs.append("toomany-accepted" + (":bound>=2^64-1" if big else ""))
        ctx.offender("+".join(sigs), "text with problems %s is accepted as %d host(s)" %
                     (sorted(probs), p["count"]), case)
        return
    # the spec finds nothing wrong
    if v["note64"]:
        # a bound of 2^64-1 or beyond in a range within the limits: refusing it is admissible, listing other
        # hosts than the ones typed is not (hostlist_shift prints numbers in full, so it is the sequence compared)
        if p["kind"] == "ok" and (p["shift"] != v["hosts1"] or p["count"] != v["n1"]):
            beyond = any(int(m) > U64 - 1 for m in re.findall(rb"[0-9]{20,}", s))
            if beyond:
                ctx.offender("overflow64-clamped", "a bound >= 2^64 is silently replaced by 2^64-1 (%d hosts listed)" %
                             p["count"], case)
            else:
                ctx.offender("ulongmax-mismatch:bound>=2^64-1", "a range reaching 2^64-1 is accepted but lists other "
                             "hosts than typed (%d counted)" % p["count"], case)
        return
    if p["kind"] == "null":
        ctx.offender("valid-rejected:%s:%s" % (p["errno"], p["fatal"]) + (":bound>=2^64-1" if big else ""),
                     "text without any of the named problems is refused: " + impl, case)
        return
    if p["count"] != v["n1"] or len(p["next"]) != v["n1"] or p["next_more"]:
        ctx.offender("count-mismatch" + (":bound>=2^64-1" if big else ""),
                     "the list holds %d hosts (%d iterated) where the text denotes %d" %
                     (p["count"], len(p["next"]), v["n1"]), case)


def run(ctx):
    rng = ctx.rng
    if ctx.replay and "expr_hex" not in json.load(open(ctx.replay)).get("case", {}):
        ctx.replay = None       # a theorem/correspondence replay names no input: the whole check is the replay
    state_only = None
    if ctx.replay:
        rc0 = json.load(open(ctx.replay)).get("case", {})
        if "poison_hex" in rc0:
            state_only = (rc0.get("poison", "replay"), unhx(rc0["poison_hex"]), unhx(rc0["expr_hex"]))
    ctx.gen_consts(["hostlist"])
    ctx.lean_build([PROPS, "pdshmodel"])
    ctx.audit(PROPS)
    hl = HL(ctx)
    cov = {"evaluations": 0, "distinct_nontrivial": 0, "samples": [],
           "rule": "byte strings (no NUL) from: random text over the biased alphabet `[ ] , - digits letters blank + `, "
                   "mutated well-formed expressions (delete/insert/replace incl. control and high bytes), ranges with "
                   "numbers around 2^31, 2^32, 2^63, 2^64 and of 20-40 digits, stray/nested brackets, words of "
                   "1021..1025/4094..4097/8000 bytes, blank/sign shapes inside brackets, printf conversions (%s %n %d ...) inside "
                   "brackets (the diagnostic must quote them verbatim), 10239/10240/10241 ranges in one "
                   "bracket; STATE LEFT OVER (errno, the previous bracket's range table, the first element's width): "
                   "every pinned well-formed and malformed text (trailing / leading / double comma, empty bracket, "
                   "open range, reversed, too many) as the word after each poisoning word in one hostlist_create and "
                   "in the call AFTER hostlist_create(poison) incl. failed calls (harness op sprobe), and as -w words "
                   "of the pdsh binary; on the pdsh binary also `-q` (ranged listing, 1 KiB buffer) with numbers 500..4100 characters wide "
                   "(safety only); (thorough) all strings over {a,0,1,9,[,],-,,} up to length 7; non-trivial = contains a "
                   "bracket or a digit run >= 10; distinct = distinct text"}
    dist = {}
    def stream():
        if state_only is not None:
            return
        if ctx.replay:
            rep = json.load(open(ctx.replay))
            yield (unhx(rep["case"]["expr_hex"].rstrip(".")), "replay")
            return
        for s in load_corpus():
            yield (s, "corpus")
        for s in poisoned_classes():
            dist["pinned-after-poison-word"] = dist.get("pinned-after-poison-word", 0) + 1
            yield (s, "pinned-poisoned")
        for s in pinned_classes():
            dist["pinned-classes"] = dist.get("pinned-classes", 0) + 1
            yield (s, "pinned")
        wf = WFGen(rng, max_hosts=300)
        for _ in range(3200 if ctx.quick() else 40000):
            yield (gen_malformed(rng, wf, dist), "generated")
        if ctx.tier == "thorough":
            dist["exhaustive"] = 0
            dist["exhaustive-scope"] = {"alphabet": "a 0 1 9 [ ] - ,", "lengths": "0..7",
                                        "strings": sum(8 ** k for k in range(8))}
            for s in exhaustive(b"a019[]-,", 7):
                dist["exhaustive"] += 1
                yield (s, "exhaustive")

    if hl.build():
        distinct = 0
        classes = {}
        it = stream()
        while True:
            cases = list(itertools.islice(it, 100000))
            if not cases:
                break
            strings = [c[0] for c in cases]
            spec = hl.spec(strings)
            ctx.log("chunk of %d: spec done" % len(strings))
            impl, model = hl.probe_all(strings, force_fork=0.02 if cases[-1][1] != "exhaustive" else 0.0005)
            ctx.log("chunk: impl+model done (%d forked so far)" % hl.nfork)
            seen = set()
            for (s, origin), sp, a, b in zip(cases, spec, impl, model):
                judge(ctx, s, sp, a, b, origin)
                cov["evaluations"] += 1
                k = (sp.split(" ")[0] if not sp.startswith("fail") else sp) + " -> " + a.split(" ")[0]
                classes[k] = classes.get(k, 0) + 1
                if (b"[" in s or b"]" in s or re.search(rb"[0-9]{10,}", s)) and s not in seen:
                    seen.add(s)
                    distinct += 1
                if len(cov["samples"]) < 5 and 4 < len(s) < 40 and origin == "generated" and sp.startswith("fail"):
                    cov["samples"].append({"text": s.decode("latin1"), "spec": sp, "impl": a[:120]})
        cov["distinct_nontrivial"] = distinct
        dist["forked"] = hl.nfork
        if not ctx.replay or state_only is not None:
            state_check(ctx, hl, dist, cov, only=state_only)
        dist["classes(spec -> impl)"] = dict(sorted(classes.items(), key=lambda kv: -kv[1])[:40])
        if not ctx.replay:
            cli_phase(ctx, cli_check, ctx, hl, dist, cov)
        else:
            rep = json.load(open(ctx.replay))
            if rep["case"].get("origin") == "cli":
                cli_check(ctx, hl, dist, cov, only=unhx(rep["case"]["expr_hex"]))
            elif rep["case"].get("origin") == "cli-q":
                cli_check(ctx, hl, dist, cov, only_q=rep["case"]["expr_hex"])
    dist["probed-variant"] = hl.probed()
    cov["distribution"] = dist
    cov["traces_validated_against_impl"] = cov["evaluations"]
    for b in ctx.broken[:4]:
        ctx.log("broken:", b[0], b[1], "::", str(b[2])[:700])
    return ctx.finish(
        LEVEL, cov,
        assumptions=["input text contains no NUL byte (C string API)",
                     "glibc strtoul / snprintf / strncpy / isdigit / isspace behave as modelled (C locale)",
                     "malloc never fails below the 512 MiB ceiling",
                     "the CPU ceiling (2 s per call) and the heap ceiling are observed on this machine, not proved"],
        trusted_base=["Lean 4.33 kernel", "axioms: propext, Classical.choice, Quot.sound at most (audited per theorem)",
                      "hand-written model lean/PdshVerif/Hostlist/{Push,Parse,Iter,Cli}.lean tied to hostlist.c by "
                      "differential execution", "Gen/Hostlist.lean regenerated from /repo (MAX_RANGE, MAX_RANGES)",
                      "harness/hl_harness.c (heap accounting, fork + limits), vlib/hostlist.py, gcc, ASan/UBSan"],
        checker_cmd="lake build PdshVerif.Props.C15 && #print axioms on every theorem of Props/C15.lean")


def state_check(ctx, hl, dist, cov, only=None):
    """STATE CARRIED FROM ONE LIBRARY CALL TO THE NEXT: every pinned text (well-formed and malformed) is probed in
    the call after hostlist_create(POISON) -- errno, the stack (the range table of the previous bracket) and the
    allocator are as that call left them, as between two -w / -x / file-line words of one pdsh run.  The verdict on
    a text is a function of the text: same spec, same model answer as for the text alone."""
    trip = [only] if only is not None else state_pairs()
    texts = [t for _, _, t in trip]
    spec = hl.spec(texts)
    impl, model = hl.sprobe_all([(p, t) for _, p, t in trip])
    dist["after-poison-call"] = {}
    for (note, p, t), sp, a, b in zip(trip, spec, impl, model):
        dist["after-poison-call"][note] = dist["after-poison-call"].get(note, 0) + 1
        cov["evaluations"] += 1
        judge(ctx, t, sp, a, b, "after-call", extra={"poison": note, "poison_hex": hx(p),
                                                     "previous_call": "hostlist_create(%r)" % p[:80].decode("latin1")})


def cli_check(ctx, hl, dist, cov, only=None, only_q=None):
    """pdsh -Q -w TEXT: exit status and diagnostic class against the model, safety against the text"""
    rng = ctx.rng
    cli = Cli(ctx)
    if not cli.pdsh:
        return
    wf = WFGen(rng, cli=True, max_hosts=30)
    fixed = [b"a[0-99999999999999999999]", b"a[1-99999]", b"a[2-1]", b"a[1", b"a]", b"a[1x-3]", b"a[1-3],b]",
             b"a[18446744073709551614-18446744073709551615]", b"a[0-99999999999999999999]x", b"a[1]]", b"x" * 1023,
             # an unbalanced word NEXT TO a good one (split.c cuts the argument at commas outside brackets, every
             # comma-word goes through hostlist_push on its own): before, after, between, level going negative
             b"b,a[1", b"a],b", b"b,a]", b"a[1,b", b"x,a[1]],y", b"a[1-2]b[,c", b"b,a[1]b[", b"a]b[1],c",
             # state left over from the previous comma-word (errno, the previous bracket's range table, widths)
             b"b[1,5-7],a[1,]", b"b[1,5-7,9],a[1-3,]x", b"job20240929102030123456789,b[1-3]",
             b"99999999999999999999999,a[1-3],a[1,]", b"job20240929102030123456789,a[1-99999]",
             b"w[0000000000000000000000042,1]-x,n[1,0000000000000000000000005]-ib0"]
    # which variant of opt.c is under test: does `-w` go on without a comma-word whose parse failed? (behavioural
    # probe; F15-CLI-WORD-DROPPED.  A repaired tree refuses the whole argument.)
    drops = only_q is None and cli.query("b,a[1", timeout=20)[0] == "ok"
    dist["cli-variant"] = "failed word dropped silently (opt.c before d1c94df: F15-CLI-WORD-DROPPED is back)" if drops else \
        "failed word refused (repaired opt.c, d1c94df: the default)"
    nslow = 0
    cases = list(fixed) if only is None else [only]
    if only_q:
        cases = []
    n = (60 if ctx.quick() else 1500) if only is None and not only_q else 0
    d2 = {}
    tries = 0
    while len(cases) < n and tries < 50 * n:
        tries += 1
        s = gen_malformed(rng, wf, d2)
        if len(s) > 5000 or not s or b"\n" in s and False:
            continue
        cases.append(s)
    # the model of the opt.c that is under test: `clir` = Hostlist/CliRefuse.lean cliTargetsR (repaired opt.c, d1c94df:
    # a word that yields nothing is refused and quoted -- `badword:<hex>`, compared verbatim with pdsh's diagnostic);
    # `cli` = Cli.lean cliTargets (code as found: the word is dropped; C15.cliTargetsR_agrees relates the two)
    model = hl.model(["%s %s %d" % ("cli" if drops else "clir", hx(s), LIMIT) for s in cases])
    spec = hl.spec(cases)
    ncli = 0
    for s, m, sp in zip(cases, model, spec):
        if m == "unsupported" or s[:1] == b"-":
            continue          # not a plain target word (outside C15's reading of -w)
        ncli += 1
        cov["evaluations"] += 1
        case = {"text": s[:300].decode("latin1"), "expr_hex": hx(s), "origin": "cli", "model": m[:200]}
        if m == "diverge":
            nslow += 1
            if nslow > 2:
                continue      # every further predicted hang costs a full wall-clock timeout
        if m.startswith("ok | "):
            listed = names_field(m.split(" | ")[2])[2]
            if sum(len(x) + 1 for x in listed) > 900:
                # -Q prints through hostlist_deranged_string into a 1024-byte buffer: long lists are the
                # business of C14 (its overflow, D14, can crash opt_list)
                dist["cli-skipped-long-list"] = dist.get("cli-skipped-long-list", 0) + 1
                continue
        cls, hosts, trunc = cli.query(s.decode("latin1"), timeout=20)
        case["pdsh"] = cls
        if m.startswith("ok | "):
            mcls = "ok" if int(m.split(" | ")[1]) > 0 else "nohosts"
        elif m.startswith("ub:"):
            mcls = "crash"
        elif m == "diverge":
            mcls = "timeout"
        else:
            mcls = m
        icls = "crash" if cls.startswith("crash") else cls
        v0 = parse_spec(sp)
        unbal = (not v0["ok"]) and "unbalanced" in v0["problems"]
        if icls.startswith("badword:"):
            dist["cli-badword-refused"] = dist.get("cli-badword-refused", 0) + 1
        if icls != mcls and not (mcls == "crash" and icls in ("ok", "nohosts")):
            ctx.disagreement("hl model (cli) vs pdsh -Q", "text %r: pdsh %s model %s" % (s[:200], cls, m[:200]), case)
        if cls.startswith("crash") or cls == "timeout":
            big = feat_big(s)
            if feat_longplain(s):
                sig = "cli-crash:plainword>=1023"
            elif any(len(t) >= 1000 for t in impl_tokens(s)) and cls.startswith("crash"):
                # wcoll_expand parses every first-level NAME again: a bracketed word whose names reach 1023
                # bytes meets the unterminated cur_tok at the second level
                sig = "cli-crash:word>=1000bytes"
            else:
                sig = "cli-%s" % ("crash" if cls.startswith("crash") else "timeout") + (":bound>=2^64-1" if big else "")
            ctx.offender(sig, "pdsh -Q -w TEXT: %s" % cls, case)
            continue
        v = parse_spec(sp)
        if unbal and cls == "ok":
            # the text says: unbalanced brackets make the parse fail.  pdsh went on (exit 0, hosts listed).
            # `:word-dropped` = the mechanism of the code as found (the model, which mirrors it, lists the same):
            # hostlist_push() of the bad comma-word returns 0 and opt.c does not look at it.
            ctx.offender("cli-unbalanced-accepted" + (":word-dropped" if mcls == "ok" else ""),
                         "pdsh -w TEXT with unbalanced brackets exits 0 and lists %d host(s)%s" %
                         (len(hosts or []), ": the bad comma-word is dropped without a diagnostic" if mcls == "ok" else ""),
                         case)
        if not v["ok"] and set(v["problems"]) == {"toomany"} and cls != "fatal:toomany":
            ctx.offender("cli-toomany-" + cls + (":bound>=2^64-1" if feat_big(s) else ""),
                         "pdsh -w with a range larger than the limit: %s instead of the 'too many hosts' diagnostic" % cls,
                         case)
    dist["cli"] = ncli
    if only is None or only_q:
        # the OTHER listing of the working collective (`pdsh -q`: ranged form, fixed 1 KiB buffer) on texts whose
        # numbers are wider than that buffer: whatever is printed, the text must be handled safely (no crash)
        wide = [unhx(only_q)] if only_q else \
            [b"n[" + b"0" * w + b"1-" + b"0" * w + b"2]" for w in (500, 1000, 1015, 1030, 2100, 4100)] + \
            [b"n[" + b"0" * 1030 + b"1-" + b"0" * 1030 + b"2,7]x", b"n[1-3]," + b"a" * 1030 + b"[" + b"0" * 600 + b"1-2]"]
        dist["cli-q-wide"] = 0
        for s in wide:
            for attempt in (0, 1):
                rc, out, err = cli.run(["-q", "-w", s.decode("latin1")], timeout=20)
                if rc != "timeout" or cli.runaway:
                    break
            cls = cli.diag(rc, err) if rc != 0 else "ok"
            dist["cli-q-wide"] += 1
            cov["evaluations"] += 1
            if cls.startswith("crash") or cls == "timeout":
                ctx.offender("cli-q-" + ("crash" if cls.startswith("crash") else "timeout") + ":wide-range",
                             "pdsh -q -w TEXT (numbers %d characters wide): %s" % (max(len(m) for m in re.findall(rb"[0-9]+", s)), cls),
                             {"text": s[:60].decode("latin1") + "..", "expr_hex": hx(s), "origin": "cli-q", "pdsh": cls})


def load_corpus():
    d = os.path.join(VERIF_CORPUS, "C15")
    out = []
    if os.path.isdir(d):
        for f in sorted(os.listdir(d)):
            for l in open(os.path.join(d, f), "rb"):
                l = l.rstrip(b"\n")
                if l.startswith(b"hex:"):
                    out.append(bytes.fromhex(l[4:].decode()))
                elif l and not l.startswith(b"#"):
                    out.append(l)
    return out
