"""C17  Module loading is deterministic, conflict-safe, and refuses insecure code.

proof:          lean/PdshVerif/Props/C17.lean (model Mod/Load.lean: directory choice, path and file
                permission tests, registration with duplicate resolution, list_sort, forced and
                ordinary initialisation, all-or-nothing option registration)
correspondence: the real scratch-built pdsh under harness/preload_shim.c (fake uid/euid, controlled
                readdir order, controlled st_uid/st_mode of files and ancestors, dlopen log) with a
                pool of real generated modules (harness/modtmpl.c)  vs  `pdshmodel mod model`
oracle:         the observed run (exit status, `pdsh -L` stanzas, init markers, dlopen log, what
                happens to option characters) vs `pdshmodel mod spec` (clauses of the property text),
                plus a metamorphic determinism test: the same directory under a second enumeration
                order must give the same observation
"""
import itertools
import json
import os
import re

from vlib import preload
from vlib.preload import DSH, PCP, hx, unhx

LEVEL = "proof"
PROPS = "PdshVerif.Props.C17"
MANIFEST = dict(
    engine="preload",
    technique="Lean 4 proof about an executable model of mod.c/opt.c/list.c module loading + differential "
              "correspondence of the real pdsh binary (LD_PRELOAD shim, generated module pool) against the "
              "compiled model + clause-wise specification oracle + enumeration-order metamorphic test",
    text="Theorems in lean/PdshVerif/Props/C17.lean about Mod/Load.lean (all directories, stat assignments, "
         "descriptor sets, -M lists); the model is executed against the real scratch-built pdsh on generated "
         "module directories (subset of a pool of ~50 real .so files, enumeration order, stat map, uid/euid, "
         "-M/PDSH_MISC_MODULES, pdsh/pdcp personality); every observation is also judged by the specification "
         "clauses (Mod/Spec.lean) and re-run under a second enumeration order.",
    design_ref="DESIGN.md section 5 C17, appendix A.2",
    note="Lean 4.33 kernel; axioms propext/Classical.choice/Quot.sound at most (audited per theorem every run); "
         "hand-written model tied to the code by differential execution of the real binary built from /repo's "
         "working tree plus constants regenerated from /repo (option strings, S_I* bits); dlopen/dlsym, the "
         "kernel's stat/readdir and glibc getopt are parameters (controlled by the shim), not verified")

OTHER_UID = 4242
PDSH_OWNER = 500


def file_stat(real, ov):
    """FStat string of the model for a path: real os.stat overridden like the shim does"""
    if ov == "!":
        return "!"
    if real is None:
        return "!"
    uid, mode = real
    if ov:
        u, m = ov.split(":")
        if u != "-":
            uid = int(u)
        if m != "-":
            mode = int(m, 8)
    return "%d:%d" % (uid, mode)


def real_stat(path):
    try:
        st = os.stat(path)
        return (st.st_uid, st.st_mode)
    except OSError:
        return None


def obj_str(d, default_prio):
    if d.kind in ("text",):
        return "x"
    if d.kind == "noinfo":
        return "n"
    t = "~" if d.kind == "notype" else hx(d.type)
    n = "~" if d.kind == "noname" else hx(d.name)
    ini = "~" if d.init is None else ("1" if d.init == 0 else "0")
    if d.no_opts:
        opts = "~"
    elif not d.opts:
        opts = "e"
    else:
        opts = "+".join("%d.%d.%d" % (ord(c), 1 if a else 0, p) for c, a, p in d.opts)
    return "m/%s/%s/%d/%d/%s/%s" % (t, n, d.effective_prio(default_prio), d.pers, ini, opts)


class Engine:
    def __init__(self, ctx, pool, repo):
        self.ctx, self.pool, self.repo = ctx, pool, repo
        self.exe = os.path.join(repo, "src/pdsh/pdsh")
        self.pdcp = os.path.join(repo, "src/pdsh/pdcp")
        if not os.path.exists(self.pdcp):
            os.symlink("pdsh", self.pdcp)
        self.builtin = os.path.join(repo, "src/modules/.libs")
        self.builtin_files = sorted(os.listdir(self.builtin))
        self.default_prio = 100
        m = re.search(r"MO_DEFAULT_PRIORITY : Int := (-?\d+)",
                      open(os.path.join(preload.HARNESS, "..", "lean", "PdshVerif", "Gen", "Modopt.lean")).read())
        if m:
            self.default_prio = int(m.group(1))

    # -- description of a directory for the model ------------------------------------------------
    def builtin_obj(self, f):
        if f == "execcmd.so":
            return "m/%s/%s/%d/%d/~/e" % (hx("rcmd"), hx("exec"), self.default_prio, DSH)
        if f == "xrcmd.so":
            return "m/%s/%s/%d/%d/~/e" % (hx("rcmd"), hx("rsh"), self.default_prio, DSH | PCP)
        return "x"

    def given(self, dirpath, f):
        """the path of a directory entry as pdsh spells it (PDSH_MODULE_DIR may name the symbolic link)"""
        c = getattr(self, "cur", None)
        if c is not None and c.get("dirlink") and dirpath == self.pool.dir:
            return os.path.join(self.pool.linkdir, f)
        return os.path.join(dirpath, f)

    def override(self, statmap, path):
        """harness/preload_shim.c stat(): the path as given, else its realpath"""
        return statmap.get(path, statmap.get(os.path.realpath(path)))

    def target(self, f):
        """the OBJECT a name of the pool directory denotes: the pool id of the file the name resolves to"""
        d = self.pool.by_file.get(f)
        if d is None:
            return None
        return d.link_to if d.kind == "link" else d.id

    def reps(self, c):
        """object -> the name that stands for it in observations of this case: the smallest of its names in the
        directory that pass the per-file tests (the smallest name at all when none does).  WHICH of its names carries a
        module is not an observable of pdsh (-L shows type/name/description, not files)"""
        self.cur = c
        by, ok = {}, {}
        for f in c["files"]:
            t = self.target(f)
            if t is None:
                continue
            by.setdefault(t, set()).add(f)
            p = self.given(self.pool.dir, f)
            if self.passes_file_tests(file_stat(real_stat(p), self.override(c["statmap"], p))):
                ok.setdefault(t, set()).add(f)
        return {t: min(ok.get(t) or by[t]) for t in by}

    def canon(self, c, f):
        if not self.uses_env(c):
            return f
        t = self.target(f)
        return f if t is None else self.reps(c).get(t, f)

    def dir_str(self, dirpath, files, objf, statmap, spec=False):
        anc = self.pool.ancestors(dirpath)
        path = ",".join(file_stat(real_stat(a), statmap.get(a)) for a in anc)
        ents = []
        pooldir = dirpath == self.pool.dir
        ids = [d.id for d in self.pool.descs]
        reps = self.reps(self.cur) if pooldir else {}
        for f in files:
            p = self.given(dirpath, f)
            # stat follows symbolic links: an override given for the link's target applies to the link as well
            ov = self.override(statmap, p)
            st = file_stat(real_stat(p), ov)
            obj = objf(f)
            t = self.target(f) if pooldir else None
            if spec and t is not None and reps.get(t, f) != f:
                # the specification speaks about OBJECTS: one object under several names is one module, presented
                # under the name that stands for it; its other names are files that are opened and register nothing
                if obj.startswith("m/"):
                    obj = "n"
            oid = "" if (t is None or spec) else ",%d" % ids.index(t)
            ents.append("%s,%s,%s%s" % (hx(f), st, obj, oid))
        return path + "@" + ";".join(ents)

    def passes_file_tests(self, st):
        if st == "!":
            return False
        uid, mode = [int(x) for x in st.split(":")]
        c = self.cur
        ost = file_stat(real_stat(self.pdcp if c["pers"] == PCP else self.exe), c["statmap"].get(self.exe))
        owner = None if ost == "!" else int(ost.split(":")[0])
        return (mode & 0o170000) == 0o100000 and not (mode & 0o002) and uid in (0, c["uid"], owner)

    def twins(self, c):
        """names of this case's directory that are the same object as another entry, both passing the file tests"""
        if not self.uses_env(c):
            return []
        self.cur = c
        by = {}
        for f in c["files"]:
            p = self.given(self.pool.dir, f)
            d = self.pool.by_file.get(f)
            if d is None or d.kind not in ("mod", "link"):
                continue
            ov = self.override(c["statmap"], p)
            if not self.passes_file_tests(file_stat(real_stat(p), ov)):
                continue
            by.setdefault(self.target(f), []).append(f)
        return sorted({f for g in by.values() if len(set(g)) > 1 for f in g})

    def pool_obj(self, f):
        d = self.pool.by_file.get(f)
        if d is None or d.kind in ("dir", "ghost"):
            return "x"
        if d.kind == "link":
            # a second name for another pool file: dlopen yields that file's descriptor
            return obj_str(self.pool.by_id[d.link_to], self.default_prio)
        return obj_str(d, self.default_prio)

    def case_line(self, c, order=None, use=(), spec=False):
        sm = c["statmap"]
        self.cur = c
        uses_env = self.uses_env(c)
        envfiles = order if (order is not None and uses_env) else c["files"]
        bfiles = order if (order is not None and not uses_env) else c["bfiles"]
        if c.get("opendir_fail"):
            # a directory that cannot be enumerated is, for the loader, a directory without entries
            if uses_env:
                envfiles = []
            else:
                bfiles = []
        exe = self.pdcp if c["pers"] == PCP else self.exe
        # the owner is taken from stat() of the program path: the symlink is followed
        ost = file_stat(real_stat(exe), sm.get(self.exe))
        owner = "~" if ost == "!" else ost.split(":")[0]
        toks = ["pers=%d" % c["pers"], "uid=%d" % c["uid"], "euid=%d" % c["euid"], "owner=" + owner,
                "misc=" + ("~" if c["misc"] is None else hx(c["misc"]))]
        if c["envdir"]:
            toks.append("env=" + self.dir_str(self.pool.dir, envfiles, self.pool_obj, sm, spec=spec))
        else:
            toks.append("env=~")
        toks.append("builtin=" + self.dir_str(self.builtin, bfiles, self.builtin_obj, sm))
        toks.append("use=" + ",".join(str(ord(ch)) for ch in use))
        return " ".join(toks)

    def uses_env(self, c):
        return bool(c["envdir"]) and c["uid"] != 0 and c["uid"] == c["euid"]

    # -- one run of the real binary ---------------------------------------------------------------
    def run(self, c, order=None, extra=(), final="-L"):
        env_dir = self.uses_env(c)
        files = order if order is not None else (c["files"] if env_dir else c["bfiles"])
        args = []
        extra_env = {}
        if c.get("misc_env") is not None:
            extra_env["PDSH_MISC_MODULES"] = c["misc_env"]
        if c.get("misc_opt_first") is not None:
            args += ["-M", c["misc_opt_first"]]      # an earlier -M: the LAST one counts
        if c.get("misc_opt") is not None:
            args += ["-M", c["misc_opt"]]
        args += list(extra) + [final]
        exe = self.pdcp if c["pers"] == PCP else self.exe
        if c.get("opendir_fail"):
            extra_env["VERIF_OPENDIR_FAIL"] = "1"
        envdir = (self.pool.linkdir if c.get("dirlink") else self.pool.dir) if c["envdir"] else None
        r = None
        for attempt in (1, 2):
            r = preload.run_pdsh(self.pool, exe, args, uid=c["uid"], euid=c["euid"], moddir_env=envdir,
                                 fake_dir=self.pool.dir if env_dir else self.builtin, dirlist=files,
                                 statmap=c["statmap"], extra_env=extra_env, argv0=exe)
            if r["rc"] != -999:
                break               # a time-out alone is tried once more before it counts
        r["files"] = list(files)
        self.cur = c
        return r

    def observe(self, r, c=None):
        """canonical observation of a `-L` run: (fatal, listed [(file, active)], calls [file], opened [file]); a module
        prints the pool id of its OBJECT: it is reported under the name that stands for the object in this case"""
        c = c if c is not None else self.cur
        listed = []
        opened = [os.path.basename(l.split(" ", 1)[1]) for l in r["log"] if l.startswith("dlopen ")]
        reps = self.reps(c) if self.uses_env(c) else {}

        def file_of(d):
            return reps.get(d.id, d.file)
        for tn, act, descr in preload.parse_L(r["out"]):
            d = self.pool.by_id.get(descr)
            if d is not None:
                listed.append((file_of(d), bool(act)))
            elif tn == "rcmd/exec":
                listed.append(("execcmd.so", bool(act)))
            elif tn == "rcmd/rsh":
                listed.append(("xrcmd.so", bool(act)))
            else:
                listed.append(("?" + tn, bool(act)))
        calls = [file_of(self.pool.by_id[l.split()[1]]) for l in r["log"] if l.startswith("init ")]
        return {"rc": r["rc"], "fatal": r["rc"] != 0, "listed": listed, "calls": calls, "opened": opened}


def parse_model(line, canon=None):
    """the model's answer; `canon` maps a file name to the name that stands for its object in this case"""
    canon = canon or (lambda f: f)
    w = line.split()
    out = {"fatal": w[0] == "fatal", "raw": line}
    for t in w[1:]:
        k, v = t.split("=", 1)
        out[k] = v
    out["listed"] = [(canon(unhx(x.split(":")[0])), x.split(":")[1] == "1") for x in out.get("L", "").split(",") if x]
    out["calls"] = [canon(unhx(x)) for x in out.get("C", "").split(",") if x]
    out["opened"] = [unhx(x) for x in out.get("D", "").split(",") if x]
    out["opts"] = unhx(out.get("O", "-"))
    out["uses"] = {}
    for x in out.get("U", "").split(","):
        if x:
            c, u = x.split(":")
            if u.startswith("h"):
                u = "h%s.%s" % (hx(canon(unhx(u[1:].split(".")[0]))), u.split(".")[1])
            out["uses"][chr(int(c))] = u
    return out


def obs_tokens(o, uses):
    return " obs=%s oL=%s oC=%s oD=%s oU=%s" % (
        "fatal" if o["fatal"] else "ok",
        ",".join("%s:%d" % (hx(f), 1 if a else 0) for f, a in o["listed"]),
        ",".join(hx(f) for f in o["calls"]), ",".join(hx(f) for f in o["opened"]),
        ",".join("%d:%s" % (ord(c), u) for c, u in uses.items()))


# ------------------------------------------------------------------------------------------ generator

GROUPS = [["m01", "m02", "m22"], ["m03", "m04", "m05"], ["m13", "m14"], ["m01", "m18", "m19"], ["m02", "m20", "m31"],
          ["m24", "m25"], ["m26", "r05"], ["m08", "m09", "m10"], ["m11", "m12", "m30"], ["m06", "m28", "m29"],
          ["m07", "m15", "m16", "m17"], ["m21", "m23", "m27"], ["r01", "r09", "m01"], ["r10", "m01"],
          ["x01", "x02", "x03", "x04", "x05", "x06"], ["o01", "r03", "r11"], ["m07", "m32"], ["m33", "m27", "m08", "m09"],
          ["m06", "s01", "m28"], ["m34", "m01"], ["m35", "m36", "m01"]]


def gen_case(rng, eng, shape=None):
    pool = eng.pool
    ids = []
    for g in rng.sample(GROUPS, rng.choice([1, 1, 2, 2, 3])):
        ids += rng.sample(g, rng.randrange(1, len(g) + 1))
    ids += rng.sample([d.id for d in pool.descs], rng.choice([0, 1, 2, 3]))
    seen, files = set(), []
    for i in ids:
        if i not in seen:
            seen.add(i)
            files.append(pool.by_id[i].file)
    files = files[:9]
    if rng.random() < 0.15:
        files += [".", ".."]
    rng.shuffle(files)
    c = {"files": files, "statmap": {}, "uid": 1000, "euid": 1000, "pers": DSH if rng.random() < 0.8 else PCP,
         "envdir": True, "misc": None, "misc_env": None, "misc_opt": None,
         "bfiles": rng.sample(eng.builtin_files, len(eng.builtin_files))}
    r = rng.random()
    if r < 0.07:
        c["uid"] = c["euid"] = 0
    elif r < 0.12:
        c["euid"] = rng.choice([0, 1])
    elif r < 0.17:
        c["uid"] = c["euid"] = rng.choice([1, 65534])
    if rng.random() < 0.05:
        c["envdir"] = False
    r = rng.random()
    if r < 0.08:
        c["dirlink"] = True
    elif r < 0.10:
        c["opendir_fail"] = True
    elif r < 0.12:
        c["files"] = [x for x in c["files"] if x in (".", "..")]
    sm = c["statmap"]
    owner_faked = False
    if rng.random() < 0.2:
        sm[eng.exe] = "%d:-" % PDSH_OWNER
        owner_faked = True
    if rng.random() < 0.02:
        sm[eng.exe] = "!"
    # per-file overrides
    target_dir = pool.dir if eng.uses_env(c) else eng.builtin
    tfiles = files if eng.uses_env(c) else c["bfiles"]
    for f in tfiles:
        if rng.random() < 0.14 and f not in (".", ".."):
            kind = rng.choice(["ow", "ow2", "badowner", "owner_pdsh", "owner_me", "gw", "notreg", "fifo", "nostat",
                               "badowner_ow"])
            p = os.path.join(target_dir, f)
            c.setdefault("kinds", []).append("file:" + kind)
            sm[p] = {"ow": "-:100666", "ow2": "-:100646", "badowner": "%d:-" % OTHER_UID,
                     "owner_pdsh": "%d:-" % PDSH_OWNER, "owner_me": "%d:-" % c["uid"], "gw": "-:100664",
                     "notreg": "-:40755", "fifo": "-:10644", "nostat": "!",
                     "badowner_ow": "%d:100666" % OTHER_UID}[kind]
    # ancestor overrides
    if rng.random() < 0.22:
        anc = pool.ancestors(target_dir)
        a = rng.choice(anc)
        kind = rng.choice(["ow", "ow_sticky", "badowner", "owner_pdsh", "owner_me", "gw", "notdir", "nostat",
                           "badowner_sticky"])
        c.setdefault("kinds", []).append("ancestor:" + kind)
        sm[a] = {"ow": "-:40777", "ow_sticky": "-:41777", "badowner": "%d:40755" % OTHER_UID,
                 "owner_pdsh": "%d:40755" % PDSH_OWNER, "owner_me": "%d:40755" % c["uid"], "gw": "-:40775",
                 "notdir": "-:100755", "nostat": "!", "badowner_sticky": "%d:41777" % OTHER_UID}[kind]
    # -M / PDSH_MISC_MODULES
    if rng.random() < 0.5:
        names = [pool.by_file[f].name for f in files if f in pool.by_file and pool.by_file[f].kind == "mod"]
        names = [n for n in names if n]

        def mk():
            k = rng.choice([1, 1, 2, 3])
            ns = [rng.choice(names) for _ in range(k)] if names else []
            if rng.random() < 0.15:
                ns.append(rng.choice(["nosuch", "t1", "alpha", ""]))
            rng.shuffle(ns)
            s = ",".join(ns)
            if rng.random() < 0.1:
                s = "," + s + ",,"
            return s
        how = rng.random()
        if how < 0.6:
            c["misc_opt"] = mk()
        elif how < 0.85:
            c["misc_env"] = mk()
        else:
            c["misc_env"], c["misc_opt"] = mk(), mk()
            if rng.random() < 0.4:
                c["misc_opt_first"] = mk()
        # an empty -M argument is an empty string: misc_modules = "" (strlen 0: ignored)
        c["misc"] = c["misc_opt"] if c["misc_opt"] is not None else c["misc_env"]
    return c


def planned_cases(eng):
    """the witnesses of the known order dependences and a few boundary cases, always run first"""
    out = []

    def mk(files, **kw):
        c = {"files": files, "statmap": {}, "uid": 1000, "euid": 1000, "pers": DSH, "envdir": True, "misc": None,
             "misc_env": None, "misc_opt": None, "bfiles": list(eng.builtin_files)}
        c.update(kw)
        if c["misc_opt"] is not None:
            c["misc"] = c["misc_opt"]
        return c
    out.append(mk(["m26.so", "r05.so"]))
    out.append(mk(["m01.so", "m19.so"]))
    out.append(mk(["m25.so", "m24.so", "m06.so"]))
    out.append(mk(["m24.so", "m25.so", "m06.so"]))
    out.append(mk(["m11.so", "m06.so"], misc_opt="lambda"))
    out.append(mk(["m13.so", "m14.so"]))
    out.append(mk(["m01.so", "m02.so"], misc_opt="beta"))
    out.append(mk(["m02.so", "m01.so"], misc_opt="alpha,beta"))
    out.append(mk(["m01.so", "m06.so"], uid=0, euid=0))
    out.append(mk(["m01.so", "m06.so"], euid=0))
    out.append(mk(["m08.so", "m09.so", "m10.so"], pers=PCP))
    # a shared option used on the command line while the EARLIER-sorted owner is inactive because of -M
    out.append(mk(["m01.so", "m02.so", "m22.so"], misc_opt="tau"))
    out.append(mk(["m03.so", "m04.so", "m05.so"], misc_opt="gamma"))
    # file-name order differs from declared-name order among equal priorities, with a shared option:
    # m03=gamma / m04=delta share -g (delta sorts first by name, gamma by file); m13=nu / m14=xi; m02=beta / m22=tau
    out.append(mk(["m03.so", "m04.so"]))
    out.append(mk(["m04.so", "m03.so", "m21.so", "m16.so"]))
    out += pinned_classes(eng, mk)
    return out


def pinned_classes(eng, mk):
    """Run in EVERY run whatever the seed, each class of the property text systematically:
      ties        every (priority, name, type) tie pattern of the pool, under EVERY enumeration order (<= 4 files)
      conflicts   option tables where a later-loaded module holds a letter registered earlier, in first and in
                  non-first position of its table; built-in letters; personality-specific rows; a failing initialiser
      -M          a missing, repeated, conflicting, non-misc name; empty pieces; option and environment
      permissions every owner (root / caller / owner of the binary / somebody else) x mode (plain, group-writable,
                  world-writable, world-writable+sticky, group-writable+sticky) on a module file and on EACH
                  ancestor directory up to "/", with the binary owned by root and by a third user
      links       module files that are symbolic links (inside and outside the directory), PDSH_MODULE_DIR naming a
                  symbolic link that lives in a world-writable directory
      enumeration a directory that cannot be opened, an empty one, one with only "." and ".."
    Every case of a tie/conflict group is also compared with the group's FIRST order (determinism)."""
    out = []
    pool = eng.pool

    def orders(ids, stride=1, tag="orders", **kw):
        files = [pool.by_id[i].file for i in ids]
        first = None
        for k_, perm in enumerate(itertools.permutations(files)):
            if k_ % stride and perm != tuple(reversed(files)):
                continue
            c = mk(list(perm), **kw)
            c["_all_letters"] = first is None
            c["_no_letters"] = first is not None
            if first is None:
                first = list(perm)
            else:
                c["_order2"] = list(first)
            c["pinned"] = tag
            out.append(c)
    # list_sort (list.c: the only sorter of module_list): groups of 4, 5 and 6 modules with pairwise DISTINCT priorities
    # (and no duplicate names), under EVERY enumeration order (4: all 24, 5: all 120; 6: every 5th of the 720 orders
    # plus the reversed one).  The initial module_list is the reversed enumeration order (list_prepend); the sorter is
    # an insertion sort with a trailing "previous element" cursor -- a slip in the cursor handling shows from the
    # fourth element on and only for some initial orders.  -L shows module_list in list order, the initialisation
    # order follows it, and modules of different priority competing for a letter show the order in the active set.
    orders(["m28", "m05", "m04", "m06"], tag="sort")             # 300 m,O | 200 j | 100 j,g | 50 m
    orders(["m35", "m18", "m22", "m36"], tag="sort")             # INT_MAX 2 | 150 a,C | 100 a | INT_MIN 2,a
    orders(["m25", "m06", "m15", "m16"], tag="sort")             # 90 | 50 | 0 | -1: nothing shared, the order alone
    orders(["m28", "m05", "m18", "m04", "m06"], tag="sort")      # 300 | 200 | 150 | 100 | 50
    orders(["m01", "m25", "m06", "m15", "m16"], tag="sort")      # 100 | 90 | 50 | 0 | -1
    orders(["m01", "m22", "m03", "m05", "m06"], tag="sort")      # three of equal priority (order by name) between 200 and 50
    orders(["m28", "m05", "m18", "m04", "m25", "m06"], stride=5, tag="sort")
    orders(["m35", "m31", "m24", "m11", "m15", "m36"], stride=5, tag="sort", pers=PCP)
    # ties and duplicates
    orders(["m26", "r05", "m23"])                    # misc/tie + rcmd/tie, same priority, same letter
    orders(["m01", "m19", "r10", "m02"])             # equal-priority duplicate; rcmd/alpha beside misc/alpha
    orders(["m02", "m20", "m31", "m22"])             # three betas 100 / 50 / 170
    orders(["m01", "m18", "m19", "m22"])             # duplicate with higher and with equal priority
    orders(["m24", "m25", "m06"])                    # higher-priority duplicate of the other personality
    orders(["m24", "m25", "m06"], pers=PCP)
    orders(["m11", "m30", "m12"])                    # duplicate of an option-less module
    orders(["r01", "r09", "m01"])                    # rcmd duplicate, the better one conflicts with alpha
    orders(["m06", "s01", "m28"])                    # one object under two names
    orders(["m34", "m01", "s01"])
    orders(["m19", "a19", "m01"])                    # one object under names on BOTH sides of an equal-priority duplicate
    orders(["m20", "a20", "m02"])                    # ... of a higher-priority duplicate (the object is evicted / refused)
    orders(["m20", "a20", "m02", "m31"])
    orders(["m18", "a19", "m19"])                    # ... of a higher-priority duplicate: dropped, second name starts afresh
    # conflicts
    orders(["m03", "m04", "m05"])                    # eps(200) j | delta j,g | gamma g,i : delta loses on its FIRST row
    orders(["m07", "m32", "m16"])                    # eta n,q(built-in): loses on its SECOND row, zz must get n
    orders(["m33", "m27", "m08", "m09"])             # aaa H,o | chi H,a(pcp) | theta r,o | iota S(pcp),o(dsh)
    orders(["m33", "m27", "m08", "m10"], pers=PCP)
    orders(["m13", "m14", "m21"])                    # nu: init fails AFTER its option was registered; xi wants it
    orders(["m28", "m29", "m06"])                    # psi(300) m:,O | omega O, init fails | zeta(50) m
    orders(["m15", "m17", "m23"])                    # a letter twice in one table
    orders(["m35", "m36", "m01"])                    # priorities INT_MAX and INT_MIN beside an ordinary one
    orders(["m36", "m06", "m16"])                    # INT_MIN below 50 and -1
    # -M
    for files, misc in ((["m01.so", "m02.so", "m22.so"], "nosuch"), (["m01.so", "m02.so", "m22.so"], "beta,beta"),
                        (["m01.so", "m02.so", "m22.so"], "tau,beta,alpha"), (["m01.so", "m02.so", "m22.so"], "beta,nosuch,alpha"),
                        (["m02.so", "m01.so"], ""), (["m02.so", "m01.so"], ",beta,,"), (["m02.so", "m01.so"], ","),
                        (["m01.so", "r10.so", "m02.so"], "alpha"), (["r01.so", "m02.so", "m01.so"], "t1"),
                        (["m13.so", "m14.so"], "xi"), (["m13.so", "m14.so"], "nu,xi"), (["m07.so", "m32.so"], "eta,zz"),
                        (["m18.so", "m01.so", "m02.so"], "alpha"), (["m24.so", "m25.so", "m06.so"], "phi"),
                        (["m11.so", "m30.so", "m06.so"], "lambda")):
        for how in ("opt", "env", "both"):
            c = mk(list(files))
            if how == "opt":
                c["misc_opt"] = misc
            elif how == "env":
                c["misc_env"] = misc
            else:
                c["misc_env"], c["misc_opt"] = "zeta,nosuch", misc
            c["misc"] = c["misc_opt"] if c["misc_opt"] is not None else c["misc_env"]
            c["_all_letters"] = how == "opt"
            c["_no_letters"] = how != "opt"
            c["pinned"] = "-M"
            out.append(c)
    # -M REPLACES PDSH_MISC_MODULES and an earlier -M (it is not added to them): the environment / the earlier option
    # names a module that CONFLICTS with the one the last -M asks for (shared letter, failing initialiser, duplicate)
    for files, a, b in ((["m01.so", "m02.so"], "alpha", "beta"), (["m02.so", "m01.so", "m22.so"], "tau", "alpha"),
                        (["m03.so", "m04.so", "m05.so"], "gamma", "delta"), (["m14.so", "m13.so"], "xi", "nu"),
                        (["m28.so", "m06.so", "m29.so"], "zeta", "psi"), (["m33.so", "m27.so", "m08.so", "m09.so"], "iota", "aaa")):
        for env, first, opt in ((b, None, a), (a, None, b), (b + "," + a, None, a), (b, None, ""), ("nosuch", None, a),
                                (None, b, a), (None, a, b), (b, a, a), (a, b, "nosuch"), (b, None, None)):
            c = mk(list(files))
            c["misc_env"], c["misc_opt_first"], c["misc_opt"] = env, first, opt
            c["misc"] = opt if opt is not None else env
            c["_all_letters"] = env == b and first is None and opt == a
            c["_no_letters"] = not c["_all_letters"]
            c["pinned"] = "-M"
            out.append(c)
    # permissions
    anc = pool.ancestors()
    targets = [("file", os.path.join(pool.dir, "m01.so"), 0o100644), ("file-outside", os.path.join(pool.dir, "m34.so"), 0o100644)]
    targets += [("ancestor%d" % i, a, 0o40755) for i, a in enumerate(anc)]
    for tname, path, base in targets:
        for uid in (0, 1000, PDSH_OWNER, OTHER_UID):
            for bits in (0, 0o020, 0o002, 0o1002, 0o1020, 0o1000):
                for owner_faked in ((True, False) if uid in (PDSH_OWNER, OTHER_UID) and bits in (0, 0o1002) else (True,)):
                    sm = {path: "%d:%o" % (uid, base | bits)}
                    if owner_faked:
                        sm[eng.exe] = "%d:-" % PDSH_OWNER
                    c = mk(["m01.so", "m06.so", "m34.so"], statmap=sm)
                    c["_no_letters"] = True
                    c["pinned"] = "perm"
                    c["kinds"] = ["%s:uid=%s,bits=%o" % (tname.rstrip("0123456789"), {0: "root", 1000: "caller", PDSH_OWNER: "binary-owner",
                                                                                        OTHER_UID: "other"}[uid], bits)]
                    out.append(c)
    # two insecure things at once, type bits
    for sm in ({anc[1]: "-:40777", anc[3]: "%d:40755" % OTHER_UID}, {anc[0]: "-:100755"}, {anc[2]: "!"},
               {os.path.join(pool.dir, "m01.so"): "-:40755"}, {os.path.join(pool.dir, "m01.so"): "!"},
               {os.path.join(pool.dir, "m01.so"): "-:10644"}, {eng.exe: "!"},
               {os.path.join(pool.dir, "m01.so"): "%d:100666" % OTHER_UID, os.path.join(pool.dir, "m06.so"): "-:100602"}):
        c = mk(["m01.so", "m06.so", "m34.so"], statmap=dict(sm))
        c["_no_letters"] = True
        c["pinned"] = "perm"
        out.append(c)
    # callers
    for uid, euid in ((0, 0), (1000, 0), (0, 1000), (1000, 1001), (65534, 65534), (1, 1)):
        for envdir in (True, False):
            c = mk(["m01.so", "m06.so"], uid=uid, euid=euid, envdir=envdir)
            c["pinned"] = "caller"
            out.append(c)
    # links and enumeration
    for files in (["m01.so", "m34.so", "s01.so"], ["s01.so"], ["m34.so"]):
        for dirlink in (False, True):
            c = mk(list(files), dirlink=dirlink)
            c["_all_letters"] = True
            c["pinned"] = "links"
            out.append(c)
    c = mk(["m01.so", "m06.so"], dirlink=True, statmap={anc[0]: "%d:40755" % OTHER_UID})
    c["pinned"] = "links"
    out.append(c)
    # readdir() delivering an entry twice (it may, while the directory changes): the second one is "already loaded"
    for files in (["m01.so", "m06.so", "m01.so"], ["m06.so", "m06.so"], ["m18.so", "m01.so", "m18.so", "m01.so"],
                  ["m24.so", "m25.so", "m24.so", "m06.so"]):
        c = mk(list(files))
        c["_all_letters"] = True
        c["pinned"] = "enumeration"
        out.append(c)
    for kw in (dict(files=["m01.so", "m06.so"], opendir_fail=True), dict(files=[]), dict(files=[".", ".."]),
               dict(files=["x01.txt", "x05.d", "x06.so", "x02.so"]), dict(files=["m10.so", "m24.so"])):
        c = mk(list(kw.pop("files")), **kw)
        c["pinned"] = "enumeration"
        out.append(c)
    return out


def letters_of(eng, c):
    base = set("hLNKRMtcqfwxlubIdVTQ" + "SkpryzZe")
    ls = set()
    for f in c["files"]:
        d = eng.pool.by_file.get(f)
        if d is not None and d.kind == "mod":
            for ch, _, _ in d.opts:
                if ch not in base:
                    ls.add(ch)
    return sorted(ls)


def order_dep_signature(eng, c, model_env_line=None):
    """names the features of this directory that can CAUSE an order dependence in the code under test
    (the probed form of _mod_register/_cmp_f decides which features still count):
      dup-pers   a module of another personality with the same (type,name) as a loadable module and a higher
                 priority -- only while _mod_register tests the personality after the eviction
      dup-equal  two loadable modules with the same (type,name) and the same, group-maximal priority
      tie        two loadable modules of different (type,name) with equal name and priority, both maximal
                 in their own group -- both only while ties are not broken by type / file name
    anything else is `order-dep:other` and never matches a finding"""
    pool = eng.pool
    if not eng.uses_env(c):
        return "order-dep:other"
    sm = c["statmap"]
    ost = file_stat(real_stat(eng.exe), sm.get(eng.exe))
    owner = None if ost == "!" else int(ost.split(":")[0])
    mods = []
    for f in c["files"]:
        d = pool.by_file.get(f)
        if d is None or d.kind not in ("mod", "link"):
            continue
        st = file_stat(real_stat(os.path.join(pool.dir, f)), eng.override(sm, os.path.join(pool.dir, f)))
        if st == "!":
            continue
        uid, mode = [int(x) for x in st.split(":")]
        if (mode & 0o170000) != 0o100000 or (mode & 0o002) or uid not in (0, c["uid"], owner):
            continue
        mods.append(d)
    prio = lambda d: d.effective_prio(eng.default_prio)
    ok = [d for d in mods if d.pers & c["pers"]]
    foreign = [d for d in mods if not (d.pers & c["pers"])]
    top = {}
    for d in ok:
        k = (d.type, d.name)
        top[k] = max(top.get(k, prio(d)), prio(d))
    best = [d for d in ok if prio(d) == top[(d.type, d.name)]]
    pats = set()
    if "sameobj-tie" not in eng.repaired:
        # F17-SAMEOBJ-TIE: one object under two names that pass the file tests, and ANOTHER object with the same type and
        # name and the same (group-maximal) priority
        tw = eng.twins(c)
        for a, b in itertools.combinations(best, 2):
            if (a.type, a.name) == (b.type, b.name) and eng.target(a.file) != eng.target(b.file) and \
               (a.file in tw or b.file in tw):
                pats.add("sameobj-tie")
    if "pers" not in eng.repaired:
        for f in foreign:
            if any((f.type, f.name) == (d.type, d.name) and prio(f) > prio(d) for d in ok):
                pats.add("dup-pers")
    if "tie" not in eng.repaired:
        for a, b in itertools.combinations(best, 2):
            if eng.target(a.file) == eng.target(b.file):
                continue
            if (a.type, a.name) == (b.type, b.name):
                pats.add("dup-equal")
            elif a.name == b.name and prio(a) == prio(b):
                pats.add("tie")
    return "order-dep:" + ("+".join(sorted(pats)) if pats else "other")


def classify(eng, c, viol):
    """signature of one specification violation"""
    cls, detail = viol.split(":", 1)
    if cls == "missing" and detail != "-":
        f = unhx(detail)
        d = eng.pool.by_file.get(f)
        if d is not None:
            for g in c["files"]:
                e = eng.pool.by_file.get(g)
                if e is not None and e is not d and e.kind == "mod" and (e.type, e.name) == (d.type, d.name) and \
                   not (e.pers & c["pers"]) and e.effective_prio(eng.default_prio) > d.effective_prio(eng.default_prio):
                    return "missing:evicted-by-unloadable-duplicate"
    return cls


def run(ctx):
    rng = ctx.rng
    ctx.gen_consts(["modopt"])
    ctx.lean_build([PROPS, "pdshmodel"])
    ctx.audit(PROPS)
    cov = {"evaluations": 0, "distinct_nontrivial": 0, "samples": [],
           "rule": "~1250 pinned cases first (list_sort: every enumeration order of 3 groups of 4 and 3 groups of 5 modules of "
                   "pairwise distinct priorities -- one of the 5 with an equal-priority triple --, every 5th order of 2 groups of 6; "
                   "every enumeration order of 17 tie / duplicate / conflict groups of 3-4 modules, "
                   "-M lists naming missing, repeated, conflicting and non-misc modules via option and environment, the "
                   "permission matrix owner x mode on a module file and on EACH ancestor directory, callers, symbolic links "
                   "to files and to the directory, unopenable / empty / repeated enumeration), then random: "
                   "a case = subset of a pool of ~55 generated module files (planned option overlaps incl. built-in "
                   "letters, duplicate (type,name) with higher/equal/lower priority, other-personality duplicates, "
                   "failing/absent init, NULL/empty tables, broken objects) + enumeration order + stat overrides for "
                   "files and ancestors + uid/euid + owner of the binary + -M/PDSH_MISC_MODULES + pdsh/pdcp; each case "
                   "is run under two enumeration orders and with up to 3 option characters; non-trivial = the "
                   "directory has an option overlap among loadable modules, a duplicate (type,name), an insecure "
                   "file/ancestor, or a root/set-uid caller; distinct = distinct (sorted files, stat map, ids, -M, pers)"}
    repo = ctx.repo_build()
    pool = preload.Pool(ctx)
    ok = repo is not None and pool.build() and preload.check_imports(ctx, os.path.join(repo, "src/pdsh/pdsh"))
    dist = {"runs": 0, "fatal": 0, "root_or_setuid": 0, "insecure_file": 0, "insecure_path": 0, "forced": 0,
            "pcp": 0, "order_pairs": 0, "order_dependent": 0, "opt_uses": 0, "exhaustive_orders": 0, "branches": {},
            "perm_matrix": 0, "sort_orders": {}, "spec_violation_classes": {}}
    distinct = set()
    if ok:
        eng = Engine(ctx, pool, repo)
        # which form of _mod_register is this? (F17-PERS repaired = personality test before the duplicate
        # handling: the loadable lower-priority module survives whatever the order)
        # WHICH FORM OF EACH REPAIRED FUNCTION IS THIS?  The model without a switch is the code as it is now (/repo HEAD:
        # all five repairs); a binary that shows an older form of one function gets the model of that form, so that the
        # revert of a repair is reported by the specification / determinism oracle with a replay (not as a broken
        # correspondence).  Every probe is behavioural: a tiny directory run through the binary.
        base = planned_cases(eng)[0]
        eng.margs = ["model"]
        eng.repaired = set()
        # F17-PERS (59829e8): the personality is tested before the duplicate handling -- the loadable lower-priority
        # module survives whatever the order
        if ("m25.so", True) in eng.observe(eng.run(planned_cases(eng)[2]))["listed"]:
            eng.repaired.add("pers")
        else:
            eng.margs.append("nopers")
            ctx.log("_mod_register tests the personality AFTER the eviction (F17-PERS as before 59829e8): model `nopers`")

        # F17-TIE (c80ee4f): misc/tie + rcmd/tie and the two equal-priority misc/alpha give the same list in both orders
        def same_both_orders(files):
            pc = dict(base, files=list(files))
            a = eng.observe(eng.run(pc))["listed"]
            b = eng.observe(eng.run(pc, order=list(reversed(files))))["listed"]
            return a == b
        if same_both_orders(["m26.so", "r05.so"]) and same_both_orders(["m01.so", "m19.so"]):
            eng.repaired.add("tie")
        else:
            eng.margs.append("notie")
            ctx.log("ties are resolved by enumeration order (F17-TIE as before c80ee4f): model `notie`")
        # F17-SAMEOBJ (fde0027): one object under two names no longer ends the run
        so = eng.observe(eng.run(dict(base, files=["m06.so", "s01.so", "m01.so"])))
        if so["rc"] == 0 and ("m06.so", True) in so["listed"] and ("m01.so", True) in so["listed"]:
            eng.repaired.add("sameobj")
        else:
            eng.margs.append("nosameobj")
            ctx.log("an object under a second name is registered again (F17-SAMEOBJ as before fde0027): model `nosameobj`")
        # F17-PRIO-OVERFLOW (930abcb): priority INT_MIN sorts behind priority 100
        po = eng.observe(eng.run(dict(base, files=["m36.so", "m01.so"])))
        if [f for f, _ in po["listed"]] == ["m01.so", "m36.so"]:
            eng.repaired.add("prio")
        elif "tie" in eng.repaired:
            eng.margs.append("wrapprio")
            ctx.log("_cmp_f subtracts priorities (F17-PRIO-OVERFLOW as before 930abcb): model `wrapprio`")
        # F17-SAMEOBJ-TIE (open; findings/C17-sameobj-tie.patch): an object registered under its larger name, its smaller
        # name skipped, is no longer replaced by an equal-priority duplicate whose file name lies between the two
        if "sameobj" in eng.repaired and "tie" in eng.repaired:
            st = eng.observe(eng.run(dict(base, files=["m19.so", "a19.so", "m01.so"])))
            if st["rc"] == 0 and [f for f, _ in st["listed"]] == ["a19.so"]:
                eng.repaired.add("sameobj-tie")
                eng.margs.append("rename")
                ctx.log("a skipped second name takes over when it is the smaller one (F17-SAMEOBJ-TIE repaired): model `rename`")
        dist["variant"] = " ".join(eng.margs) + " | repaired: " + ",".join(sorted(eng.repaired))
        if getattr(ctx, "replay", None):
            cases = replay_cases(ctx, eng)
            cov["rule"] = "replay of %s: exactly the recorded case(s), both recorded enumeration orders, every " \
                          "option character of the directory" % ctx.replay
            check_cases(ctx, eng, cases, cov, dist, distinct, rng)
        else:
            cases = [(c, "planned") for c in planned_cases(eng)]
            n = 1500 if ctx.quick() else 20000
            cases += [(gen_case(rng, eng), "random") for _ in range(n)]
            if not ctx.quick():
                cases += [(c, "matrix") for c in perm_matrix(eng)]
            check_cases(ctx, eng, cases, cov, dist, distinct, rng)
            if not ctx.quick():
                exhaustive_orders(ctx, eng, cov, dist, rng)
    cov["distinct_nontrivial"] = len(distinct)
    cov["distribution"] = dist
    return ctx.finish(
        LEVEL, cov,
        assumptions=["dlopen/dlsym deliver the descriptor compiled into the generated module (trusted loader)",
                     "stat/readdir/getuid results are what the shim returns (the kernel is a parameter of the model)",
                     "the activation clause of the specification is not evaluated for directories with a failing "
                     "initialiser (the text is silent on what happens to its registered options); the model "
                     "correspondence still covers them",
                     "-M lists of the oracle's domain contain no brackets (list_split is bracket aware; modelled)",
                     "a module directory maps names to objects and two names may share one (the model takes the map; the "
                     "check builds it from the pool's symbolic links); WHICH of its names carries a module is not observable: "
                     "observations and model answers name an object by the smallest of its names that passes the file tests",
                     "a directory that cannot be opened is run as a directory without entries"],
        trusted_base=["Lean 4.33 kernel", "axioms: propext, Classical.choice, Quot.sound at most (audited per theorem)",
                      "hand-written model Mod/Load.lean tied to mod.c/opt.c/list.c by differential execution",
                      "Gen/Modopt.lean regenerated from /repo (GEN_ARGS, DSH_ARGS, PCP_ARGS, S_I* bits, default priority)",
                      "harness/preload_shim.c, harness/modtmpl.c, vlib/preload.py, checks/c17.py, gcc, glibc getopt/dlopen"],
        checker_cmd="lake build PdshVerif.Props.C17 && #print axioms on every theorem of Props/C17.lean")


def replay_cases(ctx, eng):
    """cases of a replay file written by ctx.finish (kind `input`: the offender's case; kind
    `theorem-or-correspondence`: the cases embedded in the disagreement texts, as far as they are complete).
    Paths of the recorded run's scratch directory are mapped to this run's."""
    obj = json.load(open(ctx.replay))
    items = []
    if obj.get("kind") == "input":
        items.append(obj["case"])
    else:
        for b in obj.get("broken", []):
            txt = b[2] if len(b) > 2 else ""
            if ":: case=" in txt:
                try:
                    items.append(json.loads(txt.split(":: case=", 1)[1]))
                except ValueError:
                    ctx.log("replay: a recorded case is truncated in %s, skipped" % ctx.replay)
    out = []
    for it in items:
        if "case" not in it:
            continue
        c = {k: v for k, v in it["case"].items() if k != "origin"}
        old = None
        for k in c.get("statmap", {}):
            m = re.search(r"^(.*?/pdshverif-C17-[^/]+)", k)
            if m:
                old = m.group(1)
        if old:
            c["statmap"] = {k.replace(old, ctx.scratch): v for k, v in c["statmap"].items()}
        key = "files" if eng.uses_env(c) else "bfiles"
        if it.get("order1") and it.get("order2"):
            c[key] = list(it["order1"])
            c["_order2"] = list(it["order2"])
        elif it.get("order"):
            c["_order2"] = list(c[key])
            c[key] = list(it["order"])
        if key == "files":
            c["bfiles"] = list(eng.builtin_files)
        c["_all_letters"] = True
        out.append((c, "replay"))
    if not out:
        ctx.broken.append(("C-BROKEN", "replay", "no replayable case in " + str(ctx.replay)))
    return out


def branches(eng, c, o, uses, b):
    """which branches / error kinds of the loader this case exercised (coverage report only)"""
    def hit(k):
        b[k] = b.get(k, 0) + 1
    pool = eng.pool
    for k in c.get("kinds", []):
        hit("override:" + k)
    if c["uid"] == 0:
        hit("caller:root")
    elif c["uid"] != c["euid"]:
        hit("caller:setuid")
    if not c["envdir"]:
        hit("PDSH_MODULE_DIR unset")
    if c["statmap"].get(eng.exe) == "!":
        hit("owner of binary unknown")
    elif eng.exe in c["statmap"]:
        hit("owner of binary faked")
    if o["fatal"]:
        hit("fatal:nothing opened" if not o["opened"] else "fatal:nothing loadable")
    if not eng.uses_env(c):
        return
    descs = [pool.by_file[f] for f in c["files"] if f in pool.by_file]
    for d in descs:
        if d.kind != "mod":
            hit("entry:" + d.kind)
    if "." in c["files"]:
        hit("entry:dot")
    mods = [d for d in descs if d.kind == "mod"]
    keys = {}
    for d in mods:
        keys.setdefault((d.type, d.name), []).append(d)
    for g in keys.values():
        if len(g) > 1:
            ps = sorted(x.effective_prio(eng.default_prio) for x in g)
            hit("duplicate:equal priority" if len(set(ps)) < len(ps) else "duplicate:different priority")
    if any(not (d.pers & c["pers"]) for d in mods):
        hit("module of the other personality")
    if any(d.init == -1 for d in mods):
        hit("failing init present")
    if len(o["calls"]) != len(set(o["calls"])):
        hit("init run twice (forced module without applicable options)")
    listed = [pool.by_file[f] for f, _ in o["listed"] if f in pool.by_file]
    active = {f for f, a in o["listed"] if a}
    if c["misc"] is not None:
        names = [x for x in c["misc"].split(",")]
        if any(x == "" for x in names):
            hit("-M:empty piece")
        if len(set(names)) < len(names):
            hit("-M:repeated name")
        for nm in set(names):
            if nm and not any(d.type == "misc" and d.name == nm for d in listed):
                hit("-M:name not loaded")
            if nm and any(d.type == "misc" and d.name == nm and d.file not in active for d in listed):
                hit("-M:forced module stays inactive")
        hit("-M via " + ("option" if c["misc_opt"] is not None else "environment"))
    if any(f not in active for f, _ in o["listed"]):
        hit("some module inactive")
    # order by declared name vs. order by file name among the listed modules
    byname = sorted(listed, key=lambda d: (-d.effective_prio(eng.default_prio), d.name, d.type))
    byfile = sorted(listed, key=lambda d: (-d.effective_prio(eng.default_prio), d.file))
    if [d.id for d in byname] != [d.id for d in byfile]:
        hit("file-name order differs from declared-name order")
        for i, x in enumerate(byname):
            for y in byname[i + 1:]:
                if x.effective_prio(eng.default_prio) == y.effective_prio(eng.default_prio) and x.file > y.file and \
                   {ch for ch, _, p in x.opts if p & c["pers"]} & {ch for ch, _, p in y.opts if p & c["pers"]}:
                    hit("file-name order differs AND the two modules share an option")
                    break
            else:
                continue
            break
    for ch, u in uses.items():
        hit("option use:" + {"h": "handled", "i": "invalid", "n": "no active owner"}.get(u[0], "?"))
        owners = [d for d in listed if any(x == ch for x, _, _ in d.opts)]
        if len(owners) > 1:
            hit("option use:letter shared by several listed modules")
            if u[0] == "h":
                hf = unhx(u[1:].split(".")[0])
                first = owners[0]
                if first.file != hf and first.file not in active:
                    hit("option use:shared letter, earlier-sorted owner inactive, later one handles it")
                    if c["misc"]:
                        hit("option use:shared letter, earlier-sorted owner inactive because of -M, option used")


def nontrivial_key(eng, c):
    pool = eng.pool
    mods = [pool.by_file[f] for f in c["files"] if f in pool.by_file and pool.by_file[f].kind == "mod"]
    overlap = False
    letters = {}
    for d in mods:
        for ch, _, p in d.opts:
            if p & c["pers"]:
                if letters.get(ch, d.id) != d.id or ch in "hLNKRMtcqfwxlubIdVTQSk":
                    overlap = True
                letters[ch] = d.id
    dup = len(set((d.type, d.name) for d in mods)) < len(mods)
    insecure = bool(c["statmap"])
    special = c["uid"] == 0 or c["uid"] != c["euid"]
    if not (overlap or dup or insecure or special):
        return None
    return (tuple(sorted(c["files"])), tuple(sorted(c["statmap"].items())), c["uid"], c["euid"], c["misc"], c["pers"],
            c["envdir"])


def check_cases(ctx, eng, cases, cov, dist, distinct, rng):
    # pass 1: run the implementation (two orders + option uses), collect model/spec lines
    recs = []
    for c, origin in cases:
        env_dir = eng.uses_env(c)
        files = c["files"] if env_dir else c["bfiles"]
        r1 = eng.run(c)
        o1 = eng.observe(r1)
        dist["runs"] += 1
        # second enumeration order of the same directory
        order2 = list(files)
        if c.get("_order2"):
            order2 = list(c["_order2"])          # replay: exactly the recorded second order
        elif len(order2) > 1:
            for _ in range(4):
                rng.shuffle(order2)
                if order2 != files:
                    break
        r2 = eng.run(c, order=order2)
        o2 = eng.observe(r2)
        dist["runs"] += 1
        dist["order_pairs"] += 1
        # option characters
        uses = {}
        ls = letters_of(eng, c) if env_dir and not o1["fatal"] and not c.get("_no_letters") else []
        for ch in (ls if c.get("_all_letters") else rng.sample(ls, min(3, len(ls)))):
            # `-c -L`: an option that takes an argument swallows "-L" (glibc getopt keeps the POSIX
            # ordering of the early pass, so nothing may stand between the option and -L)
            ru = eng.run(c, extra=["-" + ch])
            dist["runs"] += 1
            dist["opt_uses"] += 1
            hl = [l.split() for l in ru["log"] if l.startswith("opt ")]
            if hl:
                _, mid, code, arg = hl[0]
                hf = eng.reps(c).get(mid, eng.pool.by_id[mid].file)
                uses[ch] = "h%s.%d" % (hx(hf), 0 if arg == "~" else 1)
                if int(code) != ord(ch) or (arg not in ("~", hx("-L"))) or (arg == "~" and ru["rc"] != 0) or len(hl) != 1:
                    uses[ch] += "?"     # never matches the model: reported as a disagreement
            elif "invalid option" in ru["err"]:
                uses[ch] = "i"
            elif ru["rc"] != 0:
                uses[ch] = "n"
            else:
                uses[ch] = "?"
        recs.append((c, origin, o1, o2, order2, uses))
    text = "".join(eng.case_line(c, use=list(u.keys())) + "\n" for c, _, _, _, _, u in recs)
    text2 = "".join(eng.case_line(c, order=o2l) + "\n" for c, _, _, _, o2l, _ in recs)
    # the model is run with list_sort as its POINTER LOOP (`cursor`: Mod/SortCursor.lean, cursors ppPrev / pp / ppPos) --
    # that form is compared with pdsh below -- and as `listSort`; the two are equal by `loader_runs_pointer_loop`
    cargs = list(eng.margs) + ([] if "nosameobj" in eng.margs else ["cursor"])
    mlines = ctx.model("mod", text, args=cargs)
    mlines2 = ctx.model("mod", text2, args=cargs)
    if cargs != list(eng.margs):
        for t_, ml_ in ((text, mlines), (text2, mlines2)):
            for k_, (x_, y_) in enumerate(zip(ml_, ctx.model("mod", t_, args=eng.margs))):
                if x_ != y_:
                    ctx.disagreement("mod model: list_sort as pointer loop vs listSort", "%s vs %s" % (x_, y_),
                                     {"case": {k: v for k, v in recs[k_][0].items() if not k.startswith("_")}})
        dist["sort_as_pointer_loop"] = dist.get("sort_as_pointer_loop", 0) + 2 * len(recs)
    stext = "".join(eng.case_line(c, use=list(u.keys()), spec=True) + obs_tokens(o1, u) + "\n" for c, _, o1, _, _, u in recs)
    slines = ctx.model("mod", stext, args=["spec"])
    stext2 = "".join(eng.case_line(c, order=o2l, spec=True) + obs_tokens(o2, {}) + "\n" for c, _, _, o2, o2l, _ in recs)
    slines2 = ctx.model("mod", stext2, args=["spec"])
    for i, (c, origin, o1, o2, order2, uses) in enumerate(recs):
        cov["evaluations"] += 1
        key = nontrivial_key(eng, c)
        if key is not None:
            distinct.add(key)
        if o1["fatal"]:
            dist["fatal"] += 1
        if c.get("pinned") == "sort":
            k_ = "%d modules" % len(c["files"])
            dist["sort_orders"][k_] = dist["sort_orders"].get(k_, 0) + 1
        if c["uid"] == 0 or c["uid"] != c["euid"]:
            dist["root_or_setuid"] += 1
        if c["misc"]:
            dist["forced"] += 1
        if c["pers"] == PCP:
            dist["pcp"] += 1
        if origin == "matrix":
            dist["perm_matrix"] += 1
        branches(eng, c, o1, uses, dist["branches"])
        if any(k.startswith(eng.pool.dir + "/") or k.startswith(eng.builtin + "/") for k in c["statmap"]):
            dist["insecure_file"] += 1
        if any(not (k.startswith(eng.pool.dir + "/") or k.startswith(eng.builtin + "/")) and k != eng.exe
               for k in c["statmap"]):
            dist["insecure_path"] += 1
        case = dict({k: v for k, v in c.items() if not k.startswith("_")}, origin=origin)
        canon = lambda f, c=c: eng.canon(c, f)
        tw = eng.twins(c)
        if tw:
            dist["same_object_twice"] = dist.get("same_object_twice", 0) + 1
        if "prio" not in eng.repaired and eng.uses_env(c):
            # F17-PRIO-OVERFLOW: _cmp_f returns y->priority - x->priority; for two modules whose priorities are more than
            # INT_MAX apart the subtraction overflows and the list is no longer in priority order
            ps = [eng.pool.by_file[f].effective_prio(eng.default_prio) for f in c["files"]
                  if f in eng.pool.by_file and eng.pool.by_file[f].kind in ("mod", "link")]
            if ps and max(ps) - min(ps) > 2147483647:
                dist["priority_overflow_pairs"] = dist.get("priority_overflow_pairs", 0) + 1
                m1, m2 = parse_model(mlines[i], canon), parse_model(mlines2[i], canon)
                bad = slines[i] != "ok" or slines2[i] != "ok" or \
                    any(o[k] != m[k] for o, m in ((o1, m1), (o2, m2)) for k in ("fatal", "listed", "calls", "opened"))
                if bad:
                    ctx.offender("priority-overflow", "modules with priorities %d and %d: the list is %s" % (
                        max(ps), min(ps), o1["listed"]), {"case": case, "order1": c["files"], "order2": order2,
                                                         "observed1": o1, "observed2": o2})
                continue
        if tw and "sameobj" not in eng.repaired:
            # F17-SAMEOBJ: _mod_destroy of the name that loses clears type and name of the descriptor BOTH names share
            m1, m2 = parse_model(mlines[i], canon), parse_model(mlines2[i], canon)
            bad = o1["rc"] not in (0, 1) or o2["rc"] not in (0, 1) or slines[i] != "ok" or slines2[i] != "ok" or \
                any(o[k] != m[k] for o, m in ((o1, m1), (o2, m2)) for k in ("fatal", "listed", "calls", "opened"))
            if bad:
                ctx.offender("same-object-twice", "a module directory with one object under two names (%s): pdsh ends with "
                             "status %s / %s, lists %s" % (", ".join(tw), o1["rc"], o2["rc"], o1["listed"]),
                             {"case": case, "order1": c["files"], "order2": order2, "observed1": o1, "observed2": o2})
            continue
        if len(cov["samples"]) < 4 and key is not None and origin == "random" and len(c["files"]) <= 5:
            cov["samples"].append({"case": case, "observed": o1})
        if o1["rc"] not in (0, 1) and all(eng.run(c)["rc"] in (0, 1) for _ in range(5)):
            # a one-off abnormal end that does not come back in 5 re-runs: counted, not reported for C17
            dist["transient_abnormal_exit"] = dist.get("transient_abnormal_exit", 0) + 1
            ctx.log("pdsh ended with status %s once on %s and not in 5 re-runs: counted" % (o1["rc"], c["files"]))
            continue
        if o1["rc"] not in (0, 1):
            ctx.offender("crash", "pdsh ends with status %s while loading modules" % o1["rc"], {"case": case, "obs": o1})
            continue
        for (o, ml, order, tag) in ((o1, mlines[i], None, "order1"), (o2, mlines2[i], order2, "order2")):
            m = parse_model(ml, canon)
            diff = [k for k in ("fatal", "listed", "calls", "opened") if o[k] != m[k]]
            if tag == "order1":
                for ch, u in uses.items():
                    if m["uses"].get(ch) != u:
                        diff.append("use:" + ch)
            if diff:
                ctx.disagreement("mod model vs pdsh (%s)" % tag,
                                 "differs in %s: impl %s model %s" % (diff, {k: o[k] for k in diff if k in o},
                                                                     {k: m[k] for k in diff if k in m}),
                                 {"case": case, "order": order, "uses": uses, "model": ml})
        for (o, sl, order) in ((o1, slines[i], None), (o2, slines2[i], order2)):
            if sl != "ok":
                if not sl.startswith("viol "):
                    ctx.disagreement("mod spec driver", sl, {"case": case})
                    continue
                for v in sl.split()[1:]:
                    sig = classify(eng, c, v)
                    dist["spec_violation_classes"][sig] = dist["spec_violation_classes"].get(sig, 0) + 1
                    ctx.offender(sig, "module loading violates the specification clause `%s` (%s)" % (
                        v.split(":")[0], unhx(v.split(":", 1)[1]) if v.split(":", 1)[1] not in ("-",) else ""),
                        {"case": case, "order": order or (c["files"] if eng.uses_env(c) else c["bfiles"]),
                         "observed": o, "violation": v})
        # determinism: the observation must not depend on the enumeration order (dlopen order aside)
        a = (o1["fatal"], o1["listed"], o1["calls"], sorted(o1["opened"]))
        b = (o2["fatal"], o2["listed"], o2["calls"], sorted(o2["opened"]))
        if a != b:
            dist["order_dependent"] += 1
            sig = order_dep_signature(eng, c)
            ctx.offender(sig, "the outcome of module loading depends on the directory enumeration order: %s gives %s, "
                              "%s gives %s" % (c["files"] if eng.uses_env(c) else c["bfiles"], o1["listed"], order2,
                                               o2["listed"]),
                         {"case": case, "order1": c["files"] if eng.uses_env(c) else c["bfiles"], "order2": order2,
                          "observed1": o1, "observed2": o2})


def perm_matrix(eng):
    """(file, module dir, parent, grand-parent) x owner in {root, me, pdsh owner, other} x o+w x sticky"""
    out = []
    anc = eng.pool.ancestors()
    targets = [("file", os.path.join(eng.pool.dir, "m01.so"))] + [("anc%d" % i, anc[i]) for i in (0, 1, 2, 4)]
    for tname, path in targets:
        for uid in (0, 1000, PDSH_OWNER, OTHER_UID):
            for ow in (0, 1):
                for st in (0, 1):
                    mode = (0o100644 if tname == "file" else 0o40755) | (0o002 if ow else 0) | (0o1000 if st else 0)
                    c = {"files": ["m01.so", "m06.so", "m02.so"], "statmap": {path: "%d:%o" % (uid, mode),
                                                                               eng.exe: "%d:-" % PDSH_OWNER},
                         "uid": 1000, "euid": 1000, "pers": DSH, "envdir": True, "misc": None, "misc_env": None,
                         "misc_opt": None, "bfiles": list(eng.builtin_files)}
                    out.append(c)
    return out


def exhaustive_orders(ctx, eng, cov, dist, rng):
    """all enumeration orders of every 4-subset of a 10-module sub-pool (no known tie pattern inside):
    every order must give the observation of the first one, and the model must agree"""
    sub = ["m01.so", "m02.so", "m03.so", "m04.so", "m05.so", "m18.so", "m20.so", "m13.so", "m14.so", "m22.so"]
    lines, obs = [], []
    for comb in itertools.combinations(sub, 4):
        first = None
        for order in itertools.permutations(comb):
            c = {"files": list(order), "statmap": {}, "uid": 1000, "euid": 1000, "pers": DSH, "envdir": True,
                 "misc": None, "misc_env": None, "misc_opt": None, "bfiles": list(eng.builtin_files)}
            o = eng.observe(eng.run(c))
            dist["runs"] += 1
            dist["exhaustive_orders"] += 1
            cov["evaluations"] += 1
            lines.append(eng.case_line(c))
            obs.append((c, o))
            canon = (o["fatal"], o["listed"], o["calls"], sorted(o["opened"]))
            if first is None:
                first = (canon, list(order))
            elif canon != first[0]:
                ctx.offender(order_dep_signature(eng, c), "outcome depends on the enumeration order: %s vs %s" % (
                    first[1], list(order)), {"case": c, "order1": first[1], "order2": list(order), "observed2": o})
    ml = ctx.model("mod", "".join(l + "\n" for l in lines), args=eng.margs)
    for (c, o), l in zip(obs, ml):
        m = parse_model(l)
        diff = [k for k in ("fatal", "listed", "calls", "opened") if o[k] != m[k]]
        if diff:
            ctx.disagreement("mod model vs pdsh (exhaustive orders)", "differs in %s" % diff, {"case": c, "model": l})
