"""C02  An excluded or filtered-out host is never contacted; all others survive.

proof:          lean/PdshVerif/Props/C02.lean (buffer loop of list_push_hostlist terminates / diverges, order
                independence and idempotence of the specification, delete = first occurrence (unchanged) witnesses, ...)
correspondence: the REAL pdsh binary built from /repo (`pdsh -Q <options>`: the list pdsh goes on with, and
                `pdsh -R exec -f 1 -N <options> echo %h`: the hosts actually contacted, in order; a timeout — re-tried
                once with six times the time — = "never leaves opt_args") vs `pdshmodel hl xcl` (Opt/Exclude.lean on the
                editable-list model of C16; regex answers from libc via harness/regex_oracle.c); the DETERMINISTIC
                classes of vlib/xcl.py first (same command lines at every seed), then the random profiles; the real
                hostlist.c in process (find / delete on range records) vs `hl edit` / `hl plspec`; exclusion files of
                exactly 2^22-2 and 2^22-1 bytes of ranged text (where list_push_hostlist cut the text before /repo b20e58e)
                through the real pdsh AND the model (linear path Opt/ExcludeFast.lean, proved equal to the model)
oracle:         the same command lines, by meaning, through `pdshmodel hl xspec` (Opt/ExcludeSpec.lean:
                assembled targets minus every occurrence of every excluded name, regex filters, order kept)
"""
import json
import os
import re
import subprocess
import time

from vlib.hostlist import HL, hx, unhx, names_field, Cli, VERIF_CORPUS
from vlib.common import HARNESS
from vlib.seqrun import run_batch
from vlib import xcl as xclsys

LEVEL = "proof"
PROPS = "PdshVerif.Props.C02"
MANIFEST = dict(
    engine="hl",
    technique="Lean 4 proof about the executable model of pdsh's exclusion/filter path (opt.c wcoll_arg_process, "
              "list_push_hostlist, wcoll_apply_excluded, hostlist_filter_regex, wcoll_expand over the editable host-list "
              "model) + differential correspondence against the real pdsh binary on generated command lines + "
              "policy-free specification oracle; POSIX regex matching is an oracle table from libc",
    text="Theorems in lean/PdshVerif/Props/C02.lean about lean/PdshVerif/Opt/Exclude.lean; the compiled model is run "
         "against the real pdsh (built from /repo's working tree on every run) on generated argv mixing -w/-x options, "
         "`-` words, ^files, -^files, /re/ and -/re/ in random order with duplicates, overlaps, look-alike names and "
         "exclusion files around the 4095-byte re-serialisation buffer — a deterministic enumeration of the classes the "
         "property names (vlib/xcl.py) at every seed, then random profiles; the list pdsh goes on with (-Q) and the hosts "
         "really contacted are compared with the model and with the specification (assembled minus excluded, filtered), "
         "which yields the failing argv as replay; hostlist_find/hostlist_delete of the real hostlist.c on range records "
         "against the list model and the plain-list specification; exclusion files of 4 MiB (the former ceiling of list_push_hostlist) through real pdsh, model and specification.",
    design_ref="DESIGN.md section 5 C02",
    note="Lean 4.33 kernel; axioms propext/Classical.choice/Quot.sound at most (audited per theorem every run); "
         "hand-written model tied to opt.c/hostlist.c by differential execution of the real pdsh built from /repo; "
         "defect switches probed from the code on every run (D1 by a behavioural probe of hostlist_delete, D2 by "
         "running the real pdsh on a 4200-byte exclusion file); reading of ^files is C10's (files here hold one "
         "expression per line); regex semantics trusted to libc (oracle table); generators, gcc trusted")

BIG = 1 << 25


# ------------------------------------------------------------------ words
class Word:
    """pre[ranges]suf where suf may hold ONE more bracket group; ranges = [(lo, hi, width)] or None (plain name)"""

    def __init__(self, pre, ranges=None, suf="", bracket=True):
        self.pre, self.ranges, self.suf, self.bracket = pre, ranges, suf, bracket

    def text(self):
        if self.ranges is None:
            return self.pre + self.suf
        items = ["%s" % str(lo).zfill(w) + ("-%s" % str(hi).zfill(w) if hi > lo else "") for lo, hi, w in self.ranges]
        if not self.bracket and len(self.ranges) == 1 and self.ranges[0][0] == self.ranges[0][1]:
            return self.pre + items[0] + self.suf
        return "%s[%s]%s" % (self.pre, ",".join(items), self.suf)

    def names1(self):
        if self.ranges is None:
            return [self.pre + self.suf]
        return [self.pre + str(v).zfill(w) + self.suf for lo, hi, w in self.ranges for v in range(lo, hi + 1)]

    def names2(self):
        return [m for n in self.names1() for m in expand_once(n)]

    def two_level(self):
        return "[" in self.suf or (self.ranges is None and "[" in self.pre)


def expand_once(name):
    m = re.fullmatch(r"([^\[\]]*)\[([0-9,\-]+)\]([^\[\]]*)", name)
    if not m:
        return [name]
    out = []
    for it in m.group(2).split(","):
        lo, _, hi = it.partition("-")
        hi = hi or lo
        out += [m.group(1) + str(v).zfill(len(lo)) + m.group(3) for v in range(int(lo), int(hi) + 1)]
    return out


PREFIXES = ["foo", "foo", "node", "nodeib", "a", "n0", "x9", "foobar", "", "b"]


def gen_target(rng, profile):
    pre = rng.choice(PREFIXES)
    r = rng.random()
    if profile == "big" and r < 0.5:
        lo = rng.choice([BIG - 2, BIG - 1, BIG, BIG + 1])
        return Word(pre or "n", [(lo, lo + rng.choice([1, 3, 5]), len(str(lo)))])
    if r < 0.25:
        n = rng.choice([0, 1, 2, 3, 5, 9, 10, 11, 12, 99])
        w = len(str(n)) + rng.choice([0, 0, 0, 1])
        if not pre and rng.random() < 0.5:
            pre = rng.choice(["h", "1"])
        return Word(pre, [(n, n, w)], bracket=False)
    if r < 0.36:
        return Word((pre or "h") + rng.choice(["", "-ib", "x", "-ib", "-e"]))
    rs = []
    for _ in range(rng.choice([1, 1, 1, 2, 3])):
        lo = rng.choice([0, 1, 2, 3, 4, 5, 8, 9, 10, 98])
        hi = lo + rng.choice([0, 1, 2, 3, 4, 6])
        rs.append((lo, hi, len(str(lo)) + rng.choice([0, 0, 0, 1])))
    suf = ""
    if profile == "2br" and rng.random() < 0.7:
        suf = "-[%d-%d]" % (rng.choice([0, 1]), rng.choice([1, 2]))
    elif rng.random() < 0.15:
        suf = rng.choice(["-ib", "x", "-e0"])
    return Word(pre, rs, suf)


def numbered(name):
    m = re.fullmatch(r"(.*?)(\d+)", name)
    return (m.group(1), m.group(2)) if m else None


def gen_exclusion(rng, names, profile):
    """an exclusion expression (text) built from the assembled names: hits, near misses, spans"""
    if not names:
        return "zz9"
    r = rng.random()
    dups = [n for n in names if names.count(n) > 1]
    pick = rng.choice(dups) if dups and rng.random() < 0.5 else rng.choice(names)
    nb = numbered(pick)
    if not nb and r < 0.5 and len(pick) > 1:      # a name without number: its beginning / an extension must not exclude it
        return pick[:rng.randrange(1, len(pick))] if rng.random() < 0.6 else pick + rng.choice(["x", "-ib", "1"])
    if r < 0.35 or not nb:
        k = rng.choice([1, 1, 2, 3])
        return ",".join(rng.sample(names, min(k, len(names))) if rng.random() < 0.6 else [pick])
    pre, digits = nb
    v, w = int(digits), len(digits)
    if r < 0.65:        # a span around the number, same padding
        lo = max(0, v - rng.choice([0, 1, 2]))
        hi = v + rng.choice([0, 1, 2, 3])
        return "%s[%s-%s]" % (pre, str(lo).zfill(w), str(hi).zfill(w))
    if r < 0.8:         # look-alikes that must NOT exclude: other padding, longer number, cut or extended prefix
        c = rng.random()
        if c < 0.3:
            return pre + ("0" + digits if rng.random() < 0.5 else (digits.lstrip("0") or "0") if digits[0] == "0" and w > 1 else digits + "0")
        if c < 0.65 and len(pre) > 1:
            return pre[:rng.randrange(1, len(pre))] + digits
        if c < 0.8:
            return pre + rng.choice(["ib", "x", "0"]) + digits
        return pre + digits + rng.choice(["-ib", "x"])
    if r < 0.9:         # the same span written with a prefix that ends in a digit
        if len(digits) > 1:
            return "%s%s[%s]" % (pre, digits[:-1], digits[-1])
        return pick
    return ",".join([pick, pre + str(v + 1).zfill(w)])


def gen_regex(rng, names):
    if not names:
        return "x"
    pick = rng.choice(names)
    nb = numbered(pick)
    r = rng.random()
    if r < 0.2 and nb and nb[0]:
        return "^" + re.escape(nb[0]).replace("\\-", "-")
    if r < 0.4:
        return rng.choice(["[13579]$", "[02468]$", "1$", "0", "^[a-z]+[0-9]$", "[0-9][0-9]", "2", "^.[^o]"])
    if r < 0.55:
        return "^" + pick.replace("[", "\\[").replace("]", "\\]") + "$"
    if r < 0.7 and nb:
        return nb[0][:2] + ".*" + nb[1][-1] + "$"
    if r < 0.8:
        return "^(%s)$" % "|".join(n.replace("[", "\\[").replace("]", "\\]") for n in rng.sample(names, min(2, len(names))))
    if r < 0.9:
        return rng.choice(["ib", "^foo", "^node[0-9]", "^n0", "-", "x9"])
    return rng.choice([".", "^$", "q", "(", "[", "a{2"])       # everything / nothing / regcomp refuses


# ------------------------------------------------------------------ cases
class Case:
    """items (by meaning, in command-line order) + how they are written as options + files"""

    def __init__(self):
        self.items = []      # (kind, text)  kind in tgt xcl tfile xfile keep drop
        self.opts = []       # (flag, optarg)
        self.files = {}      # name -> [expr]
        self.tags = set()
        self.timeout = 8
        self.wcoll_env = None    # value of the WCOLL environment variable (a file of `files`), None = unset
        self.raw = {}        # name -> the bytes really written (comments, blank lines, #include ...; also files that are
                             # only included); a file of `files` without an entry here holds one expression per line

    def to_json(self):
        return {"items": self.items, "opts": self.opts, "files": self.files, "tags": sorted(self.tags), "timeout": self.timeout,
                "wcoll_env": self.wcoll_env, "raw": self.raw}

    @staticmethod
    def from_json(d):
        c = Case()
        c.items = [tuple(x) for x in d["items"]]
        c.opts = [tuple(x) for x in d["opts"]]
        c.files = {k: list(v) for k, v in d["files"].items()}
        c.tags = set(d.get("tags", []))
        c.timeout = d.get("timeout", 8)
        c.wcoll_env = d.get("wcoll_env")
        c.raw = dict(d.get("raw") or {})
        return c


def rebase(case, cwd):
    """files of a stored case live in the scratch directory of the run that wrote it: move them here"""
    ren = {name: os.path.join(cwd, os.path.basename(name)) for name in list(case.files) + list(case.raw)}
    def sub(t):
        for a, b in sorted(ren.items(), key=lambda ab: -len(ab[0])):
            t = t.replace(a, b)
        return t
    case.files = {ren[k]: v for k, v in case.files.items()}
    case.raw = {ren[k]: sub(v) for k, v in case.raw.items()}
    case.items = [(k, sub(t)) for k, t in case.items]
    case.opts = [(f, sub(a)) for f, a in case.opts]
    if case.wcoll_env:
        case.wcoll_env = ren.get(case.wcoll_env, case.wcoll_env)
    return case


def write_opts(rng, items):
    """items -> option list: each item as its own option or merged (comma) into the previous option of the same flag"""
    opts = []
    closed = False      # the last option must stay alone (a word with unbalanced brackets swallows the commas after it)
    for kind, text in items:
        alone = text.count("[") != text.count("]")
        if kind == "tgt":
            flag, word = "-w", text
        elif kind == "tfile":
            flag, word = "-w", "^" + text
        elif kind == "keep":
            flag, word = "-w", "/" + text + ("/" if rng.random() < 0.7 or text.endswith("/") else "")
        elif kind == "xcl":
            # in a -w argument the `-` belongs to ONE comma word
            flag, word = ("-x", text) if rng.random() < 0.6 else ("-w", ",".join("-" + w for w in split_top(text)))
        elif kind == "xfile":
            flag, word = ("-x", "^" + text) if rng.random() < 0.6 else ("-w", "-^" + text)
        else:
            slash = "/" if rng.random() < 0.7 or text.endswith("/") else ""
            flag, word = ("-x", "/" + text + slash) if rng.random() < 0.6 else ("-w", "-/" + text + slash)
        if opts and opts[-1][0] == flag and rng.random() < 0.4 and not closed and not alone:
            opts[-1] = (flag, opts[-1][1] + "," + word)
        else:
            opts.append((flag, word))
        closed = alone
    return opts


def assembled_names(case):
    out = []
    for kind, text in case.items:
        if kind == "tgt":
            out += expand_text(text)
        elif kind == "tfile":
            for e in case.files[text]:
                out += expand_text(e)
    return out


def expand_text(expr):
    """names of a generated expression text (comma list of words with at most two bracket groups)"""
    out, depth, cur = [], 0, ""
    for ch in expr + ",":
        if ch == "," and depth == 0:
            if cur:
                out += [m for n in expand_first(cur) for m in expand_once(n)]
            cur = ""
        else:
            depth += ch == "["
            depth -= ch == "]"
            cur += ch
    return out


def expand_first(word):
    m = re.fullmatch(r"([^\[\]]*)\[([0-9,\-]+)\](.*)", word)
    if not m:
        return [word]
    out = []
    for it in m.group(2).split(","):
        lo, _, hi = it.partition("-")
        hi = hi or lo
        out += [m.group(1) + str(v).zfill(len(lo)) + m.group(3) for v in range(int(lo), int(hi) + 1)]
    return out


def first_level(expr):
    out, depth, cur = [], 0, ""
    for ch in expr + ",":
        if ch == "," and depth == 0:
            if cur:
                out += expand_first(cur)
            cur = ""
        else:
            depth += ch == "["
            depth -= ch == "]"
            cur += ch
    return out


def gen_case(rng, profile, cwd):
    c = Case()
    nfile = [0]

    def mkfile(exprs):
        nfile[0] += 1
        name = os.path.join(cwd, "f%d_%d" % (rng.randrange(10 ** 6), nfile[0]))
        c.files[name] = exprs
        return name

    tg = []
    if profile == "span":       # exclusion expression spanning two target words (order independence)
        pre = rng.choice(["foo", "a", "node"])
        a, b = rng.choice([1, 3]), rng.choice([5, 6])
        e = rng.choice([8, 9])
        t1, t2 = "%s[%d-%d]" % (pre, a, b), "%s[%d-%d]" % (pre, b + 1, e)
        x = "%s[%d-%d]" % (pre, b - 1, b + 2)
        its = [("tgt", t1), ("xcl", x), ("tgt", t2)]
        if rng.random() < 0.5:
            its = rng.sample(its, 3)
        c.items = its
    elif profile == "firstrange":   # a filter that empties the first record and should take the next record's first host
        d = rng.choice("123")
        p1, p2 = rng.sample(["a", "b", "c", "foo"], 2)
        t = "%s%s,%s[%s-%d],%s%s" % (p1, d, p2, d, int(d) + 2, rng.choice(["c", "z"]), rng.choice("1234"))
        pat = rng.choice([d + "$", "[%s%s]" % (p1[0], p2[0]), "^(%s|%s)" % (p1, p2)])
        kind = "drop"
        c.items = [("tgt", t), (kind, pat)]
    elif profile == "xfile":    # exclusion file whose ranged form is N bytes long (4095 = buffer of list_push_hostlist)
        target_len = rng.choice([4000, 4093, 4094, 4095, 4096, 4097, 5000, 8191, 8192, 9000]) if rng.random() < 0.8 else rng.randrange(3000, 10000)
        names, total = [], -1
        k = 0
        while total < target_len:
            nm = "h%dq" % (1000 + k)
            k += 1
            rest = target_len - total - 1
            if rest < 2 * len(nm) + 2 and rest >= 3:
                nm = "h" + "q" * (rest - 1) if rest - 1 >= 2 else nm
                names.append(nm[:rest])
                total += 1 + rest
                break
            names.append(nm)
            total += 1 + len(nm)
        lines, cur = [], []
        for nm in names:
            cur.append(nm)
            if len(",".join(cur)) > rng.choice([1, 60, 400]):
                lines.append(",".join(cur))
                cur = []
        if cur:
            lines.append(",".join(cur))
        f = mkfile(lines)
        keepers = ["keep1", "h9x"]
        hit = rng.sample(names, min(3, len(names)))
        c.items = [("tgt", ",".join(keepers[:1] + hit + keepers[1:])), ("xfile", f)]
        if rng.random() < 0.5:
            c.items.reverse()
        c.tags.add("xfile-len=%d" % len(",".join(names)))
        c.timeout = 4
    elif profile == "envwcoll":
        # target source dimension: the targets come ONLY from the file named by $WCOLL (no target word in any option;
        # every option is an exclusion or a filter), or $WCOLL is set but -w names targets (then it is ignored)
        exprs = [gen_target(rng, "free").text() for _ in range(rng.choice([1, 2, 3]))]
        f = mkfile(exprs)
        c.wcoll_env = f
        decoy = rng.random() < 0.25
        if decoy:
            c.items = [("tgt", gen_target(rng, "free").text()) for _ in range(rng.choice([1, 2]))]
        else:
            c.items = [("tfile", f)]
        names = assembled_names(c)
        others = []
        for _ in range(rng.choice([1, 1, 2, 3])):
            r = rng.random()
            if r < 0.55:
                others.append(("xcl", gen_exclusion(rng, names, "free")))
            elif r < 0.7:
                others.append(("xfile", mkfile([gen_exclusion(rng, names, "free")])))
            else:
                others.append((rng.choice(["keep", "drop", "drop"]), gen_regex(rng, names)))
        its = list(c.items)
        for o in others:
            its.insert(rng.randrange(len(its) + 1), o)
        c.items = its
        c.tags.add("wcoll-env-" + ("ignored" if decoy else "source"))
        c.opts = write_opts(rng, [it for it in c.items if decoy or it != ("tfile", f)])
        return c
    else:
        nt = rng.choice([1, 2, 2, 3, 4])
        for _ in range(nt):
            w = gen_target(rng, profile)
            if rng.random() < 0.12:
                more = [gen_target(rng, profile).text() for _ in range(rng.choice([1, 2]))]
                tg.append(("tfile", mkfile([w.text()] + more)))
            else:
                tg.append(("tgt", w.text()))
        if profile in ("dup", "free") and rng.random() < (0.9 if profile == "dup" else 0.3):
            tg.append(rng.choice(tg))                              # a whole word again
        c.items = list(tg)
        names = assembled_names(c)
        nx = rng.choice([0, 1, 1, 2, 3]) if profile != "regex" else rng.choice([0, 1])
        others = []
        for _ in range(nx):
            e = gen_exclusion(rng, names, profile)
            if rng.random() < 0.15:
                others.append(("xfile", mkfile([e] + ([gen_exclusion(rng, names, profile)] if rng.random() < 0.5 else []))))
            else:
                others.append(("xcl", e))
        nr = rng.choice([0, 0, 1]) if profile != "regex" else rng.choice([1, 2, 3])
        for _ in range(nr):
            others.append((rng.choice(["keep", "drop", "drop"]), gen_regex(rng, names)))
        # order: anything anywhere (targets keep their relative order)
        its = list(c.items)
        for o in others:
            its.insert(rng.randrange(len(its) + 1), o)
        c.items = its
    c.opts = write_opts(rng, c.items)
    return c


# ------------------------------------------------------------------ running
def hxs(s):
    return hx(s.encode("latin1")) if s else "-"


PROBED = {"2br": False}      # F02-2BR as probed on the real pdsh (set by run)


def case_text(case, table, bad, d2):
    lines = ["d2 %d" % (1 if d2 else 0), "br2 %d" % (1 if PROBED["2br"] else 0)]
    if case.wcoll_env:
        lines.append("env %s" % hxs(case.wcoll_env))
    for name, exprs in case.files.items():
        lines.append(" ".join(["file", hxs(name)] + [hxs(e) for e in exprs]))
    for (p, h), v in table.items():
        lines.append("re %s %s %d" % (hxs(p), hxs(h), 1 if v else 0))
    for p in bad:
        lines.append("badre %s" % hxs(p))
    for flag, arg in case.opts:
        lines.append("%s %s" % (flag[1], hxs(arg)))
    for kind, text in case.items:
        lines.append("item %s %s" % (kind, hxs(text)))
    lines.append("end")
    return lines


class Oracle:
    def __init__(self, ctx):
        self.exe = os.path.join(ctx.scratch, "regex_oracle")
        self.ok = ctx.cc(self.exe, [os.path.join(HARNESS, "regex_oracle.c")], san=False, assertions=False, libs=())
        self.cache = {}

    def ask(self, pairs):
        todo = sorted(set(p for p in pairs if p not in self.cache))
        if todo:
            text = "".join("%s %s\n" % (hxs(p), hxs(h)) for p, h in todo)
            out = subprocess.run([self.exe], input=text.encode(), stdout=subprocess.PIPE, timeout=120).stdout.decode().split()
            for k, v in zip(todo, out):
                self.cache[k] = v
        return {p: self.cache[p] for p in pairs}


def patterns_of(case):
    return [t for k, t in case.items if k in ("keep", "drop")]


def candidate_names(case):
    """every name a regex may be asked about: final and first-level names of all targets"""
    out = set()
    for kind, text in case.items:
        exprs = [text] if kind == "tgt" else case.files[text] if kind == "tfile" else []
        for e in exprs:
            out.update(first_level(e))
            out.update(expand_text(e))
    return out


TIMEOUTS = {"n": 0}       # confirmed hangs of the real pdsh in this run


def run_real(cli, case, mode="exec"):
    """mode exec: `pdsh -R exec -f 1 -N OPTIONS echo %h` — the hosts really contacted, in order;
       mode list: `pdsh -Q OPTIONS` — the target list pdsh would go on with (no host is contacted; 40 times cheaper).
       A listing pdsh itself cuts (`[truncated]`, 1 KiB buffer) is answered by an exec run instead."""
    opts = [x for o in case.opts for x in o]
    args = ["-R", "exec", "-f", "1", "-N"] + opts + ["echo", "%h"] if mode == "exec" else ["-Q"] + opts
    def go(timeout):
        if not case.wcoll_env:
            return cli.run(args, timeout=timeout)
        env = {"PATH": "/usr/bin:/bin", "HOME": cli.cwd, "LC_ALL": "C", "WCOLL": case.wcoll_env}
        try:
            p = subprocess.run([cli.pdsh] + args, stdout=subprocess.PIPE, stderr=subprocess.PIPE,
                               cwd=cli.cwd, env=env, timeout=timeout, stdin=subprocess.DEVNULL)
            return p.returncode, p.stdout, p.stderr
        except subprocess.TimeoutExpired as e:
            return "timeout", e.stdout or b"", e.stderr or b""
    if TIMEOUTS["n"] >= 2:
        # pdsh has hung twice in this run (each time confirmed by a long second wait): from now on one short
        # wait per case, so that a tree that spins does not make the run take hours
        rc, out, err = go(4)
    else:
        rc, out, err = go(case.timeout)
        if rc == "timeout":
            # a loaded machine is not a spinning pdsh: ask again with plenty of time
            rc, out, err = go(30)
    if rc == "timeout":
        TIMEOUTS["n"] += 1
        return "timeout", None, b""
    if rc == 0 and mode == "exec":
        return "ok", [l.decode("latin1") for l in out.split(b"\n") if l], err
    if rc == 0:
        lines = out.split(b"\n")
        try:
            i = lines.index(b"-- Target nodes --")
        except ValueError:
            return "garbled", None, err
        text = b"\n".join(lines[i + 1:])
        if text.endswith(b"\n"):
            text = text[:-1]
        if text.endswith(b"[truncated]"):
            return run_real(cli, case, "exec")
        return "ok", [h.decode("latin1") for h in text.split(b",") if h], err
    if b"no remote hosts specified" in err:
        return "nohosts", None, err
    if rc < 0 or rc >= 128 or b"Sanitizer" in err:
        return "crash", None, err
    return "fatal", None, err


def parse_model(ans):
    if ans.startswith("ok "):
        return "ok", [n.decode("latin1") for n in names_field(ans[3:])[2]]
    if ans == "nohosts":
        return "nohosts", None
    if ans.startswith("fatal:"):
        return "fatal", None
    if ans == "diverge":
        return "timeout", None
    if ans.startswith("ub:"):
        return "ub", ans
    return "garbled:" + ans[:80], None


def norm(kind, hosts):
    """an empty working collective and none at all look the same from outside"""
    if kind == "ok" and not hosts:
        return "nohosts", None
    return kind, hosts


def classify(case, impl, spec_hosts):
    """signature of a difference between what pdsh contacted and what the specification allows"""
    kind, hosts = impl
    attrs = []
    words = [t for k, t in case.items if k in ("tgt", "xcl")] + [e for k, t in case.items if k in ("tfile", "xfile") for e in case.files[t]]
    if any(w.count("[") > 1 for w in words for w in split_top(w)):
        attrs.append("2br")
    if kind == "timeout":
        ln = [int(t.split("=")[1]) for t in case.tags if t.startswith("xfile-len=")]
        return "spin:" + ("xfile>=4095" if ln and ln[0] >= 4095 else "other")
    if kind in ("crash", "fatal"):
        return kind + ":" + ("+".join(attrs) or "other")
    hosts = hosts or []
    extra = [h for h in set(hosts) if hosts.count(h) > spec_hosts.count(h)]
    lost = [h for h in set(spec_hosts) if hosts.count(h) < spec_hosts.count(h)]
    asm = assembled_names(case)
    if extra and any(asm.count(h) > 1 for h in extra):
        attrs.append("dup")
    if any(numbered(h) and int(numbered(h)[1]) > BIG for h in extra + lost):
        attrs.append("bigsuffix")
    what = "excluded-contacted" if extra and not lost else "wanted-dropped" if lost and not extra else \
        "order" if not extra and not lost else "both"
    return what + ":" + ("+".join(attrs) or "other")


def split_top(expr):
    out, depth, cur = [], 0, ""
    for ch in expr + ",":
        if ch == "," and depth == 0:
            out.append(cur)
            cur = ""
        else:
            depth += ch == "["
            depth -= ch == "]"
            cur += ch
    return [w for w in out if w]


def regex_pairs(case):
    pats = patterns_of(case)
    return [(p, h) for p in pats for h in candidate_names(case)] + [(p, "") for p in pats]


def model_spec(ctx, oracle, cases, d2):
    """model and specification answers for a batch of cases -> [(model, spec, bad patterns)]"""
    oracle.ask([pr for c in cases for pr in regex_pairs(c)])
    texts, bads = [], []
    for c in cases:
        answers = oracle.ask(regex_pairs(c))
        bad = sorted(set(p for (p, h), v in answers.items() if v == "E"))
        table = {k: v == "1" for k, v in answers.items() if v in "01"}
        texts.append("".join(l + "\n" for l in case_text(c, table, bad, d2)))
        bads.append(bad)
    ms = [a for a in ctx.model("hl", "".join(texts), args=["xcl"], timeout=1800) if a not in (".", "")]
    ss = [a for a in ctx.model("hl", "".join(texts), args=["xspec"], timeout=1800) if a not in (".", "")]
    if len(ms) != len(cases) or len(ss) != len(cases):
        raise RuntimeError("model/spec engines answered %d/%d cases of %d" % (len(ms), len(ss), len(cases)))
    return list(zip(ms, ss, bads))


def write_files(case):
    for name, exprs in case.files.items():
        if name not in case.raw:
            with open(name, "w") as f:
                f.write("".join(e + "\n" for e in exprs))
    for name, text in case.raw.items():
        with open(name, "w") as f:
            f.write(text)


def judge(ctx, cli, oracle, case, d2, dist, shrinking=False, pre=None, modes=("list", "exec")):
    """run the real pdsh on the case (the listing `-Q`, and/or the hosts really contacted), compare with the model and with
    the specification; the first observation that shows a problem is the one reported"""
    write_files(case)
    m, s, bad = pre if pre is not None else model_spec(ctx, oracle, [case], d2)[0]
    tags = set()
    for mode in modes:
        tags = judge_one(ctx, cli, oracle, case, d2, dist, shrinking, m, s, bad, mode)
        if tags:
            break
    return tags


def judge_one(ctx, cli, oracle, case, d2, dist, shrinking, m, s, bad, mode):
    t0 = time.time()
    impl = run_real(cli, case, mode)
    if not shrinking:
        dist["seconds-" + mode] = round(dist.get("seconds-" + mode, 0) + time.time() - t0, 2)
    verb = "contacts" if mode == "exec" else "lists (-Q)"
    ikind, ihosts = norm(impl[0], impl[1])
    mkind, mhosts = parse_model(m)
    tags = set()
    if mkind == "ub":
        dist["ub-predicted"] = dist.get("ub-predicted", 0) + (0 if shrinking else 1)
    else:
        mk, mh = norm(mkind, mhosts)
        if (mk, mh) != (ikind, ihosts):
            tags.add("model-vs-impl")
            if not shrinking:
                ctx.disagreement("hl xcl model vs pdsh", "pdsh %s: %s %s %s, model %s %s" % (
                    " ".join("%s '%s'" % o for o in case.opts)[:300], verb, ikind, (ihosts or [])[:40], mk, (mh or [])[:40]),
                    shrink(ctx, cli, oracle, case, d2, "model-vs-impl", mode).to_json())
    if not shrinking:
        dist["impl-" + ikind] = dist.get("impl-" + ikind, 0) + 1
        dist["observed-" + mode] = dist.get("observed-" + mode, 0) + 1
    # --- oracle
    if s.startswith("ok "):
        shosts = [n.decode("latin1") for n in names_field(s[3:])[2]]
        sk, sh = norm("ok", shosts)
        if bad:
            # regcomp refuses a pattern: pdsh must stop (any diagnostic), it must not contact anybody
            if ikind not in ("fatal",):
                sig = "badregex-ignored"
                tags.add("spec:" + sig)
                if not shrinking:
                    ctx.offender(sig, "pdsh goes on with a pattern regcomp() refuses: %s" % bad,
                                 shrink(ctx, cli, oracle, case, d2, "spec:" + sig, mode).to_json())
        elif "malformed-x" in case.tags and ikind == "fatal":
            # an exclusion word hostlist_create() refuses: stopping with a diagnostic (nobody is contacted) is as
            # admissible as going on without it — what is NOT admissible is to go on and drop the other exclusions
            if not shrinking:
                dist["malformed-x-fatal"] = dist.get("malformed-x-fatal", 0) + 1
        elif (sk, sh) != (ikind, ihosts):
            sig = classify(case, (ikind, ihosts), shosts)
            if "model-vs-impl" in tags:
                sig += ":impl!=model"
            tags.add("spec:" + sig)
            if not shrinking:
                ctx.offender(sig, "pdsh %s: %s %s %s, the specification says %s" % (
                    " ".join("%s '%s'" % o for o in case.opts)[:300], verb, ikind, (ihosts or [])[:30], shosts[:30]),
                    shrink(ctx, cli, oracle, case, d2, "spec:" + sig, mode).to_json())
        elif not shrinking:
            dist["spec-agrees"] = dist.get("spec-agrees", 0) + 1
    elif not shrinking:
        dist["spec-" + s.split(":")[0]] = dist.get("spec-" + s.split(":")[0], 0) + 1
    return tags


def shrink(ctx, cli, oracle, case, d2, tag, mode="exec"):
    """drop items one at a time while the same kind of problem stays; options rewritten plainly"""
    ctx.nshrunk = getattr(ctx, "nshrunk", 0) + 1
    if ctx.nshrunk > 6 or case.wcoll_env or TIMEOUTS["n"] > 0:      # a tree that hangs is not shrunk (every try waits); $WCOLL cases are short
        return case
    import random
    rng = random.Random(1)
    cur = case
    budget = 20
    changed = True
    while changed and budget > 0:
        changed = False
        for i in range(len(cur.items)):
            if budget <= 0:
                break
            t = Case()
            t.items = cur.items[:i] + cur.items[i + 1:]
            t.files = {k: v for k, v in cur.files.items() if any(x == k for _, x in t.items)}
            t.raw = {k: v for k, v in cur.raw.items() if k in t.files or k not in cur.files}
            t.tags = set(cur.tags)
            t.timeout = cur.timeout
            t.opts = [(("-w" if k in ("tgt", "tfile", "keep") else "-x"),
                       {"tgt": "", "xcl": "", "tfile": "^", "xfile": "^", "keep": "/", "drop": "/"}[k] + x + ("/" if k in ("keep", "drop") else ""))
                      for k, x in t.items]
            budget -= 1
            try:
                if t.items and tag in judge(ctx, cli, oracle, t, d2, {}, shrinking=True, modes=(mode,)):
                    cur = t
                    changed = True
                    break
            except Exception:
                pass
    return cur


def probe_d2(cli):
    """D2 on the real pdsh: an exclusion file whose ranged form is 4200 bytes"""
    names = ["h%dq" % (1000 + k) for k in range(700)]
    f = os.path.join(cli.cwd, "probe_d2")
    with open(f, "w") as fh:
        fh.write("".join(n + "\n" for n in names))
    args = ["-R", "exec", "-f", "1", "-N", "-w", "keep1,h1000q", "-x", "^" + f, "echo", "%h"]
    rc, out, err = cli.run(args, timeout=5)
    if rc == "timeout":
        # a loaded machine is not a spinning pdsh: only a second, generous wait decides
        rc, out, err = cli.run(args, timeout=40)
    if rc == "timeout":
        return False
    if rc == 0 and out.split() == [b"keep1"]:
        return True
    return None


CUT = (1 << 22) - 1       # Props/C02 exclusion_file_ceiling_whole / exclusion_file_cut: with the ceiling of the loop before
                          # /repo b20e58e the ranged form was cut from this length on


def big_xfile(ctx, cli, oracle, ln, dist, d2):
    """F02-XFILE-4MIB: an exclusion file whose ranged form is exactly `ln` bytes, through the REAL pdsh (listing and the
    hosts really contacted), the MODEL (`pdshmodel hl xcl` executes Opt/ExcludeFast.lean `cliFinalWF`, proved equal to
    `cliFinalW`, linear in the size of the file) and the SPECIFICATION: the first, the middle and the last name of the file
    are targets next to `keep1`; all three are excluded, keep1 must be what is left.
    The replay is the recipe (the file has 4 MiB): `names` are vlib.xcl.xfile_names(ln), one per line."""
    names = xclsys.xfile_names(ln)
    f = os.path.join(cli.cwd, "bigx_%d" % ln)
    hit = [names[0], names[len(names) // 2], names[-1]]
    c = Case()
    c.items = [("tgt", "keep1," + ",".join(hit)), ("xfile", f)]
    c.opts = [("-w", "keep1," + ",".join(hit)), ("-x", "^" + f)]
    c.files = {f: names}
    c.tags.add("xfile-len=%d" % ln)
    c.timeout = 30          # (0.6 s on an idle machine; a timeout is re-tried once by run_real)
    write_files(c)
    m, s, bad = model_spec(ctx, oracle, [c], d2)[0]
    case = {"recipe": "big-xfile", "ranged-length": ln, "names": "vlib.xcl.xfile_names(%d), one per line" % ln,
            "argv": ["-w", "keep1," + ",".join(hit), "-x", "^FILE"]}
    mk, mh = norm(*parse_model(m)[:2]) if parse_model(m)[0] != "ub" else ("ub", None)
    shosts = [n.decode("latin1") for n in names_field(s[3:])[2]] if s.startswith("ok ") else None
    dist["xfile-%d-model" % ln] = mk if mk != "ok" else ",".join(mh)
    if shosts != ["keep1"]:
        ctx.broken.append(("C-BROKEN", "check machinery (big exclusion file)", "the specification answers %r" % s[:200]))
    good = True
    for mode in ("list", "exec"):
        ikind, ihosts, err = run_real(cli, c, mode)
        ikind, ihosts = norm(ikind, ihosts)
        dist["xfile-%d-%s" % (ln, mode)] = "ok" if ihosts == ["keep1"] else ikind if ikind != "ok" else "excluded-listed"
        verb = "contacts" if mode == "exec" else "lists (-Q)"
        if mk != "ub" and (mk, mh) != (ikind, ihosts):
            ctx.disagreement("hl xcl model vs pdsh", "exclusion file whose ranged form has %d bytes: pdsh %s %s %s, model %s %s" % (
                ln, verb, ikind, (ihosts or [])[:10], mk, (mh or [])[:10]), case)
        if (ikind, ihosts) == ("ok", ["keep1"]):
            continue
        good = False
        if ikind == "timeout":
            ctx.offender("spin:xfile>=4MiB", "pdsh does not answer within 30 s (asked twice) on an exclusion file whose "
                         "ranged form has %d bytes" % ln, case)
        elif ikind == "ok" and set(ihosts) <= set(["keep1"] + hit) and "keep1" in ihosts:
            ctx.offender("excluded-contacted:xfile>=4MiB" if ln >= CUT else "excluded-contacted:xfile<4MiB",
                         "exclusion file whose ranged form has %d bytes: pdsh still %s %s (all three are in the file)" % (
                             ln, verb, [h for h in ihosts if h != "keep1"]), case)
        else:
            ctx.offender("wrong-list:xfile-big", "exclusion file whose ranged form has %d bytes: pdsh %s %s %s, stderr %r" % (
                ln, verb, ikind, (ihosts or [])[:10], err[-200:]), case)
        break
    os.unlink(f)
    return good


def probe_2br(cli):
    """F02-2BR on the real pdsh: do exclusions and filters see the names behind the second pair of brackets?
    True / False; None when the sub-tests disagree"""
    def hosts(args):
        rc, out, err = cli.run(["-R", "exec", "-f", "1", "-N"] + args + ["echo", "%h"], timeout=20)
        return out.split() if rc == 0 else None
    a = hosts(["-w", "foo[1-2]-[0-1]", "-x", "foo1-0"])
    b = hosts(["-w", "foo[1-2]-[0-1],/-0$/"])
    c = hosts(["-w", "foo[1-2]-[0-1]", "-x", "foo[1-2]-0"])
    fixed = [a == [b"foo1-1", b"foo2-0", b"foo2-1"], b == [b"foo1-0", b"foo2-0"], c == [b"foo1-1", b"foo2-1"]]
    asfound = [a == [b"foo1-0", b"foo1-1", b"foo2-0", b"foo2-1"], b is None or b == [],
               c == [b"foo1-0", b"foo1-1", b"foo2-0", b"foo2-1"]]
    if all(fixed):
        return True
    if all(asfound):
        return False
    return None


# ------------------------------------------------------------------ library level
NAME_OPS = ("push", "find", "delete", "delete_host")


def enc_op(op):
    w = op.split(" ", 1)
    return w[0] + " " + hxs(w[1]) if w[0] in NAME_OPS and len(w) > 1 else op


def lib_level(ctx, hl, histories, dist):
    """hostlist_find / hostlist_delete of the REAL hostlist.c (in-process harness) on lists whose records are ranges,
    against the editable-list model (`hl edit`) and the plain-list specification (`hl plspec`)"""
    eseqs = [[enc_op(o) for o in h] for h in histories]
    impl = run_batch([hl.exe], eseqs, env=hl.env, timeout=600)
    text = "".join(l + "\n" for s in eseqs for l in s)
    ml = ctx.model("hl", text, args=["edit"])
    sl = [a.split(" # ")[0] for a in ctx.model("hl", text, args=["plspec"])]
    pos = 0
    for h, (ans, crash) in zip(histories, impl):
        m, sp = ml[pos:pos + len(h)], sl[pos:pos + len(h)]
        pos += len(h)
        dist["lib-histories"] = dist.get("lib-histories", 0) + 1
        case = {"ops": h}
        if crash is not None:
            dist["lib-crash"] = dist.get("lib-crash", 0) + 1
            ctx.offender("lib:crash", "hostlist.c dies on %s: %s" % (h, crash[-300:]), case)
            continue
        if ans != m and not any(a.startswith("ub:") or a == "DEAD" for a in m):
            k = next(i for i in range(len(h)) if i >= len(ans) or i >= len(m) or ans[i] != m[i])
            ctx.disagreement("hl edit model vs hostlist.c", "history %s: op %d `%s` impl `%s` model `%s`" % (
                h, k, h[k], ans[k] if k < len(ans) else None, m[k] if k < len(m) else None), case)
        bad = [i for i in range(len(h)) if h[i].split()[0] in ("find", "delete", "hosts", "count") and
               (i >= len(ans) or ans[i] != sp[i])]
        if bad:
            k = bad[0]
            op = h[k].split()[0]
            sig = "lib:" + {"find": "find-wrong", "delete": "delete-count", "hosts": "wrong-hosts-left",
                            "count": "count"}[op]
            ctx.offender(sig, "hostlist.c, history %s: op %d `%s` answers `%s`, the plain-list specification `%s`" % (
                h, k, h[k], ans[k] if k < len(ans) else None, sp[k]), case)
        else:
            dist["lib-agrees"] = dist.get("lib-agrees", 0) + 1


def modes_for(case, prof, spec_answer):
    """which observations a case gets: the listing always; the hosts really contacted (one fork per host) for every
    corpus / random / replayed case, and for every fifth case of the systematic classes"""
    if not prof.startswith("sys:"):
        return ("list", "exec")
    if getattr(case, "sysidx", 0) % 5 == 0:
        return ("list", "exec")
    return ("list",)


def load_corpus():
    d = os.path.join(VERIF_CORPUS, "C02")
    out = []
    if os.path.isdir(d):
        for fn in sorted(os.listdir(d)):
            if fn.endswith(".json"):
                for obj in json.load(open(os.path.join(d, fn))):
                    out.append(Case.from_json(obj))
    return out


def nontrivial(case, impl_hosts):
    asm = assembled_names(case)
    return len(asm) >= 3 and any(k in ("xcl", "xfile", "keep", "drop") for k, _ in case.items) and \
        impl_hosts is not None and 0 < len(impl_hosts) < len(asm)


def run(ctx):
    rng = ctx.rng
    ctx.gen_consts(["hostlist"])
    ctx.lean_build([PROPS, "pdshmodel"])
    ctx.audit(PROPS)
    cov = {"evaluations": 0, "distinct_nontrivial": 0, "samples": [],
           "rule": "command lines made of target words (plain names, one-bracket ranges with mixed widths and suffixes, "
                   "two-bracket words, numeric tails around 2^25, all-digit names), exclusions (-x, `-` words: hits, spans, "
                   "look-alikes with other padding / cut or extended prefix / longer number), ^files and -^files (incl. "
                   "exclusion files whose ranged form is 4093..4097 / 8191.. bytes), /re/ and -/re/ (anchors, classes, "
                   "alternation, patterns regcomp refuses), duplicates and overlaps on purpose, options in random order and "
                   "merged with commas; target SOURCE: -w words, -w ^file, and the file named by $WCOLL with no target word "
                   "in any option (or $WCOLL set and overridden by -w); BEFORE the random profiles the deterministic classes of "
                   "vlib/xcl.py (sys:*): every permutation of targets / spanning exclusion / filter, every exclusion source x "
                   "every target source (incl. files with comments, blank lines, #include, blank-separated names), look-alike "
                   "families (prefix, padding, suffix, case, dots/dashes, all-digit, tails around 2^25 and 2^32, un-numbered) "
                   "with each member excluded alone and each member alone surviving all others, duplicates at every "
                   "position, 36 patterns as keep and drop filters, filters hitting every position of a range, host number 0 "
                   "at every position of an exclusion, two-bracket words, exclusion files of 4093..4097 / 8190..8193 bytes, "
                   "empty pieces, blanks behind the dash, exclusion words hostlist_create refuses (unbalanced brackets) at "
                   "every position among well-formed exclusions (the others must still act), several words in ONE -w argument "
                   "in every order of {target, -exclusion, /re/, -/re/} (the word after a dashed one), arguments holding only "
                   "filters x $WCOLL read / ignored, command lines holding only exclusions (-x list, `-` words, -x ^file) x "
                   "$WCOLL read / ignored, a name whose digit tail overflows strtoul (20+ digits, errno = ERANGE) at every "
                   "position of an exclusion list / among the -x options / `-` words / in an exclusion file / among the "
                   "targets; library level: find/delete histories on range records (also behind such a name); non-trivial = "
                   ">= 3 assembled hosts, >= 1 exclusion or filter that removes at least one "
                   "and keeps at least one host; distinct = distinct option list"}
    dist = {"profiles": {}}
    cli = Cli(ctx)
    oracle = Oracle(ctx)
    if cli.pdsh and oracle.ok:
        d2 = probe_d2(cli)
        dist["probed-D2-fixed"] = d2
        if d2 is None:
            ctx.broken.append(("C-BROKEN", "D2 probe", "pdsh neither spins nor answers on a 4200-byte exclusion file"))
            d2 = False
        br2 = probe_2br(cli)
        dist["probed-2BR-fixed"] = br2
        if br2 is None:
            ctx.broken.append(("C-BROKEN", "F02-2BR probe", "the two-bracket sub-tests on the real pdsh disagree"))
        PROBED["2br"] = bool(br2)
        rcase = json.load(open(ctx.replay))["case"] if ctx.replay else {}
        if "ops" in rcase or "recipe" in rcase:
            cases, profs = [], []       # a library-level history / a big exclusion file: below
        elif ctx.replay:
            cases = [rebase(Case.from_json(json.load(open(ctx.replay))["case"]), cli.cwd)]
            profs = ["replay"]
        else:
            cases, profs = [], []
            for c in load_corpus():
                cases.append(rebase(c, cli.cwd))
                profs.append("corpus")
            # the deterministic classes (vlib/xcl.py): the same command lines at every seed
            for k, c in enumerate(xclsys.systematic(Case, cli.cwd, thorough=not ctx.quick())):
                c.sysidx = k
                cases.append(c)
                profs.append([t for t in c.tags if t.startswith("sys:")][0])
            n = 260 if ctx.quick() else 5000
            profiles = ["free", "free", "free", "dup", "dup", "regex", "regex", "2br", "big", "span", "firstrange",
                        "envwcoll", "envwcoll"]
            for i in range(n):
                p = rng.choice(profiles)
                cases.append(gen_case(rng, p, cli.cwd))
                profs.append(p)
            nx = (2 if d2 is False else 6) if ctx.quick() else (6 if d2 is False else 40)
            for i in range(nx):
                cases.append(gen_case(rng, "xfile", cli.cwd))
                profs.append("xfile")
        distinct = set()
        try:
            pres = model_spec(ctx, oracle, cases, d2)
        except Exception as e:     # noqa
            ctx.broken.append(("C-BROKEN", "check machinery", repr(e)))
            pres, cases = [], []
        for case, prof, pre in zip(cases, profs, pres):
            if TIMEOUTS["n"] >= 12:
                ctx.broken.append(("C-BROKEN", "real pdsh", "pdsh did not answer 12 times in this run (each reported as an "
                                   "offender): the remaining %d cases were not executed" % (len(cases) - cov["evaluations"])))
                break
            cov["evaluations"] += 1
            dist["profiles"][prof] = dist["profiles"].get(prof, 0) + 1
            try:
                judge(ctx, cli, oracle, case, d2, dist, pre=pre, modes=modes_for(case, prof, pre[1]))
            except Exception as e:     # noqa
                ctx.broken.append(("C-BROKEN", "check machinery", "%r on %s" % (e, json.dumps(case.to_json())[:600])))
                break
            for name in list(case.files) + list(case.raw):
                try:
                    os.unlink(name)
                except OSError:
                    pass
        # exclusion files at what was the 4 MiB ceiling of list_push_hostlist before /repo b20e58e (real pdsh vs model vs
        # specification; F02-XFILE-4MIB is FIXED: a tree that cuts the text again is a violation, the file is the replay)
        if d2 and (not ctx.replay or "recipe" in rcase):
            lens = [rcase["ranged-length"]] if ctx.replay else [CUT - 1, CUT] if ctx.quick() else \
                [CUT - 1, CUT, 2 * CUT + 2, 9000000]
            for ln in lens:
                try:
                    big_xfile(ctx, cli, oracle, ln, dist, d2)
                    cov["evaluations"] += 1
                    if "timeout" in (dist.get("xfile-%d-list" % ln), dist.get("xfile-%d-exec" % ln)):
                        break       # (reported; the longer files would only take longer)
                except Exception as e:     # noqa
                    ctx.broken.append(("C-BROKEN", "check machinery (big exclusion file)", repr(e)))
        # distinct / non-trivial are counted on a cheap re-expansion (no further runs)
        for case in cases:
            asm = assembled_names(case)
            if len(asm) >= 3 and any(k in ("xcl", "xfile", "keep", "drop") for k, _ in case.items):
                distinct.add(json.dumps(case.opts))
        cov["distinct_nontrivial"] = len(distinct)
        for case in cases[:400]:
            if len(cov["samples"]) < 3 and 2 <= len(case.opts) <= 4 and not case.files:
                cov["samples"].append({"argv": [x for o in case.opts for x in o]})
    hl = HL(ctx)
    dist["probed-variant"] = hl.probed()
    if hl.build():
        if ctx.replay:
            rc = json.load(open(ctx.replay))["case"]
            hist = [rc["ops"]] if "ops" in rc else []
        else:
            hist = xclsys.lib_histories(thorough=not ctx.quick())
        try:
            lib_level(ctx, hl, hist, dist)
            cov["evaluations"] += len(hist)
        except Exception as e:     # noqa
            ctx.broken.append(("C-BROKEN", "check machinery (library level)", repr(e)))
    cov["distribution"] = dist
    cov["traces_validated_against_impl"] = cov["evaluations"]
    for b in ctx.broken[:4]:
        ctx.log("broken:", b[0], b[1], "::", str(b[2])[:900])
    sigs = {}
    for sig, what, case in ctx.violations:
        if sig not in sigs:
            ctx.log("new offender class %s: %s :: %s" % (sig, what[:400], json.dumps(case.get("opts"))[:400]))
        sigs[sig] = sigs.get(sig, 0) + 1
    if sigs:
        ctx.log("offender signatures not covered by an open finding:", json.dumps(sigs, sort_keys=True))
    return ctx.finish(
        LEVEL, cov,
        assumptions=["how a ^file is READ is C10's model: here a file is the list of expressions its lines hold (files with "
                     "comments, blank lines, blanks around names and one level of #include are written as such and "
                     "handed to the model as that list)",
                     "regular expressions contain no top-level comma (the word splitter would cut them)",
                     "libc regcomp/regexec (REG_EXTENDED|REG_NOSUB, eflags 0) decide what a pattern matches; the "
                     "theorems assume nothing about WHAT matches, only that the verdict is a function of (pattern, name)",
                     "malloc never fails", "no misc module supplies or filters targets",
                     "the driver executes Opt/ExcludeFast.lean cliFinalWF, proved equal to the model cliFinalW for every "
                     "input (cliFinalWF_eq); exclusion files of 4 MiB go through model, specification and real pdsh"],
        trusted_base=["Lean 4.33 kernel", "axioms: propext, Classical.choice, Quot.sound at most (audited per theorem)",
                      "hand-written model lean/PdshVerif/Opt/Exclude.lean (+ Hostlist/*) tied to the code by differential "
                      "execution of the real pdsh", "Gen/Hostlist.lean regenerated from /repo (constants, probed switches); D2 "
                      "probed on the real binary", "harness/regex_oracle.c (libc regex), checks/c02.py (generator), gcc"],
        checker_cmd="lake build PdshVerif.Props.C02 && #print axioms on every theorem of Props/C02.lean")
