"""C08  Exit status faithfully summarises the run.

proof:          lean/PdshVerif/Props/C08.lean about the model Dsh/Exit.lean (_extract_rc byte level, per-host rc,
                exec_destroy, the -S loop, main's mapping) against the specification Dsh/ExitSpec.lean
correspondence: (a) the static _extract_rc of the real dsh.c on generated lines, (b) the real dsh() with real
                threads against a scripted rcmd layer (harness/exit_harness.c), (c) the real exec_destroy of
                execcmd.c on real children, (d) the scratch-built pdsh binary with -R exec and a helper command,
                (k) -k: which statement ends the run and what has become of the siblings (transport event log / start and
                term traces of real commands) vs the transition system Dsh/ExitKill.lean, (m) a real in-band transport
                module next to exec in one run, (r) one real command line per refusal path of Dsh/ExitRefuse.lean,
                (s) the REAL rsh module (xrcmd.c) against a scripted rsh server that sends the handshake status byte and the
                marker line in one write / apart, or denies (a failure without any return code) (vlib/exitrsh.py),
                (h) the real binary started with SIGCHLD inherited as ignored (vlib/exitchld.py, Dsh/ExitChld.lean);
                each vs `pdshmodel exit model <variant>`; the errx / exit call sites of opt.c and main.c are enumerated
                by a generated probe (harness/consts/exitsites.c) and tied to the model by theorems
oracle:         ExitSpec.admissible (`pdshmodel exit spec`) on the real process exit status of (b) and (d)
"""
import concurrent.futures
import itertools
import os
import re
import subprocess

from vlib import exitchld, exitkill, exitmixed, exitrefuse, exitrsh
from vlib.common import HARNESS, LEAN_DIR, REPO, VERIF, hexs
from vlib.seqrun import run_batch

LEVEL = "proof"
PROPS = "PdshVerif.Props.C08"
MANIFEST = dict(
    engine="exit",
    technique="Lean 4 proof (model of _extract_rc / per-host rc / exec_destroy / -S loop / main refines the "
              "exit-status specification; induction over host lists and lines) + differential correspondence of the "
              "real dsh.c, execcmd.c and the pdsh binary against the compiled model",
    text="Theorems in lean/PdshVerif/Props/C08.lean about the model Dsh/Exit.lean (composed with the fan-out LTS of C03: one "
         "status per target in every schedule; with the option model of C18: pdcp/rpdcp exit 0, every refusal exits 1; with the "
         "relay model of C05/C06 and the cbuf model of C13): the status marker is requested exactly with -S/-k, without -S/-k exit 0, refused "
         "arguments exit 1, -S = max of the remote codes raised to 254 (order independent), 0 iff every command ran "
         "and succeeded, marker extraction, abnormal termination non-zero, -k any failure non-zero (also as a transition system "
         "over poll-loop iterations, `_die_if_signalled`, the teardown test and `_fwd_signal`: every schedule ends with the status "
         "mainExit gives, the failing target's teardown IS the exit, the siblings that are signalled are exactly those inside "
         "their poll loop), every refusal path of main.c / opt.c / module loading / dsh()'s prologue exits 1 (enumeration tied "
         "to the call sites of the tree under check by a generated probe); each proved for "
         "the repaired variant with a kernel-checked counterexample for the unchanged code where that is false; the "
         "repaired model refines the specification for both status channels, and end to end through the relay model "
         "for every chunking of every host's stdout. The "
         "model is executed against the real _extract_rc, the real dsh() on a scripted transport, the real "
         "exec_destroy and the real binary; the real exit statuses are judged by the specification.",
    design_ref="DESIGN.md section 5 C08, section 6 D7 D8 D9 F08-CANCELED",
    note="Lean 4.33 kernel; axioms propext/Classical.choice/Quot.sound at most (audited per theorem every run); "
         "hand-written model tied to dsh.c/execcmd.c/main.c by differential execution of the real sources built from "
         "/repo's working tree plus constants regenerated from /repo; glibc atoi/strstr, waitpid status encoding, "
         "pthreads, poll/pipe modelled not verified; ^C/^Z cancellation (F08-CANCELED) only in the model; harness, "
         "generators, gcc, ASan/UBSan trusted")

FIXNAMES = ["d7", "d8", "d9", "late", "canc"]
SIGS = [1, 2, 3, 6, 9, 10, 11, 13, 14, 15]
CODES = [0, 0, 0, 1, 2, 3, 7, 42, 126, 127, 128, 129, 137, 143, 200, 253, 254, 255]


def rc_magic():
    src = open(os.path.join(LEAN_DIR, "PdshVerif", "Gen", "Dsh.lean")).read()
    return re.search(r'def RC_MAGIC : String := "([^"]*)"', src).group(1).encode()


# --------------------------------------------------------------------------- scenarios
def tok(o):
    k, v = o
    return {"exited": "e%d", "killed": "s%d"}[k] % v if k in ("exited", "killed") else {"cf": "cf", "to": "to"}[k]


def gen_text(rng, n, alphabet=b"abcxyz 019:X"):
    return bytes(rng.choice(alphabet) for _ in range(n))


def gen_host(rng, magic, feature):
    """one target inside the property's domain; `feature` asks for one defect-relevant ingredient"""
    chan = rng.choice(["inband", "exec"])
    r = rng.random()
    if r < 0.62:
        out = ("exited", rng.choice(CODES) if rng.random() < 0.8 else rng.randrange(256))
    elif r < 0.80:
        out = ("killed", rng.choice(SIGS))
    else:
        out = ("cf", 0)
    h = {"chan": chan, "outcome": out, "out": b"", "pre": b"", "late": b"", "delay": rng.choice([0, 0, 3, 8, 15])}
    if chan == "inband" and out[0] in ("exited", "killed"):
        if rng.random() < 0.5:
            h["out"] = b"".join(gen_text(rng, rng.randrange(0, 12)).replace(b"X", b"y") + b"\n"
                                for _ in range(rng.randrange(0, 4)))
        if feature == "pre":
            h["pre"] = gen_text(rng, rng.randrange(1, 9)).replace(b"X", b"y")
        if feature == "late":
            h["late"] = b"".join(gen_text(rng, rng.randrange(0, 9)).replace(b"X", b"y") + b"\n"
                                 for _ in range(rng.randrange(1, 3)))
    return h


def gen_scenario(rng, magic, nmax=6):
    n = rng.choice([1, 2, 2, 3, 3, 4, 5, nmax])
    feature = rng.choice([None, None, None, "pre", "late"])
    hosts = [gen_host(rng, magic, feature if rng.random() < 0.5 else None) for _ in range(n)]
    S, k = rng.choice([(1, 0), (1, 0), (1, 0), (0, 0), (0, 1), (1, 1)])
    if k:
        for h in hosts:     # under -k the mid-stream check (_die_if_signalled) makes late lines time dependent
            h["late"] = b""
    return {"S": S, "k": k, "fanout": rng.choice([1, 2, n, n + 1, 32]), "cmdtmo": 0, "hosts": hosts}


def mk_host(chan, outcome, delay=0, **kw):
    h = {"chan": chan, "outcome": outcome, "out": b"", "pre": b"", "late": b"", "delay": delay}
    h.update(kw)
    return h


SYS_OUTCOMES = [("exited", 0), ("exited", 3), ("exited", 255), ("killed", 9), ("cf", 0)]


def systematic_scenarios():
    """run in EVERY quick run, no randomness: for each of {-S, -k, neither, both} and each status channel
    (in-band marker / out-of-band wait status): every ordered pair of outcomes over {rc 0, rc n, rc 255 (> 254), killed by
    a signal, connect failure} in both completion orders; three targets with ONE failing target in every position, run
    in parallel (fanout 32, the failing one finishing last / first) and one after the other (fanout 1); mixed channels"""
    out = []
    for S, k in ((1, 0), (0, 1), (0, 0), (1, 1)):
        for chan in ("inband", "exec"):
            for a in SYS_OUTCOMES:
                for b in SYS_OUTCOMES:
                    # both completion orders (one is enough for two equal outcomes and for a run without -S / -k)
                    for da, db in (((0, 8), (8, 0)) if a != b and (S or k) else ((0, 8),)):
                        out.append({"S": S, "k": k, "fanout": 32, "cmdtmo": 0,
                                    "hosts": [mk_host(chan, a, da), mk_host(chan, b, db)]})
            for bad in SYS_OUTCOMES[1:]:
                for pos in range(3):
                    for fanout, dbad, dok in (((32, 8, 0), (32, 0, 8), (1, 0, 0)) if (S or k) else ((32, 8, 0),)):
                        hosts = [mk_host(chan, ("exited", 0), dok) for _ in range(3)]
                        hosts[pos] = mk_host(chan, bad, dbad)
                        out.append({"S": S, "k": k, "fanout": fanout, "cmdtmo": 0, "hosts": hosts})
        if S or k:      # ONE LINE LONGER THAN THE RELAY BUFFER (131072 bytes) in front of the marker line: the status survives it
            for o in (("exited", 3), ("killed", 9)):
                out.append({"S": S, "k": k, "fanout": 32, "cmdtmo": 0,
                            "hosts": [mk_host("inband", o, 0, out=b"x" * 140000 + b"\n"), mk_host("exec", ("exited", 0))]})
        for a in SYS_OUTCOMES[1:]:          # one channel each
            out.append({"S": S, "k": k, "fanout": 32, "cmdtmo": 0, "hosts": [mk_host("inband", a), mk_host("exec", ("exited", 0))]})
            out.append({"S": S, "k": k, "fanout": 32, "cmdtmo": 0, "hosts": [mk_host("exec", a), mk_host("inband", ("exited", 0))]})
    return out


def systematic_canceled():
    """canceled targets (DSH_CANCELED: the command never ran) in every position next to every other outcome, all four
    flag combinations"""
    others = ["c1,o-,v0,d0,t0", "c1,o-,v3,d0,t0", "c1,o-,v255,d0,t0", "c0,o-,v0,d0,t0", "c1,o-,v0,d8,t0"]
    out = []
    for S, k in ((1, 0), (0, 1), (0, 0), (1, 1)):
        out.append("dsh %d %d 32 0 x1" % (S, k))
        out.append("dsh %d %d 32 0 x1;x1" % (S, k))
        for o in others:
            for fan in (1, 32):
                out.append("dsh %d %d %d 0 x1;%s" % (S, k, fan, o))
                out.append("dsh %d %d %d 0 %s;x1" % (S, k, fan, o))
                out.append("dsh %d %d %d 0 %s;x1;%s" % (S, k, fan, others[0], o))
    return out


def systematic_timeouts():
    """-u 1, every kind of overdue command: idle (the watchdog's SIGALRM interrupts the worker) or chatty (the worker
    notices the expiry itself at the top of its poll loop) x dies on TERM / traps TERM and exits 0 / 255, in first and
    last position, under -S and under -S -k (a failure WITHOUT a return code must still end a -S -k run non-zero); plus -k and plain"""
    out = []
    i = 0
    for kind in ("idle", "chatty"):
        for end in ("d", ("e", 0), ("e", 255)):
            # -S -k: a target that failed WITHOUT any return code (timed out, the command leaving with 0 on TERM) ends the run with 1
            for S, k in ((1, 0), (1, 1)) + (((0, 1), (0, 0)) if end == "d" else ()):
                hosts = [mk_host("exec", ("exited", 0)), mk_host("exec", ("exited", 0))]
                hosts[i % 2] = mk_host("exec", ("to", 0), tmo={"kind": kind, "end": end})
                i += 1
                out.append({"S": S, "k": k, "fanout": 32, "cmdtmo": 1, "hosts": hosts})
    return out


def systematic_cli():
    """through the real binary, every quick run: -k / -S / both / neither x an out-of-band failure (code, 255, signal)
    in first and last position; a command that ends after closing its streams; overdue commands of each kind under -S"""
    out = []
    ex = lambda o, **kw: mk_host("exec", o, **kw)
    for S, k in ((1, 0), (0, 1), (1, 1), (0, 0)):
        for bad in (("exited", 3), ("exited", 255), ("killed", 9)):
            out.append({"S": S, "k": k, "fanout": 32, "cmdtmo": 0, "hosts": [ex(bad), ex(("exited", 0))]})
            out.append({"S": S, "k": k, "fanout": 1, "cmdtmo": 0, "hosts": [ex(("exited", 0)), ex(("exited", 0)), ex(bad)]})
        out.append({"S": S, "k": k, "fanout": 32, "cmdtmo": 0, "hosts": [ex(("exited", 0))]})
    for S, k, bad in ((1, 0, ("exited", 3)), (0, 1, ("killed", 9)), (1, 1, ("exited", 255))):
        out.append({"S": S, "k": k, "fanout": 32, "cmdtmo": 0, "hosts": [ex(("exited", 0)), ex(bad, close_ms=800)]})
    for kind, end in (("idle", "d"), ("chatty", "d"), ("chatty", ("e", 0)), ("idle", ("e", 0))):
        out.append({"S": 1, "k": 0, "fanout": 32, "cmdtmo": 1,
                    "hosts": [ex(("exited", 0)), ex(("to", 0), tmo={"kind": kind, "end": end})]})
    out.append({"S": 1, "k": 0, "fanout": 32, "cmdtmo": 1,
                "hosts": [ex(("exited", 255)), ex(("to", 0), tmo={"kind": "chatty", "end": "d"})]})
    # -S -k x a target that fails without any return code: the overdue command traps TERM and leaves with 0 / dies
    for kind, end in (("idle", ("e", 0)), ("chatty", ("e", 0)), ("idle", "d")):
        out.append({"S": 1, "k": 1, "fanout": 32, "cmdtmo": 1,
                    "hosts": [ex(("exited", 0)), ex(("to", 0), tmo={"kind": kind, "end": end})]})
    return out


def systematic_lines(magic):
    """_extract_rc, every quick run: the marker at every position of a line, every boundary code, with and without the
    final newline, partial / repeated / embedded markers, signs, blanks, CR, NUL, long preceding text"""
    out = []
    for pre in (b"", b"a", b"foo", b"foo bar: ", magic[:-1], magic[1:], b"X", b"XX", magic[:2] + b" ", b"x" * 100, b"y" * 4000):
        for code in (b"0", b"1", b"3", b"9", b"10", b"42", b"127", b"128", b"254", b"255"):
            out.append(pre + magic + code + b"\n")
        out.append(pre + magic + b"7")                  # no final newline
        out.append(pre + magic + b"\n")                 # no digits
    for num in (b"256", b"999", b"00", b"007", b"-1", b"+3", b" 3", b"3 ", b"3x", b"3\r", b"0x3", b"2147483648", b"4294967299"):
        out.append(magic + num + b"\n")
        out.append(b"t" + magic + num + b"\n")
    out += [magic + b"1\n" + magic + b"2\n", magic + b"5" + magic + b"6\n", b"a" + magic + b"5" + magic + b"6\n",
            magic + magic + b"\n", b"\0" + magic + b"4\n", b"a\0" + magic + b"4\n", magic + b"4\0\n", magic.lower() + b"4\n",
            magic[:-1] + b"4\n", b" " + magic + b"8\n", magic + b"8\n\n", b"\n" + magic + b"8\n"]
    return out


def host_stdout(h, magic):
    k, v = h["outcome"]
    if h["chan"] == "raw":
        return h["out"]
    if h["chan"] != "inband":
        return b""
    if k == "exited":
        return h["out"] + h["pre"] + magic + b"%d\n" % v + h["late"]
    if k == "killed":
        return h["out"] + h["pre"] + magic + b"%d\n" % (128 + v) + h["late"]
    if k == "to":
        return h["out"] + h["pre"]
    return b""


def tmo_of(h):
    """how a timed-out command behaves: idle (silent: the watchdog's SIGALRM interrupts xpoll) or chatty (keeps the
    worker busy with output: the worker notices the expiry itself at the top of its poll loop); on SIGTERM it dies
    (end "d") or, trapping TERM, exits with a code (end ("e", code))"""
    return h.get("tmo") or {"kind": "idle", "end": "d"}


def tmo_wait(h):
    t = tmo_of(h)
    return "s15" if t["end"] == "d" else "e%d" % t["end"][1]


def gen_tmo(rng):
    return {"kind": rng.choice(["idle", "chatty", "chatty"]),
            "end": rng.choice(["d", "d", ("e", 0), ("e", 0), ("e", rng.choice([1, 7, 143, 255]))])}


def wait_tok(h):
    k, v = h["outcome"]
    if h["chan"] == "exec":
        return {"exited": "e%d" % v, "killed": "s%d" % v, "cf": "null", "to": tmo_wait(h)}[k]
    return None


def script_fields(h, magic, real_xd):
    """(harness fields, model fields) of one target"""
    k, v = h["outcome"]
    common = ["c%d" % (0 if k == "cf" else 1), "o" + hexs(host_stdout(h, magic))]
    tail = ["d%d" % h["delay"], "t%d" % ((2 if tmo_of(h)["kind"] == "chatty" else 1) if k == "to" else 0)]
    w = wait_tok(h)
    if h["chan"] == "raw":
        return common + ["v%d" % h["rv"]] + tail, common + ["v%d" % h["rv"]] + tail
    if w is None:
        return common + ["v0"] + tail, common + ["v0"] + tail
    return common + ["v%d" % real_xd[w]] + tail, common + ["w" + w] + tail


def scn_lines(scn, magic, real_xd):
    hf, mf = [], []
    for h in scn["hosts"]:
        a, b = script_fields(h, magic, real_xd)
        hf.append(",".join(a))
        mf.append(",".join(b))
    head = "dsh %d %d %d %d " % (scn["S"], scn["k"], scn["fanout"], scn["cmdtmo"])
    return head + ";".join(hf), head + ";".join(mf)


def spec_tok(h):
    """the specification's description of one target.  A command that timed out and, terminated by pdsh, still
    RETURNED a code (it traps TERM; only the exec channel reports that code) is described by both facts: the
    time-out and the return code -- "the largest return code of any remote command, raised to 254 if any host ...
    timed out" takes the maximum over both (differs from the plain time-out only for code 255)."""
    t = tok(h["outcome"])
    if h["outcome"][0] == "to" and h["chan"] == "exec" and tmo_of(h)["end"] != "d":
        t += ",e%d" % tmo_of(h)["end"][1]
    return t


def spec_line(scn, exit_status):
    outs = ",".join(spec_tok(h) for h in scn["hosts"]) or "-"
    return "adm %d %d 0 %s %d" % (scn["S"], scn["k"], outs, exit_status)


def exit_of(ans):
    m = re.search(r"exit (\d+)$", ans)
    return int(m.group(1)) if m else None


def gen_raw_scenario(rng, magic):
    """outside the oracle's domain (correspondence only): arbitrary stdout with markers anywhere,
    signs, blanks, overflow, NUL bytes, several markers per line, no final newline, arbitrary destroy values"""
    hosts = []
    for _ in range(rng.randrange(1, 4)):
        hosts.append({"chan": "raw", "outcome": ("cf", 0) if rng.random() < 0.1 else ("exited", 0),
                      "out": gen_stream(rng, magic), "pre": b"", "late": b"", "delay": rng.choice([0, 0, 5]),
                      "rv": rng.choice([0, 0, 1, 2, 255, 256, 300, -1, -5, 2147483647, 128, 129])})
    return {"S": 1, "k": 0, "fanout": rng.choice([1, 2, 32]), "cmdtmo": 0, "hosts": hosts}


def gen_number(rng):
    r = rng.random()
    if r < 0.45:
        return b"%d" % rng.choice(CODES + [rng.randrange(256)])
    return rng.choice([b"", b"-1", b"-5", b"+7", b" 4", b"\t12", b"007", b"256", b"300", b"65536", b"2147483647",
                       b"2147483648", b"4294967295", b"4294967296", b"4294967299", b"9223372036854775807",
                       b"9223372036854775808", b"18446744073709551617", b"-2147483649", b"-9223372036854775809",
                       b"12abc", b"x3", b"3 4", b"0x10", b"1e3", b"--3", b"+-3", b" \n5"])


def gen_line(rng, magic, newline=True):
    parts = []
    for _ in range(rng.choice([1, 1, 1, 2, 3])):
        r = rng.random()
        if r < 0.25:
            parts.append(gen_text(rng, rng.randrange(0, 10)))
        elif r < 0.85:
            parts.append(gen_text(rng, rng.choice([0, 0, 1, 3, 8])) + magic + gen_number(rng))
        elif r < 0.93:
            parts.append(magic[:rng.randrange(1, len(magic))])      # a partial marker
        else:
            parts.append(bytes([rng.choice([0, 0, 1, 127, 128, 255])]))
    line = b"".join(parts).replace(b"\n", b" ") if rng.random() < 0.9 else b"".join(parts)
    return line + (b"\n" if newline else b"")


def gen_stream(rng, magic):
    lines = [gen_line(rng, magic) for _ in range(rng.randrange(0, 5))]
    if rng.random() < 0.2:
        lines.append(gen_line(rng, magic, newline=False))
    return b"".join(lines)


# --------------------------------------------------------------------------- variant detection
def detect_variant(exe, magic, env):
    """which of the five proposed repairs the code under test already contains (probe inputs);
    the model is then run in that variant, so the check works on the unchanged and on repaired trees"""
    probes = [["xd s9"],
              ["dsh 1 0 2 0 c1,o-,v255,d0,t0;c0,o-,v0,d0,t0"],
              ["xrc " + hexs(b"foo" + magic + b"3\n")],
              ["dsh 1 0 1 0 c1,o%s,v0,d0,t0" % hexs(magic + b"3\nlate\n")],
              ["dsh 1 0 2 0 c1,o-,v0,d0,t0;x1"]]
    res = run_batch([exe], probes, timeout=60, env=env)
    a = [r[0][0] if r[0] else "" for r in res]
    bits = ["1" if a[0].strip() not in ("0", "") else "0",
            "1" if exit_of(a[1]) == 255 else "0",
            "1" if a[2].split(" ")[0] == "3" else "0",
            "1" if exit_of(a[3]) == 3 else "0",
            "1" if exit_of(a[4]) == 254 else "0"]
    return "".join(bits), a


# --------------------------------------------------------------------------- attribution
def attribute(ctx, cases, base_bits):
    """cases: list of (model_line, spec_prefix) whose real exit is inadmissible.  Returns for each the smallest set
    of the proposed repairs (added to those already present) under which the MODEL's exit becomes admissible
    ('unexplained' if none does): the signature under which the offender is reported."""
    if not cases:
        return []
    missing = [i for i in range(len(FIXNAMES)) if base_bits[i] == "0"]
    subsets = [c for r in range(1, len(missing) + 1) for c in itertools.combinations(missing, r)]
    found = [None] * len(cases)
    for sub in subsets:
        todo = [i for i in range(len(cases)) if found[i] is None]
        if not todo:
            break
        bits = "".join("1" if (base_bits[i] == "1" or i in sub) else "0" for i in range(len(FIXNAMES)))
        ans = ctx.model("exit", "".join(cases[i][0] + "\n" for i in todo), args=["model", bits])
        sp = ctx.model("exit", "".join("%s %d\n" % (cases[i][1], exit_of(a) if exit_of(a) is not None else 999)
                                       for i, a in zip(todo, ans)), args=["spec"])
        for i, v in zip(todo, sp):
            if v == "ok":
                found[i] = "+".join(FIXNAMES[j] for j in sub)
    return [f or "unexplained" for f in found]


# --------------------------------------------------------------------------- command-line runs
def cli_spec(h, magic):
    k, v = h["outcome"]
    end = {"exited": "e%d" % v, "killed": "s%d" % v, "to": "t30"}[k]
    return "o%s:%s" % (hexs(host_stdout(h, magic)), end)


def gen_cli_scenario(rng, magic, allow_timeout):
    n = rng.choice([1, 2, 2, 3, 4])
    hosts = []
    feature = rng.choice([None, None, "pre", "late"])
    for _ in range(n):
        h = gen_host(rng, magic, feature if rng.random() < 0.5 else None)
        if h["outcome"][0] == "cf":            # exec cannot fail to connect; a reachable failure instead
            h["outcome"] = ("exited", rng.choice([1, 255]))
        if h["chan"] == "inband":
            # in-band emulation through exec: the helper prints the marker line itself and exits 0
            h["cli_end"] = ("exited", 0)
        hosts.append(h)
    S, k = rng.choice([(1, 0), (1, 0), (1, 0), (0, 0), (0, 1), (1, 1)])
    if k:
        for h in hosts:
            h["late"] = b""
    cmdtmo = 0
    if allow_timeout:
        cmdtmo = 1
        i = rng.randrange(n)
        hosts[i] = {"chan": "exec", "outcome": ("to", 0), "out": b"", "pre": b"", "late": b"", "delay": 0,
                    "tmo": gen_tmo(rng)}
        if n > 1 and rng.random() < 0.7:     # the order-dependent overwrite needs a 255 before the failed host
            j = rng.randrange(n - 1)
            j = j if j < i else j + 1
            hosts[j] = {"chan": "exec", "outcome": ("exited", 255), "out": b"", "pre": b"", "late": b"", "delay": 0}
    return {"S": S, "k": k, "fanout": rng.choice([1, 2, 32]) if not cmdtmo else 32, "cmdtmo": cmdtmo, "hosts": hosts}


def cli_argv(pdsh, helper, scn, magic):
    argv = [pdsh]
    if scn["S"]:
        argv.append("-S")
    if scn["k"]:
        argv.append("-k")
    if scn["cmdtmo"]:
        argv += ["-u", str(scn["cmdtmo"])]
    n = len(scn["hosts"])
    argv += ["-f", str(scn["fanout"]), "-R", "exec", "-w", "h0" if n == 1 else "h[0-%d]" % (n - 1), helper, "%n"]
    for h in scn["hosts"]:
        k, v = h["outcome"]
        if h["chan"] == "inband":
            argv.append("o%s:e0" % hexs(host_stdout(h, magic)))
        else:
            pre = "c%d_" % h["close_ms"] if h.get("close_ms") and k in ("exited", "killed") else ""
            t = tmo_of(h)
            tspec = "t30" if t["kind"] == "idle" and t["end"] == "d" else \
                    ("y%d_%s" % (20 if t["kind"] == "chatty" else 400, "d" if t["end"] == "d" else "e%d" % t["end"][1]))
            argv.append("o-:" + pre + {"exited": "e%d" % v, "killed": "s%d" % v, "to": tspec}[k])
    return argv


def gen_late_exit_scenario(rng):
    """out-of-band status of a command that closes stdin/stdout/stderr and ends 0.7-1.5 s LATER with a non-zero
    code / a signal: pdsh sees EOF, reaches exec_destroy while the command still runs, and must wait for it"""
    n = rng.choice([1, 2, 3])
    hosts = [{"chan": "exec", "outcome": ("exited", rng.choice([0, 0, 1, 5])), "out": b"", "pre": b"", "late": b"", "delay": 0}
             for _ in range(n)]
    i = rng.randrange(n)
    hosts[i]["outcome"] = rng.choice([("exited", rng.choice([1, 2, 3, 42, 127, 200, 255])), ("exited", rng.randrange(1, 256)),
                                      ("killed", rng.choice([9, 15]))])
    hosts[i]["close_ms"] = rng.randrange(700, 1500)
    S, k = rng.choice([(1, 0), (1, 0), (0, 1), (1, 1)])
    return {"S": S, "k": k, "fanout": 32, "cmdtmo": 0, "hosts": hosts}


def cli_model_line(scn, magic):
    fs = []
    for h in scn["hosts"]:
        k, v = h["outcome"]
        if h["chan"] == "inband":
            fs.append("c1,o%s,we0,d0,t0" % hexs(host_stdout(h, magic)))
        else:
            chatty = k == "to" and not (tmo_of(h)["kind"] == "idle" and tmo_of(h)["end"] == "d")
            fs.append("c1,o%s,w%s,d0,t%d" % ("780a" if chatty else "-",
                                             {"exited": "e%d" % v, "killed": "s%d" % v, "to": tmo_wait(h)}[k],
                                             (2 if chatty else 1) if k == "to" else 0))
    return "dsh %d %d %d %d %s" % (scn["S"], scn["k"], scn["fanout"], scn["cmdtmo"], ";".join(fs))


REFUSED = [["-S", "-R", "exec", "true"],                                  # no targets
           ["-S", "-w", "h0", "-R", "nosuchrcmd", "true"],
           ["-S", "-w", "h0", "-R", "exec", "-f", "x", "true"],
           ["-k", "-w", "h0", "-R", "exec", "-u", "-1", "true"],
           ["-w", "h0", "-R", "exec", "-J", "true"],                      # unknown option
           ["-S", "-w", "h0", "-R", "exec", "-l", "u" * 300, "true"],
           ["-S", "-w", "h0", "-R", "exec", "-t", "3", "true"],           # exec refuses a connect time-out
           ["-w", "h0", "-R", "exec", "-u", "-7", "true"],
           ["-S", "-k", "-R", "exec", "-f"]]                             # missing option argument


def run_cli(argv, timeout=25):
    for attempt in (0, 1):          # a time-out alone is tried once more before it is reported (loaded machine)
        try:
            p = subprocess.run(argv, stdin=subprocess.DEVNULL, stdout=subprocess.PIPE, stderr=subprocess.PIPE,
                               env={"PATH": "/usr/bin:/bin"}, timeout=timeout)
            return p.returncode, p.stderr.decode("utf-8", "replace")[-300:]
        except subprocess.TimeoutExpired:
            continue
    return None, "TIMEOUT"


def run_cancel(pdsh, helper, nhosts):
    """returns (exit status | None, number of canceled targets pdsh reported | None)"""
    import signal
    import time
    argv = [pdsh, "-S", "-f", "1", "-R", "exec", "-w", "h[0-%d]" % (nhosts - 1), helper, "%n", "o-:t3"] + ["o-:e0"] * (nhosts - 1)
    p = subprocess.Popen(argv, stdin=subprocess.DEVNULL, stdout=subprocess.PIPE, stderr=subprocess.PIPE,
                         env={"PATH": "/usr/bin:/bin"})
    time.sleep(1.1)
    p.send_signal(signal.SIGINT)
    time.sleep(0.15)
    p.send_signal(signal.SIGTSTP)
    try:
        out, err_ = p.communicate(timeout=20)
    except subprocess.TimeoutExpired:
        p.kill()
        return None, None
    m = re.search(rb"Canceled (\d+) pending threads", err_)
    return p.returncode, (int(m.group(1)) if m else None)


# --------------------------------------------------------------------------- main
def run(ctx):
    rng = ctx.rng
    ctx.gen_consts(["dsh", "relay", "cbuf", "exitsites"])      # relay, cbuf: the end-to-end theorems go through Relay/Model.lean
    ctx.lean_build([PROPS, "pdshmodel"])
    ctx.audit(PROPS)
    magic = rc_magic()
    exe = os.path.join(ctx.scratch, "exit_harness")
    # ONE snapshot of /repo for everything: the scratch copy made by repo_build() provides the binary AND the sources
    # the in-process harness is compiled from (so a tree that is edited while the check runs cannot give a harness
    # and a binary of different variants)
    repo = ctx.repo_build()
    ok = False
    if repo:
        srcs = [os.path.join(HARNESS, "exit_harness.c"), os.path.join(HARNESS, "exit_exec.c")] + \
               [os.path.join(repo, p) for p in ("src/pdsh/cbuf.c", "src/common/hostlist.c", "src/common/list.c",
                                                "src/common/err.c", "src/common/xmalloc.c", "src/common/xstring.c",
                                                "src/common/xpoll.c", "src/common/fd.c", "src/common/pipecmd.c")]
        cmd = ["gcc", "-g", "-O1", "-w", "-DHAVE_CONFIG_H", "-D_GNU_SOURCE", "-I" + repo, "-I" + repo + "/src/pdsh",
               "-I" + repo + "/src/common", "-I" + repo + "/src", "-I" + HARNESS,
               "-fsanitize=address,undefined", "-fno-sanitize-recover=all", "-fno-omit-frame-pointer"] + srcs + \
              ["-o", exe, "-lpthread"]
        cp = subprocess.run(cmd, stdout=subprocess.PIPE, stderr=subprocess.PIPE)
        ok = cp.returncode == 0
        if not ok:
            ctx.broken.append(("C-BROKEN", "harness build exit_harness", cp.stderr.decode("utf-8", "replace")[-2000:]))
    env = dict(os.environ, ASAN_OPTIONS="detect_leaks=0")
    cov = {"evaluations": 0, "distinct_nontrivial": 0, "samples": [],
           "rule": "(a) lines for _extract_rc: text/marker/number pieces (signs, blanks, overflow at 2^31 2^32 2^63 2^64, "
                   "garbage, several or partial markers, NUL, with and without final newline); (b) per-host outcome vectors "
                   "(exit codes 0..255 boundary-biased, death by signal, connect failure, time-out) x status channel "
                   "(in-band marker line with optional preceding unterminated text / later lines; out-of-band wait status) "
                   "x -S/-k x fanout x completion delays, run through the real dsh() on a scripted transport; (c) the same "
                   "through the scratch-built pdsh binary with -R exec and a helper command, plus refused argument lists; "
                   "including commands that close stdin/stdout/stderr and end 0.7-1.5 s later with a non-zero code or a signal "
                   "(exec_destroy must wait for them), plus refused argument lists; "
                   "every quick run also contains, without randomness: every ordered pair of {rc 0, rc n, rc 255, signal, connect failure} "
                   "x channel x {-S, -k, both, neither} x both completion orders; three targets with one failing target in every position "
                   "(parallel: failing one first / last; fanout 1); canceled targets next to every outcome; every kind of overdue command "
                   "(idle / chatty x dies / traps TERM and exits 0 / 255); the same classes through the real binary; marker lines with the "
                   "marker at every position x boundary codes; (e) the command string dsh() hands to the transport (status marker requested "
                   "exactly with -S / -k, whatever the default transport is called); (k) -k: mid-stream death, teardown test for an "
                   "in-band code / out-of-band code / out-of-band signal / connect failure / code 128 (no signal), the failing target "
                   "first / middle / last, siblings running / completed / not started, on the scripted transport (event log) and "
                   "through the real binary (start / term traces); (m) a real in-band transport module next to exec as default and "
                   "as per-target prefix, one line longer than the relay buffer before the marker; (r) one or more real command "
                   "lines per refusal path of the model (environment, option values, user names, usage, host words, target file, "
                   "transport, module loading, program name, opt_verify, dsh()'s prologue) with a trace file for \"nothing contacted\"; "
                   "(s) the real rsh module against a scripted rsh server: {-S, -k, both, neither} x {status byte and marker line in ONE "
                   "write, 0.4 s apart} x {success, code 3, output then code 255}, a denied target (fails without any return code) "
                   "alone / first / last; (h) started with SIGCHLD inherited as ignored: {-S, -k, both} x {code 3, signal 9}; "
                   "non-trivial = at least one target does not simply succeed (non-zero code, signal, failure, marker with "
                   "preceding text or later lines); distinct = distinct case text"}
    dist = {"xrc": 0, "xrc_with_marker": 0, "xd": 0, "dsh_domain": 0, "dsh_raw": 0, "cli": 0, "cli_refused": 0,
            "cli_timeouts": 0, "exhaustive_vectors": 0, "flags": {}, "channels": {"inband": 0, "exec": 0}}
    distinct = set()
    if ok:
        bits, probe_ans = detect_variant(exe, magic, env)
        cov["variant_detected"] = {n: b == "1" for n, b in zip(FIXNAMES, bits)}
        ctx.log("code under test contains repairs:", cov["variant_detected"])
        if getattr(ctx, "replay", None):
            return replay(ctx, cov, exe, repo, magic, bits, env)

        # ---- (a) _extract_rc ------------------------------------------------------------------
        nx = 1500 if ctx.quick() else 25000
        lines = [b"foo" + magic + b"3\n", magic + b"3\n", b"foo" + magic + b"255\n", b"foo" + magic + b"3",
                 magic, magic + b"\n", b"a" + magic + b"\n", b"", b"\n", magic + magic + b"7\n",
                 b"x" + magic + b"1" + magic + b"9\n"] + load_corpus("xrc") + systematic_lines(magic)
        lines += [gen_line(rng, magic, newline=rng.random() < 0.85) for _ in range(nx)]
        ops = [["xrc " + hexs(l)] for l in lines]
        impl = run_batch([exe], ops, env=env)
        mod = ctx.model("exit", "".join(o[0] + "\n" for o in ops), args=["model", bits])
        for l, (ans, crash), m in zip(lines, impl, mod):
            cov["evaluations"] += 1
            dist["xrc"] += 1
            if magic in l.split(b"\0")[0]:
                dist["xrc_with_marker"] += 1
                distinct.add(("xrc", l))
            if crash is not None:
                ctx.offender("crash", "_extract_rc aborts (sanitizer) on line %r: %s" % (l, crash[-400:]),
                             {"op": "xrc", "line_hex": hexs(l)})
                continue
            if ans[0] != m:
                ctx.disagreement("exit model vs _extract_rc", "line %r: impl `%s` model `%s`" % (l, ans[0], m),
                                 {"op": "xrc " + hexs(l)})
            # oracle (property domain: one marker, decimal code 0..255, no NUL, final newline)
            mm = re.fullmatch(rb"([^\0\n]*?)" + re.escape(magic) + rb"(\d{1,3})\n", l)
            if mm and magic not in mm.group(1) + magic[:-1] and int(mm.group(2)) <= 255 and crash is None:
                want = "%d" % int(mm.group(2))      # only the code: what is left of the line is C05/C06's business
                if ans[0].split(" ")[0] != want:
                    ctx.offender("xrc:marker-after-text" if mm.group(1) and ans[0] == m else "xrc:unexplained",
                                 "_extract_rc(%r) = `%s`, the marker line denotes `%s`" % (l, ans[0], want),
                                 {"op": "xrc", "line_hex": hexs(l), "line": l.decode("latin1"), "impl": ans[0],
                                  "expected": want})
        # ---- (e) the request for the status: what dsh() asks the transport to run --------------------------
        # oracle BY BEHAVIOUR, not by spelling: the string handed to the transport is given to a real shell; with -S / -k
        # the last line it prints must be the marker line carrying the command's status, without them the command must
        # behave as typed (same status, no marker)
        safe = [(b"true", 0), (b"false", 1), (b"(exit 3)", 3), (b"sh -c 'exit 7'", 7), (b"echo hi; (exit 255)", 255),
                (b"echo no newline | tr -d '\\n'; (exit 42)", 42)]
        ucmds = [u for u, _ in safe] + [b"cmd", b"ls -l /tmp", b"a;b", b"x" * 3000, b"q" + magic + b"1"] + \
                [gen_text(rng, rng.randrange(1, 40), b"abc xyz;$?'\"|&01") for _ in range(10 if ctx.quick() else 300)]
        cops = ["cmd %d %d %s" % (S, k, hexs(u)) for u in ucmds for S, k in ((0, 0), (1, 0), (0, 1), (1, 1))]
        # the same whatever the DEFAULT transport is called: the target at hand is served by the (scripted) in-band transport,
        # as a `-w other:host` target of a `-R exec` run is; its status can only come back through the marker
        cops += ["cmd %d %d %s %s" % (S, k, hexs(u), R) for u, _ in safe[:4] for S, k in ((1, 0), (0, 1), (0, 0))
                 for R in ("exec", "rsh", "ssh", "nosuch")]
        impl = run_batch([exe], [[o] for o in cops], env=env, timeout=300)
        mod = ctx.model("exit", "".join(" ".join(o.split(" ")[:4]) + "\n" for o in cops), args=["model", bits])
        for o, (ans, crash), m in zip(cops, impl, mod):
            cov["evaluations"] += 1
            dist["sent_command"] = dist.get("sent_command", 0) + 1
            if crash is not None or not ans:
                ctx.offender("crash", "dsh() harness aborts on %s: %s" % (o[:80], (crash or "")[-300:]), {"op": o})
                continue
            if not same_sent(o, ans[0], m):
                ctx.disagreement("exit model vs dsh() (command handed to the transport)", "impl `%s` model `%s`" % (ans[0][:200], m[:200]),
                                 {"op": o})
            judge_sent(ctx, o, ans[0], dict(safe), magic)
        # ---- (c) exec_destroy on real children --------------------------------------------------
        hows = ["e%d" % c for c in sorted(set(CODES))] + ["s%d" % s for s in SIGS] + ["null"]
        if not ctx.quick():
            hows += ["e%d" % c for c in range(256) if c not in CODES]
        impl = run_batch([exe], [["xd " + h] for h in hows], env=env, timeout=300)
        mod = ctx.model("exit", "".join("xd %s\n" % h for h in hows), args=["model", bits])
        real_xd = {}
        for h, (ans, crash), m in zip(hows, impl, mod):
            cov["evaluations"] += 1
            dist["xd"] += 1
            if crash is not None or not ans:
                ctx.offender("crash", "exec_destroy harness aborts on %s: %s" % (h, (crash or "")[-300:]), {"op": "xd " + h})
                continue
            real_xd[h] = int(ans[0])
            if ans[0] != m:
                ctx.disagreement("exit model vs exec_destroy", "%s: impl %s model %s" % (h, ans[0], m), {"op": "xd " + h})
        for c in range(256):
            real_xd.setdefault("e%d" % c, c)
        # children that close stdin/stdout/stderr and end later: exec_destroy must block until the child is gone and
        # return the status it really ended with (each in its own harness process, in parallel)
        lates = ["c%d_%s" % (rng.randrange(700, 1500), e) for e in
                 (["e3", "e255", "s9", "e%d" % rng.randrange(1, 256)] if ctx.quick() else
                  ["e1", "e2", "e3", "e127", "e128", "e254", "e255", "s9", "s15", "s11"] + ["e%d" % rng.randrange(1, 256) for _ in range(10)])]
        with concurrent.futures.ThreadPoolExecutor(max_workers=8) as ex:
            limpl = list(ex.map(lambda h: run_batch([exe], [["xd " + h]], env=env, timeout=60)[0], lates))
        for i, (h, (ans, crash)) in enumerate(zip(lates, limpl)):      # a time-out alone is tried once more (loaded machine)
            if crash is not None and "TIMEOUT" in crash:
                limpl[i] = run_batch([exe], [["xd " + h]], env=env, timeout=90)[0]
        lmod = ctx.model("exit", "".join("xd %s\n" % h.split("_")[1] for h in lates), args=["model", bits])
        for h, (ans, crash), m in zip(lates, limpl, lmod):
            cov["evaluations"] += 1
            dist["xd_late_exit"] = dist.get("xd_late_exit", 0) + 1
            distinct.add(("xd", h))
            if crash is not None or not ans:
                ctx.offender("crash", "exec_destroy harness aborts on %s: %s" % (h, (crash or "")[-300:]), {"op": "xd " + h})
                continue
            if ans[0] != m:
                ctx.disagreement("exit model vs exec_destroy (child ends after closing its streams)",
                                 "%s: impl %s model %s" % (h, ans[0], m), {"op": "xd " + h})
            end = h.split("_")[1]
            if end[0] == "e" and ans[0] != end[1:]:
                ctx.offender("xd:status-of-late-exit", "exec_destroy returned %s for a child that closed its descriptors and "
                             "exited %s ms later with code %s: the code reported for a host must be the status the command "
                             "actually terminated with" % (ans[0], h[1:].split("_")[0], end[1:]), {"op": "xd " + h, "impl": ans[0]})
        # ---- (b) real dsh() on the scripted transport -----------------------------------------------
        nd = 180 if ctx.quick() else 6000
        sysc = systematic_scenarios()
        dist["dsh_systematic"] = len(sysc)
        scns = load_corpus_scn(magic) + sysc + [gen_scenario(rng, magic) for _ in range(nd)]
        if not ctx.quick():
            ex = exhaustive_vectors()
            dist["exhaustive_vectors"] = len(ex)
            scns += ex
        raws = [gen_raw_scenario(rng, magic) for _ in range(100 if ctx.quick() else 3000)]
        # time-outs (-u 1): an idle or a CHATTY command (the latter makes the worker notice the expiry itself at the top of
        # its poll loop), dying on SIGTERM or trapping it and returning a code; 1-2 s each, one harness process each
        tscns = systematic_timeouts()
        for _ in range(2 if ctx.quick() else 40):
            n = rng.choice([1, 2, 3])
            hosts = [{"chan": "exec", "outcome": ("exited", rng.choice([0, 0, 3, 255])), "out": b"", "pre": b"", "late": b"",
                      "delay": 0} for _ in range(n)]
            hosts[rng.randrange(n)] = {"chan": "exec", "outcome": ("to", 0), "out": b"", "pre": b"", "late": b"", "delay": 0,
                                       "tmo": gen_tmo(rng)}
            tscns.append({"S": rng.choice([1, 1, 1, 0]), "k": rng.choice([0, 0, 0, 1]), "fanout": 32, "cmdtmo": 1, "hosts": hosts})
        tl = [scn_lines(s, magic, real_xd) for s in tscns]
        with concurrent.futures.ThreadPoolExecutor(max_workers=8) as ex:
            timpl = list(ex.map(lambda l: run_batch([exe], [[l[0]]], env=env, timeout=120)[0], tl))
        tmod = ctx.model("exit", "".join(l[1] + "\n" for l in tl), args=["model", bits])
        tbad = []
        for s, (h_, m_in), (ans, crash), m in zip(tscns, tl, timpl, tmod):
            cov["evaluations"] += 1
            dist["dsh_timeouts"] = dist.get("dsh_timeouts", 0) + 1
            kk = tmo_of([x for x in s["hosts"] if x["outcome"][0] == "to"][0])
            dist.setdefault("timeout_kinds", {})
            key = "%s/%s" % (kk["kind"], "dies" if kk["end"] == "d" else "traps-exit-%d" % kk["end"][1])
            dist["timeout_kinds"][key] = dist["timeout_kinds"].get(key, 0) + 1
            distinct.add(("dsh", h_))
            if crash is not None or not ans:
                ctx.offender("crash", "dsh() harness aborts/hangs: %s" % (crash or "")[-400:], {"op": h_})
                continue
            if ans[0] != m:
                ctx.disagreement("exit model vs dsh() (time-out)", "impl `%s` model `%s`" % (ans[0], m),
                                 {"harness_op": h_, "model_op": m_in})
            e = exit_of(ans[0])
            spl = spec_line(s, e if e is not None else 999)
            if ctx.model("exit", spl + "\n", args=["spec"])[0] != "ok":
                tbad.append((s, h_, m_in, ans[0], spl, exit_of(m) == e))
        report_bad(ctx, tbad, bits, "dsh()")
        allsc = [(s, True) for s in scns] + [(s, False) for s in raws]
        hl, ml = [], []
        for s, _ in allsc:
            a, b = scn_lines(s, magic, real_xd)
            hl.append(a)
            ml.append(b)
        impl = run_batch([exe], [[l] for l in hl], env=env, timeout=1800)
        mod = ctx.model("exit", "".join(l + "\n" for l in ml), args=["model", bits])
        sp_in = []
        for (s, dom), (ans, crash) in zip(allsc, impl):
            e = exit_of(ans[0]) if ans else None
            sp_in.append(spec_line(s, e if e is not None else 999) if dom else "adm 0 0 0 - 0")
        spec = ctx.model("exit", "".join(l + "\n" for l in sp_in), args=["spec"])
        bad = []
        for (s, dom), h, m_in, (ans, crash), m, sp, spl in zip(allsc, hl, ml, impl, mod, spec, sp_in):
            cov["evaluations"] += 1
            dist["dsh_domain" if dom else "dsh_raw"] += 1
            fk = "S%dk%d" % (s["S"], s["k"])
            dist["flags"][fk] = dist["flags"].get(fk, 0) + 1
            for hh in s["hosts"]:
                if hh["chan"] in dist["channels"]:
                    dist["channels"][hh["chan"]] += 1
            if any(hh["outcome"] != ("exited", 0) or hh["pre"] or hh["late"] for hh in s["hosts"]):
                distinct.add(("dsh", h))
            if len(cov["samples"]) < 3 and dom and len(s["hosts"]) <= 3 and any(hh["outcome"][0] != "exited" for hh in s["hosts"]):
                cov["samples"].append({"harness_op": h, "impl": ans[0] if ans else None, "spec": sp})
            if crash is not None or not ans:
                ctx.offender("crash", "dsh() harness aborts/hangs: %s" % (crash or "")[-400:], {"op": h})
                continue
            if ans[0] != m:
                ctx.disagreement("exit model vs dsh()", "impl `%s` model `%s`" % (ans[0], m), {"harness_op": h, "model_op": m_in})
            if dom and sp != "ok":
                bad.append((s, h, m_in, ans[0], spl, exit_of(m) == exit_of(ans[0])))
        report_bad(ctx, bad, bits, "dsh()")
        # targets canceled before they started (rcmd_create fails -> DSH_CANCELED, the state ^C ^Z leaves behind):
        # their command never ran, so -S must not report 0 ("0 only if every command on every target ran and succeeded")
        cscn = systematic_canceled()
        for _ in range(25 if ctx.quick() else 400):
            n = rng.choice([1, 2, 3, 4])
            hosts = [rng.choice(["x1", "x1", "c1,o-,v0,d0,t0", "c1,o-,v0,d%d,t0" % rng.choice([0, 5]),
                                 "c1,o-,v%d,d0,t0" % rng.choice([1, 7, 255]), "c0,o-,v0,d0,t0"]) for _ in range(n)]
            cscn.append("dsh %d %d %d 0 %s" % (rng.choice([1, 1, 1, 0]), 0, rng.choice([1, 2, 32]), ";".join(hosts)))
        impl = run_batch([exe], [[l] for l in cscn], env=env, timeout=600)
        mod = ctx.model("exit", "".join(l + "\n" for l in cscn), args=["model", bits])
        for l, (ans, crash), m in zip(cscn, impl, mod):
            cov["evaluations"] += 1
            dist["dsh_canceled"] = dist.get("dsh_canceled", 0) + 1
            distinct.add(("dsh", l))
            judge_canceled(ctx, l, ans, crash, m)
        # ---- (k) -k: which statement ends the run, with which status, and what has become of the siblings: the real dsh()
        # on the scripted transport with its event log vs the transition system Dsh/ExitKill.lean (vlib/exitkill.py)
        kscn = exitkill.systematic(magic, real_xd) + \
            [exitkill.random_scenario(rng, magic, real_xd) for _ in range(6 if ctx.quick() else 150)]
        exitkill.run_scripted(ctx, exe, env, kscn, bits, dist, cov, distinct)
        # ---- (d) the real binary ----------------------------------------------------------------
        helper = os.path.join(ctx.scratch, "exit_helper")
        hb = subprocess.run(["gcc", "-O1", "-w", os.path.join(HARNESS, "exit_helper.c"), "-o", helper])
        if repo and hb.returncode == 0:
            pdsh = os.path.join(repo, "src", "pdsh", "pdsh")
            nc = 50 if ctx.quick() else 900
            nt = 1 if ctx.quick() else 24
            nl = 2 if ctx.quick() else 40
            syscli = systematic_cli()
            dist["cli_systematic"] = len(syscli)
            cs = syscli + [gen_cli_scenario(rng, magic, False) for _ in range(nc)] + \
                 [gen_cli_scenario(rng, magic, True) for _ in range(nt)] + \
                 [gen_late_exit_scenario(rng) for _ in range(nl)]
            dist["cli_late_exit"] = nl + 3
            argvs = [cli_argv(pdsh, helper, s, magic) for s in cs] + [[pdsh] + r for r in REFUSED]
            with concurrent.futures.ThreadPoolExecutor(max_workers=8) as ex:
                res = list(ex.map(run_cli, argvs))
            mls = [cli_model_line(s, magic) for s in cs]
            mod = ctx.model("exit", "".join(l + "\n" for l in mls), args=["model", bits])
            sp_in = [spec_line(s, r[0] if r[0] is not None and r[0] >= 0 else 999) for s, r in zip(cs, res)]
            spec = ctx.model("exit", "".join(l + "\n" for l in sp_in), args=["spec"])
            bad = []
            for s, av, (rc, errtxt), ml_, m, sp, spl in zip(cs, argvs, res, mls, mod, spec, sp_in):
                cov["evaluations"] += 1
                dist["cli"] += 1
                if s["cmdtmo"]:
                    dist["cli_timeouts"] += 1
                distinct.add(("cli", ml_))
                case = {"argv": av[:1] + ["..."] + av[1:], "model_op": ml_, "exit": rc, "spec_query": spl}
                if rc is None:
                    ctx.offender("timeout", "pdsh did not finish within 25 s", case)
                    continue
                if rc < 0:
                    ctx.offender("crash", "pdsh killed by signal %d: %s" % (-rc, errtxt), case)
                    continue
                if exit_of(m) != rc:
                    ctx.disagreement("exit model vs pdsh binary", "exit %d, model `%s`" % (rc, m), case)
                if len(cov["samples"]) < 5 and len(s["hosts"]) <= 2:
                    cov["samples"].append({"argv": [os.path.basename(a) if "/" in a else a for a in av], "exit": rc})
                if sp != "ok":
                    bad.append((s, " ".join(av), ml_, "exit %d" % rc, spl, exit_of(m) == rc))
            report_bad(ctx, bad, bits, "pdsh")
            # a REAL in-band transport (harness/exit_inband_mod.c) next to exec, both as default and as per-target prefix;
            # a line longer than the relay buffer in front of the marker line (vlib/exitmixed.py)
            exitmixed.run(ctx, repo, pdsh, helper, bits, magic, dist, cov, distinct, report_bad)
            # the REAL rsh module (xrcmd.c) against a scripted rsh server: the status byte of the handshake and the marker line
            # in ONE write / apart; targets that fail without any return code under every flag combination (vlib/exitrsh.py)
            exitrsh.run(ctx, pdsh, bits, magic, dist, cov, distinct, report_bad)
            # started with SIGCHLD inherited as IGNORED: is the status of the children still seen? (vlib/exitchld.py)
            exitchld.run(ctx, pdsh, helper, bits, dist, cov, distinct)
            # every refusal path of main / opt.c / module loading / dsh()'s prologue (vlib/exitrefuse.py)
            exitrefuse.run(ctx, repo, bits, dist, cov, distinct)
            # -k through the real binary: the siblings leave start / term traces
            exitkill.run_cli(ctx, pdsh, helper, bits, magic, dist, cov, distinct)
            # F08-CANCELED on the real binary: fanout 1, first target sleeps, ^C then ^Z within a second cancels the
            # pending targets; their command never runs, yet -S exits 0
            for trial in range(1 if ctx.quick() else 3):
                rc, cancelled = run_cancel(pdsh, helper, 3)
                cov["evaluations"] += 1
                dist["cli_cancel"] = dist.get("cli_cancel", 0) + 1
                case = {"argv": "pdsh -S -f 1 -R exec -w h[0-2] helper %n o-:t3 o-:e0 o-:e0  + SIGINT, SIGTSTP",
                        "exit": rc, "canceled_reported": cancelled}
                if rc is None:
                    ctx.offender("timeout", "pdsh did not finish after ^C ^Z", case)
                elif cancelled is None:
                    ctx.notes.append("cancel scenario: pdsh did not report canceled threads (timing); skipped")
                else:
                    m = ctx.model("exit", "dsh 1 0 1 0 c1,o-,we0,d0,t0;" + ";".join(["x1"] * cancelled) +
                                  "".join(";c1,o-,we0,d0,t0" for _ in range(2 - cancelled)) + "\n", args=["model", bits])[0]
                    if exit_of(m) != rc:
                        ctx.disagreement("exit model vs pdsh binary (canceled targets)", "exit %s, model `%s`" % (rc, m), case)
                    if cancelled > 0 and rc == 0:
                        ctx.offender("S:canceled-exit0", "pdsh -S exits 0 although %d target(s) were canceled and their "
                                     "command never ran" % cancelled, case)
            for r, (rc, errtxt) in zip(REFUSED, res[len(cs):]):
                cov["evaluations"] += 1
                dist["cli_refused"] += 1
                if rc != 1:
                    ctx.offender("refused-not-1", "pdsh %s: refused arguments must exit 1, got %s" % (" ".join(r)[:120], rc),
                                 {"argv": ["pdsh"] + r, "exit": rc})
        elif repo:
            ctx.broken.append(("C-BROKEN", "helper build", hb.stderr.decode("utf-8", "replace")[-500:] if hb.stderr else "gcc failed"))
    cov["distinct_nontrivial"] = len(distinct)
    cov["distribution"] = dist
    cov["traces_validated_against_impl"] = cov["evaluations"]
    return ctx.finish(
        LEVEL, cov,
        assumptions=["remote exit codes are 0..255 and a genuine marker line is `XXRETCODE:<decimal $?>\\n` printed by the "
                     "remote shell after the command's output (in-band channel); a command killed by signal s makes the "
                     "remote shell report 128+s",
                     "stdout lines shorter than the 131072-byte cbuf (longer lines: C05)",
                     "glibc atoi = (int) strtol, strstr, Linux wait-status encoding as modelled in Base/CInt.lean, Dsh/Exit.lean",
                     "one marker line per target (with two, the exit status of a -k run depends on how the output is cut into "
                     "poll-loop iterations: C08.kill_early_death_witness); in the -k scenarios failures are 400 ms apart from the "
                     "siblings' own events, a mismatch is re-run once before it is reported",
                     "cancellation by ^C^Z (DSH_CANCELED) is modelled (witness theorem) but not driven on the real code"],
        trusted_base=["Lean 4.33 kernel", "axioms: propext, Classical.choice, Quot.sound at most (audited per theorem)",
                      "hand-written model Dsh/Exit.lean tied to dsh.c/execcmd.c/main.c by differential execution",
                      "Gen/Dsh.lean regenerated from /repo (RC_MAGIC, RC_FAILED)",
                      "harness/exit_harness.c (scripted rcmd layer with event log), exit_exec.c, exit_helper.c, exit_inband_mod.c "
                      "(in-band transport module), harness/consts/exitsites.c (call-site probe: Gen/Exitsites.lean), "
                      "vlib/exitkill.py exitmixed.py exitrefuse.py exitrsh.py (scripted rsh server) exitchld.py, gcc, ASan/UBSan"],
        checker_cmd="lake build PdshVerif.Props.C08 && #print axioms on every theorem of Props/C08.lean")


def replay(ctx, cov, exe, repo, magic, bits, env):
    """./check.py C08 --replay FILE: run exactly the recorded failing input against the code under test (built from
    the current tree), the model and the specification; exit 1 with the same kind of VIOLATION if it still fails"""
    import json
    rp = json.load(open(ctx.replay))
    case = rp.get("case") or {}
    sig = rp.get("signature", "")
    cov["rule"] = "replay of %s (signature %s)" % (os.path.basename(ctx.replay), sig)
    pdsh = os.path.join(repo, "src", "pdsh", "pdsh")
    helper = os.path.join(ctx.scratch, "exit_helper")
    subprocess.run(["gcc", "-O1", "-w", os.path.join(HARNESS, "exit_helper.c"), "-o", helper])

    def relocate(words):
        out = []
        for w in words:
            if w == "...":
                continue
            b = os.path.basename(w)
            out.append(pdsh if b == "pdsh" and "/" in w else (helper if b == "exit_helper" else w))
        return out

    def judge(where, desc, ans, model_op, spec_query):
        m = ctx.model("exit", model_op + "\n", args=["model", bits])[0]
        ctx.log("replay: impl `%s` model `%s`" % (ans, m))
        if exit_of(m) != exit_of(ans):
            ctx.disagreement("exit model vs %s" % where, "impl `%s` model `%s`" % (ans, m), {"case": desc, "model_op": model_op})
        if spec_query:
            prefix = spec_query.rsplit(" ", 1)[0]
            e = exit_of(ans)
            sp = ctx.model("exit", "%s %d\n" % (prefix, e if e is not None else 999), args=["spec"])[0]
            if sp != "ok":
                w = prefix.split(" ")
                scn = {"S": int(w[1]), "k": int(w[2]), "hosts": []}
                report_bad(ctx, [(scn, desc, model_op, ans, "%s %d" % (prefix, e if e is not None else 999),
                                  exit_of(m) == e)], bits, where)

    cov["evaluations"] = 1
    if rp.get("kind") != "input" or not case:
        ctx.log("replay file names no input (theorem/correspondence only): running the whole check instead")
        ctx.replay = None
        return run(ctx)
    if "mixed_case" in case:
        exitmixed.run(ctx, repo, pdsh, helper, bits, magic, {}, cov, set(), report_bad, only=exitmixed.case_from_json(case["mixed_case"]))
    elif "chld_case" in case:
        exitchld.run(ctx, pdsh, helper, bits, {}, cov, set(), only=case["chld_case"])
    elif "rsh_case" in case:
        exitrsh.run(ctx, pdsh, bits, magic, {}, cov, set(), report_bad, only=case["rsh_case"])
    elif "refusal_label" in case:
        exitrefuse.run(ctx, repo, bits, {}, cov, set(), only=case["refusal_label"])
    elif "k_scn" in case:
        exitkill.run_scripted(ctx, exe, env, [exitkill.scn_from_json(case["k_scn"])], bits, {}, cov, set())
    elif "k_case" in case:
        c = exitkill.scn_from_json(case["k_case"])
        for attempt in (0, 1):
            argv, obs = exitkill.run_cli_case(pdsh, helper, ctx.scratch, attempt, c)
            if exitkill.judge_cli(ctx, c, argv, obs, bits, report=(attempt == 1)) != "retry":
                break
    elif "line_hex" in case:
        l = bytes.fromhex(case["line_hex"]) if case["line_hex"] != "-" else b""
        (ans, crash), = run_batch([exe], [["xrc " + hexs(l)]], env=env)
        m = ctx.model("exit", "xrc %s\n" % hexs(l), args=["model", bits])[0]
        ctx.log("replay: _extract_rc(%r) impl `%s` model `%s` expected `%s`" % (l, ans, m, case.get("expected")))
        if crash is not None:
            ctx.offender("crash", "_extract_rc aborts on %r: %s" % (l, crash[-300:]), case)
        else:
            if ans[0] != m:
                ctx.disagreement("exit model vs _extract_rc", "line %r: impl `%s` model `%s`" % (l, ans[0], m), case)
            if case.get("expected") is not None and ans[0].split(" ")[0] != str(case["expected"]):
                ctx.offender(sig if ans[0] == m else "xrc:unexplained", "_extract_rc(%r) = `%s`, the marker line denotes `%s`" %
                             (l, ans[0], case["expected"]), case)
    elif str(case.get("op", "")).startswith("cmd "):
        o = case["op"]
        (ans, crash), = run_batch([exe], [[o]], env=env, timeout=60)
        m = ctx.model("exit", " ".join(o.split(" ")[:4]) + "\n", args=["model", bits])[0]
        ctx.log("replay: %s impl `%s` model `%s`" % (o[:80], ans, m))
        if crash is not None or not ans:
            ctx.offender("crash", "dsh() harness aborts on %s" % o[:80], case)
        else:
            if not same_sent(o, ans[0], m):
                ctx.disagreement("exit model vs dsh() (command handed to the transport)", "impl `%s` model `%s`" % (ans[0][:200], m[:200]), case)
            judge_sent(ctx, o, ans[0], {bytes.fromhex(o.split(" ")[3]): case.get("status", 0)}, magic)
    elif str(case.get("op", "")).startswith("xd "):
        h = case["op"][3:]
        (ans, crash), = run_batch([exe], [["xd " + h]], env=env, timeout=60)
        end = h.split("_")[-1]
        m = ctx.model("exit", "xd %s\n" % end, args=["model", bits])[0]
        ctx.log("replay: exec_destroy %s impl `%s` model `%s`" % (h, ans, m))
        if crash is not None or not ans:
            ctx.offender("crash", "exec_destroy harness aborts on %s" % h, case)
        else:
            if ans[0] != m:
                ctx.disagreement("exit model vs exec_destroy", "%s: impl %s model %s" % (h, ans[0], m), case)
            if end[0] == "e" and ans[0] != end[1:]:
                ctx.offender("xd:status-of-late-exit", "exec_destroy returned %s for a child that exits with code %s" %
                             (ans[0], end[1:]), case)
    elif case.get("where") == "dsh()-canceled" or (case.get("where") == "dsh()" and "model_op" not in case):
        (ans, crash), = run_batch([exe], [[case["case"]]], env=env, timeout=120)
        m = ctx.model("exit", case["case"] + "\n", args=["model", bits])[0]
        judge_canceled(ctx, case["case"], ans, crash, m)
    elif case.get("where") == "dsh()" or "harness_op" in case or str(case.get("op", "")).startswith("dsh "):
        op = case.get("case") or case.get("harness_op") or case.get("op")
        (ans, crash), = run_batch([exe], [[op]], env=env, timeout=120)
        if crash is not None or not ans:
            ctx.offender("crash", "dsh() harness aborts/hangs: %s" % (crash or "")[-300:], case)
        else:
            judge("dsh()", op, ans[0], case.get("model_op", op), case.get("spec_query"))
    elif "canceled_reported" in case:
        rc, cancelled = run_cancel(pdsh, helper, 3)
        ctx.log("replay: exit %s, canceled %s" % (rc, cancelled))
        if rc is None:
            ctx.offender("timeout", "pdsh did not finish after ^C ^Z", case)
        elif cancelled and rc == 0:
            ctx.offender("S:canceled-exit0", "pdsh -S exits 0 although %d target(s) were canceled and their command never ran"
                         % cancelled, dict(case, exit=rc, canceled_reported=cancelled))
    else:
        av = case.get("argv") if isinstance(case.get("argv"), list) else str(case.get("case", "")).split(" ")
        av = relocate(av)
        if av and os.path.basename(av[0]) != "pdsh":
            av = [pdsh] + av
        if av and av[0] == "pdsh":
            av[0] = pdsh
        rc, errtxt = run_cli(av)
        ctx.log("replay: %s -> exit %s" % (" ".join(os.path.basename(a) if "/" in a else a for a in av)[:300], rc))
        newcase = dict(case, exit=rc, argv=av)
        if rc is None:
            ctx.offender("timeout", "pdsh did not finish within 25 s", newcase)
        elif rc < 0:
            ctx.offender("crash", "pdsh killed by signal %d" % -rc, newcase)
        elif sig == "refused-not-1" or ("model_op" not in case and "spec_query" not in case):
            if rc != 1:
                ctx.offender("refused-not-1", "refused arguments must exit 1, got %s" % rc, newcase)
        else:
            judge("pdsh", " ".join(av), "exit %d" % rc, case["model_op"], case.get("spec_query"))
    cov["distinct_nontrivial"] = 1
    cov["distribution"] = {"replay": 1}
    cov["traces_validated_against_impl"] = 1
    return ctx.finish(LEVEL, cov, assumptions=["replay of one recorded input"],
                      trusted_base=["see the full check"], checker_cmd="lake build PdshVerif.Props.C08")


def same_sent(op, implhex, modelhex):
    """the command string of the implementation and of the model: the user's command verbatim, what is appended to it
    compared up to blanks (`;echo X` / `; echo X` are the same request to a shell)"""
    u = op.split(" ")[3]
    u = bytes.fromhex(u) if u != "-" else b""
    a = bytes.fromhex(implhex) if implhex != "-" else b""
    b = bytes.fromhex(modelhex) if modelhex not in ("-", "bad-op") else b""
    if not (a.startswith(u) and b.startswith(u)):
        return a == b
    return a[len(u):].replace(b" ", b"") == b[len(u):].replace(b" ", b"")


def judge_sent(ctx, op, anshex, safe, magic):
    """`cmd S K HEX`: run the string dsh() handed to the transport in a real shell (only for the fixed harmless commands of
    `safe`: command -> its exit status) and judge what it does"""
    w = op.split(" ")
    S, k, u = int(w[1]), int(w[2]), (bytes.fromhex(w[3]) if w[3] != "-" else b"")
    if u not in safe:
        return
    got = bytes.fromhex(anshex) if anshex != "-" else b""
    code = safe[u]
    try:
        p = subprocess.run(["/bin/sh", "-c", got.decode("latin1")], stdin=subprocess.DEVNULL, stdout=subprocess.PIPE,
                           stderr=subprocess.PIPE, timeout=30, cwd="/", env={"PATH": "/usr/bin:/bin"})
    except subprocess.TimeoutExpired:
        return
    lines = p.stdout.split(b"\n")
    lastline = lines[-2] if len(lines) >= 2 and lines[-1] == b"" else lines[-1]
    fl = ("S" if S else "") + ("k" if k else "")
    case = {"op": op, "impl": anshex[-200:], "status": code, "shell_stdout": p.stdout[-200:].decode("latin1")}
    if fl and not lastline.endswith(magic + b"%d" % code):
        ctx.offender("%s:marker-not-requested" % fl,
                     "with -%s dsh() asks the transport to run %r for the command %r; a shell running that prints %r as its last "
                     "line, not the status marker `%s%d`: an in-band transport can never report the command's status"
                     % (fl, got[-80:], u, lastline[-60:], magic.decode(), code), case)
    if not fl and (p.returncode != code or magic in p.stdout):
        ctx.offender("plain:command-changed", "without -S / -k dsh() asks the transport to run %r for the command %r: a shell running "
                     "that ends with %d (the command alone: %d)" % (got[-80:], u, p.returncode, code), case)


def judge_canceled(ctx, op, ans, crash, m):
    if crash is not None or not ans:
        ctx.offender("crash", "dsh() harness aborts/hangs: %s" % (crash or "")[-400:], {"op": op})
        return
    if ans[0] != m:
        ctx.disagreement("exit model vs dsh() (canceled targets)", "impl `%s` model `%s`" % (ans[0], m), {"harness_op": op})
    w = op.split(" ")
    ncanc = w[5].split(";").count("x1")
    if w[1] == "1" and ncanc and exit_of(ans[0]) == 0:
        ctx.offender("S:canceled-exit0", "dsh() with -S ends with `%s` although %d target(s) were canceled and their command "
                     "never ran" % (ans[0], ncanc), {"where": "dsh()-canceled", "case": op, "impl": ans[0]})


def report_bad(ctx, bad, bits, where):
    """offenders: the real exit status is not admissible; signature = which proposed repair(s) would make it so"""
    sigs = attribute(ctx, [(m_in, spl.rsplit(" ", 1)[0]) for _, _, m_in, _, spl, _ in bad], bits)
    for (s, h, m_in, ans, spl, model_agrees), fixset in zip(bad, sigs):
        if not model_agrees:
            # the model does not reproduce this exit status, so none of the modelled defects explains it
            fixset = "unexplained"
        flags = ("S" if s["S"] else "") + ("k" if s["k"] else "") or "plain"
        outs = ",".join(spec_tok(hh).replace(",", "+") + ("/" + hh["chan"] if hh["chan"] != "raw" else "") for hh in s["hosts"])
        ctx.offender("%s:needs-fix:%s" % (flags, fixset),
                     "%s with flags -%s and outcomes [%s] ends with `%s`, which the specification does not admit "
                     "(smallest set of proposed repairs that makes it admissible: %s)" % (where, flags, outs, ans, fixset),
                     dict({"where": where, "case": h, "model_op": m_in if len(m_in) < 4000 else m_in[:300] + "...", "impl": ans,
                           "spec_query": spl}, **s.get("extra", {})))


def exhaustive_vectors():
    """all vectors over {0,1,2,127,128,254,255,FAILED,SIG9,SIG15} for N <= 3 (every order), both channels, -S"""
    alpha = [("exited", c) for c in (0, 1, 2, 127, 128, 254, 255)] + [("cf", 0), ("killed", 9), ("killed", 15)]
    out = []
    for n in (1, 2, 3):
        for combo in itertools.product(alpha, repeat=n):
            for chan in ("inband", "exec"):
                out.append({"S": 1, "k": 0, "fanout": 32, "cmdtmo": 0,
                            "hosts": [{"chan": chan, "outcome": o, "out": b"", "pre": b"", "late": b"", "delay": 0}
                                      for o in combo]})
    return out


def load_corpus(kind):
    d = os.path.join(VERIF, "corpus", "C08")
    out = []
    if os.path.isdir(d):
        for f in sorted(os.listdir(d)):
            if f.startswith(kind):
                for l in open(os.path.join(d, f)):
                    l = l.strip()
                    if l and not l.startswith("#"):
                        out.append(bytes.fromhex(l) if l != "-" else b"")
    return out


def load_corpus_scn(magic):
    """corpus/C08/scn*: one scenario per line: `S k fanout chan:outcome[:prehex[:latehex]] ...`"""
    d = os.path.join(VERIF, "corpus", "C08")
    out = []
    if os.path.isdir(d):
        for f in sorted(os.listdir(d)):
            if f.startswith("scn"):
                for l in open(os.path.join(d, f)):
                    w = l.split()
                    if not w or w[0].startswith("#"):
                        continue
                    hosts = []
                    for spec in w[3:]:
                        p = spec.split(":")
                        o = p[1]
                        outcome = ("cf", 0) if o == "cf" else (("exited", int(o[1:])) if o[0] == "e" else ("killed", int(o[1:])))
                        hosts.append({"chan": p[0], "outcome": outcome, "out": b"",
                                      "pre": bytes.fromhex(p[2]) if len(p) > 2 and p[2] != "-" else b"",
                                      "late": bytes.fromhex(p[3]) if len(p) > 3 and p[3] != "-" else b"", "delay": 0})
                    out.append({"S": int(w[0]), "k": int(w[1]), "fanout": int(w[2]), "cmdtmo": 0, "hosts": hosts})
    return out
