"""C11  pdcp/rpdcp reproduce the source tree exactly on every target.

proof:          lean/PdshVerif/Props/C11.lean (sender model of pcp_client.c: pre-order walk with leave-directory
                sentinels + per-entry records; receiver model of pcp_server.c:_sink; round trip, meta data with -p,
                block-wise data transfer, `.host` naming)
correspondence: in-process round trip: the REAL pcp_expand_dirs()+pcp_client() in one forked child, the REAL
                pcp_server() in another (chroot'ed into a fresh jail), a logging relay in between; the client's byte
                stream, the reply classes and the complete destination file system are compared with
                `pdshmodel pcp rt` (sender model + receiver model)
                several receivers in ONE process (rpdcp): K real pcp_server() calls as threads, all connections open at
                once, input interleaved chunk-wise, in some cases with the umask(2) calls at the start of two receivers interleaved, in others with two _error() calls forced to overlap (one
                receiver parked between fdopen and errf until another has reported an error); replies per connection and the joint destination = one model run per
                connection (theorems receivers_independent / receiver_alone state the product automaton)
oracle:         (receivers are independent) the replies on each of the K connections equal those of the same real receiver
                fed the same bytes alone in a process of its own;
                the destination snapshot is compared with the source trees by `pdshmodel pcp spec11` (names, structure,
                bytes; permission bits and modification times with -p), independent of both models
"""
import os
import re
import shutil
import subprocess
import time

from vlib import pcp
from vlib.common import HARNESS, REPO
from vlib.pcp import Ent, OLD, hx
from vlib.seqrun import run_batch
from checks.c12 import SAN_FLAGS, read_const, probe_variant, variant_text, probe_cnt
from checks.c12 import model_line as c12_model_line

LEVEL = "proof"
PROPS = "PdshVerif.Props.C11"
MANIFEST = dict(
    engine="pcp",
    technique="Lean 4 proof (sender walk/records and receiver automaton: round trip by structural induction on trees) "
              "+ differential correspondence of the real pcp_client()/pcp_server() pair against the compiled models "
              "on generated trees + specification oracle on the destination snapshot",
    text="Theorems in lean/PdshVerif/Props/C11.lean about the models of pcp_client.c (walk, records) and "
         "pcp_server.c:_sink; the real client and server are run against each other in process on generated source "
         "trees (depth <= 5, fan-out <= 6, sizes around the 8 KiB block, names with blanks and shell metacharacters, "
         "all mode bits, -p on/off, forward and reverse naming, one or several sources; 2-4 receivers as threads of "
         "one process with errors on several connections, as in rpdcp); the client's bytes, the "
         "replies and the destination tree are compared with the models and, independently, the destination with "
         "the source (specification), which yields the failing tree as replay.  Every run covers a fixed list of classes "
         "(sizes, names, modes, times, deep/wide/empty directories, conflicts, overwrites, destinations, host names with "
         "dots); the static objects and process-wide calls of pcp_server.c are compared with Pcp/Statics.lean.",
    design_ref="DESIGN.md section 5 C11/C12",
    note="Lean 4.33 kernel; axioms propext/Classical.choice/Quot.sound at most (audited per theorem every run); "
         "hand-written models tied to pcp_client.c/pcp_server.c by differential execution of the real sources built "
         "from /repo's working tree; the transport (rcmd modules, threads per target) is not part of this check: "
         "every target runs the same client code on its own connection; run as root (no permission failures)")

CWD = b"o/w"
NAMES = [b"a", b"b", b"file one", b"x;y", b"$(touch z)", b"`id`", b"a&b|c", b"*", b"?", b"~", b"-n", b"#h", b"q'uote",
         b'd"q', b"back\\slash", b"tab\there", b"\xc3\xa9", b"\xff\xfe", b"a!b@c#d$", b"..x", b"...", b".h", b"E", b"T1 0 1 0",
         b"C0644 0 x", b"name.with.dots", b"UPPER", b"0", b"a b  c", b"%s%n", b"{}", b"[x]", b"<in>", b"k=v", b"e\x01m"]
SIZES = [0, 0, 1, 1, 2, 7, 100, 8191, 8192, 8193, 3 * 8192 - 1, 3 * 8192, 3 * 8192 + 1]
HOSTS = [b"host7", b"n1.dom.ain", b"h"]
# access time of every source: later than every modification time used (and than the clock), so that reading a source --
# the check's own listdir(), the client's readdir()/read() -- never refreshes it (relatime: atime <= mtime triggers an
# update) and the `T` record is the same on every machine
FUTURE = 2 ** 33


class Node:
    def __init__(self, name, kind, mode, mtime, nsec=0, gen=None, kids=None):
        self.name, self.kind, self.mode, self.mtime, self.nsec, self.gen, self.kids = name, kind, mode, mtime, nsec, gen, kids
        self.atime = 0
        self.link = None       # symbolic link to this sibling name: the node carries what stat(2) sees through it


def gen_tree(rng, name, depth, budget, want_dir=None, big_ok=True):
    isdir = want_dir if want_dir is not None else (depth < 5 and rng.random() < 0.35)
    mt = 1100000000 + rng.randrange(500000000)
    modes = [0o644, 0o755, 0o600, 0o400, 0o444, 0o777, 0, 0o7777, 0o4755, 0o2755, 0o1777, 0o6711, rng.randrange(0o10000)]
    if isdir:
        n = Node(name, "d", rng.choice([0o755, 0o700, 0o775, 0o711, 0, 0o1777, 0o500] if rng.random() < 0.8 else modes), mt, kids=[])
        nk = rng.choice([0, 1, 2, 2, 3, 4, 6]) if depth < 5 else 0
        names = rng.sample(NAMES, min(nk, len(NAMES)))
        for nm in names:
            if budget[0] <= 0:
                break
            budget[0] -= 1
            n.kids.append(gen_tree(rng, nm, depth + 1, budget, big_ok=big_ok))
        return n
    size = rng.choice(SIZES) if rng.random() < 0.55 else rng.randrange(0, 300)
    if size > 9000 and (not big_ok or rng.random() < 0.5):
        size = rng.choice([8191, 8192, 8193])
    return Node(name, "f", rng.choice(modes), mt, gen=(rng.randrange(1, 2**31), size))


def materialize(base, node, future):
    """create on disk below directory `base` (bytes); returns nothing; metadata set afterwards (post-order)"""
    p = base + b"/" + node.name
    if node.link:
        os.symlink(node.link, p)
    elif node.kind == "d":
        os.mkdir(p)
        for k in node.kids:
            materialize(p, k, future)
    else:
        with open(p, "wb") as f:
            f.write(pcp.lcg_bytes(*node.gen))


def set_atime(node, future):
    node.atime = future
    for k in node.kids or []:
        set_atime(k, future)


def set_meta(base, node, future):
    p = base + b"/" + node.name
    if node.link:
        set_atime(node, future)       # mode and times are those of the target, set there
        return
    if node.kind == "d":
        for k in node.kids:
            set_meta(p, k, future)
    node.atime = future
    os.chmod(p, node.mode)
    os.utime(p, ns=(future * 10**9, node.mtime * 10**9 + node.nsec))
    # the SOURCE is what the file system holds (it may clamp a far-future time or have a coarser clock)
    st = os.stat(p)
    node.mtime, node.nsec = st.st_mtime_ns // 10**9, st.st_mtime_ns % 10**9
    node.atime = st.st_atime_ns // 10**9


def reorder(base, node):
    """children in the order readdir returns them (what pcp_expand_dirs will see)"""
    if node.kind == "d":
        p = base + b"/" + node.name
        order = {n: i for i, n in enumerate(os.listdir(p))}
        node.kids.sort(key=lambda k: order.get(k.name, 10**6))
        for k in node.kids:
            reorder(p, k)


def usec(node):
    """modification time in microseconds, the unit of the models' trees (resolution of the T record)"""
    return node.mtime * 10**6 + node.nsec // 1000


def tokens(node, name=None):
    nm = hx(node.name if name is None else name)
    if node.kind == "f":
        return ["F", nm, "%o" % node.mode, "%d" % usec(node), "%d" % (node.atime * 10**6), "g%d.%d" % node.gen]
    out = ["D", nm, "%o" % node.mode, "%d" % usec(node), "%d" % (node.atime * 10**6)]
    for k in node.kids:
        out += tokens(k)
    return out + [")"]


def count_entries(node):
    if node.kind == "f":
        return 1
    return 2 + sum(count_entries(k) for k in node.kids)


def walk(node, prefix):
    p = prefix + [node.name]
    yield b"/".join(p), node
    if node.kind == "d":
        for k in node.kids:
            yield from walk(k, p)


def snapshot_tokens(snap, gens):
    """the real destination as FS entries for the specification; contents that equal their generator output are
    passed by name (g<seed>.<len>), everything else literally"""
    out = []
    for path, r in snap.items():
        if r["kind"] == "d":
            c = "-"
        elif r["kind"] == "f":
            g = gens.get(r["data"][:64] + b"|%d" % len(r["data"]))
            if g is not None and pcp.lcg_bytes(*g) == r["data"]:
                c = "g%d.%d" % g
            else:
                c = "h" + r["data"].hex()
        else:
            continue
        mt = "%d" % r["sec"] if r["nsec"] == 0 else "%d.%d" % (r["sec"], r["nsec"] // 1000)
        out.append("%s:%s:%o:%s:%s" % (hx(path), r["kind"], r["mode"], mt, c))
    return out


def gen_case(rng, k, quick):
    nsrc = rng.choice([1, 1, 1, 2, 2, 3])
    budget = [rng.choice([3, 8, 20, 40])]
    names = rng.sample(NAMES, nsrc)
    p = rng.choice([0, 1])
    reverse = rng.random() < 0.3
    srcs = []
    for i, nm in enumerate(names):
        want_dir = None if rng.random() < 0.5 else True
        if nm == b"a!b@c#d$":
            nm = b"sentinel-like"
        t = gen_tree(rng, nm, 1, budget, want_dir=want_dir, big_ok=True)
        userdir = rng.choice([b"", b"", b"in", b"deep/er"])
        srcs.append((userdir, t))
    c = dict(k=k, srcs=srcs, p=p, reverse=reverse, host=rng.choice(HOSTS), um=rng.choice([0o22, 0o22, 0o77, 0, 0o27]),
             dest=b"dest", conflict=None, overwrite=None,
             destmode=rng.choice([0o755, 0o755, 0o755, 0o700, 0o2775]), subsec=False, fsz=0)
    if nsrc == 1 and srcs[0][1].kind == "f" and not reverse and rng.random() < 0.3:
        c["dest"] = b"dest/new name"                       # single file copied to a (new) file name
    elif rng.random() < 0.15:
        c["dest"] = rng.choice([b"dest/", b"./dest", b"/o/w/dest", b"../w/dest"])
    if p and rng.random() < 0.06:
        files = [n for _, t in srcs for _, n in walk(t, []) if n.kind == "f"]
        if files:
            rng.choice(files).nsec = rng.randrange(1, 10**6) * 1000
            c["subsec"] = True
    if c["dest"] == b"dest" and rng.random() < 0.08:
        # something else already sits where one entry should go
        cand = [(path, n) for _, t in srcs for path, n in walk(t, [])]
        path, n = rng.choice(cand)
        c["conflict"] = (path, n.kind)
    elif c["dest"] == b"dest" and rng.random() < 0.12:
        # a longer regular file of the same name is already there: it must be replaced, not patched
        files = [(path, n) for _, t in srcs for path, n in walk(t, []) if n.kind == "f"]
        if files:
            c["overwrite"] = rng.choice(files)[0]
    elif c["dest"] == b"dest" and rng.random() < 0.10:
        # "a file that cannot be written is reported without corrupting any other file": the receiver runs under a
        # file size limit, so files beyond it fail in the middle of their data
        c["fsz"] = rng.choice([8192, 16384, 20000, 100])
    return c


def dest_name(c, userdir, node):
    return node.name + (b"." + c["host"] if c["reverse"] else b"")


def asname(c):
    """a single file copied to a FILE name (new, or an existing regular file): (canonical parent, name), else None"""
    if c["dest"] == b"dest/new name":
        return (b"o/w/dest", b"new name")
    return c.get("asname")


def run_cases(ctx, exe, cases, cnt, var, cov, dist, distinct, nested=False):
    sbase = os.path.join(ctx.scratch, "src_shrink" if nested else "src")
    jbase = os.path.join(ctx.scratch, "jails_shrink" if nested else "jails")
    for d in (sbase, jbase):
        shutil.rmtree(d, ignore_errors=True)
        os.makedirs(d)
    future = FUTURE
    ops, mlines, ents_l, jails = [], [], [], []
    for c in cases:
        sdir = os.fsencode(os.path.join(sbase, "c%d" % c["k"]))
        os.mkdir(sdir)
        users = []
        for userdir, t in c["srcs"]:
            base = sdir
            if userdir:
                base = sdir + b"/" + userdir
                os.makedirs(base, exist_ok=True)
            materialize(base, t, future)
        for userdir, t in c["srcs"]:
            base = sdir + (b"/" + userdir if userdir else b"")
            set_meta(base, t, future)
            reorder(base, t)
            users.append((userdir + b"/" if userdir else b"") + t.name)
        c["users"] = users
        ents = [Ent(b"", "d", 0o755, OLD), Ent(b"o", "d", 0o755, OLD + 1), Ent(b"o/w", "d", 0o755, OLD + 3),
                Ent(b"o/w/other", "f", 0o600, OLD + 4, b"other"), Ent(b"o/w/dest", "d", c["destmode"], OLD + 7)]
        if c["conflict"]:
            path, kind = c["conflict"]
            # the destination name of the top-level component may carry the .host suffix
            comps = path.split(b"/")
            top = next(t for _, t in c["srcs"] if t.name == comps[0])
            comps[0] = dest_name(c, b"", top)
            cpath = b"o/w/dest/" + b"/".join(comps)
            for i in range(1, len(comps)):
                ents.append(Ent(b"o/w/dest/" + b"/".join(comps[:i]), "d", 0o755, OLD + 20 + i))
            ents.append(Ent(cpath, "f", 0o644, OLD + 30, b"in the way") if kind == "d" else Ent(cpath, "d", 0o755, OLD + 30))
            c["conflict_path"] = cpath
            # further entries of the wrong kind in the same run (Pcp/Deep.lean: any number, at any depth); a directory in
            # the way holds a file of its own, which must stay
            c["more_paths"] = []
            for j, (path2, kind2) in enumerate(c.get("more_conflicts") or []):
                comps = path2.split(b"/")
                top = next(t for _, t in c["srcs"] if t.name == comps[0])
                comps[0] = dest_name(c, b"", top)
                have = set(e.path for e in ents)
                for i in range(1, len(comps)):
                    dpath = b"o/w/dest/" + b"/".join(comps[:i])
                    if dpath not in have:
                        ents.append(Ent(dpath, "d", 0o755, OLD + 40 + 3 * j + i))
                        have.add(dpath)
                cpath2 = b"o/w/dest/" + b"/".join(comps)
                if kind2 == "d":
                    ents.append(Ent(cpath2, "f", 0o644, OLD + 60 + j, b"in the way"))
                else:
                    ents.append(Ent(cpath2, "d", 0o750, OLD + 60 + j))
                    ents.append(Ent(cpath2 + b"/kept", "f", 0o600, OLD + 70 + j, b"kept"))
                c["more_paths"].append((cpath2, kind2))
        if c.get("overwrite"):
            comps = c["overwrite"].split(b"/")
            top = next(t for _, t in c["srcs"] if t.name == comps[0])
            node = dict(walk(top, []))[c["overwrite"]]
            comps[0] = dest_name(c, b"", top)
            for i in range(1, len(comps)):
                ents.append(Ent(b"o/w/dest/" + b"/".join(comps[:i]), "d", 0o755, OLD + 20 + i))
            ents.append(Ent(b"o/w/dest/" + b"/".join(comps), "f", 0o600, OLD + 30, b"X" * (node.gen[1] + c.get("old_extra", 50))))
        j = os.path.join(jbase, "j%d" % c["k"])
        pcp.build_jail(j, ents)
        jails.append(j)
        ents_l.append(ents)
        nent = sum(count_entries(t) for _, t in c["srcs"])
        c["y"] = 0 if c["reverse"] else int(nent > 1)
        c["nent"] = nent
        ops.append(["rt %s /%s %s %d %d %o %d %s %d %s %s" % (j, CWD.decode(), hx(c["dest"]), c["p"], c["y"], c["um"],
                                                           c.get("fsz", 0), os.fsdecode(sdir), int(c["reverse"]),
                                                           hx(c["host"]), " ".join(hx(u) for u in users))])
        stoks = []
        for u, (_, t) in zip(users, c["srcs"]):
            stoks += tokens(t, name=u)
        c["stoks"] = stoks
        mlines.append("rt %d %d %o %d %d %d %d %s %s %d %s %d %d %d %s %s" % (
            c["p"], c["y"], c["um"], cnt, var["rule"], var["dch"], c.get("fsz", 0), hx(CWD), hx(c["dest"]),
            int(c["reverse"]), hx(c["host"]), var["ssec"], var["sfix"], len(ents),
            " ".join(e.token() for e in ents), " ".join(stoks)))
    t0 = int(time.time())
    if not nested:
        ctx.log("%d source trees and jails built" % len(cases))
    env = dict(os.environ, ASAN_OPTIONS="detect_leaks=0")
    impl = pcp.par_batch([exe], ops, timeout=1800, env=env)

    def rerun(idx):
        for k in idx:
            shutil.rmtree(jails[k], ignore_errors=True)
            pcp.build_jail(jails[k], ents_l[k])
        return run_batch([exe], [ops[k] for k in idx], timeout=1800, env=env)

    def sigs_of(a):
        f_ = pcp.fields(a[0][0]) if a[0] else {}
        return (f_.get("csig"), f_.get("ssig"))
    nre = pcp.retry_timeouts(impl, lambda a: "998" in sigs_of(a), lambda a: "997" in sigs_of(a), rerun)
    if nre:
        dist["timeouts_retried"] = dist.get("timeouts_retried", 0) + nre
    if not nested:
        ctx.log("real client/server round trips done")
    mans = pcp.par_model(ctx, "pcp", mlines, timeout=1800)
    if not nested:
        ctx.log("model round trips done")
    # specification on the real destination
    snaps, slines = [], []
    for c, j in zip(cases, jails):
        snap = pcp.snapshot(j)
        snaps.append(snap)
        gens = {}
        for _, t in c["srcs"]:
            for _, n in walk(t, []):
                if n.kind == "f":
                    d = pcp.lcg_bytes(*n.gen)
                    gens[d[:64] + b"|%d" % len(d)] = n.gen
        dcanon = pcp.lexnorm(CWD, c["dest"])
        stoks = []
        if asname(c):
            dcanon, newname = asname(c)
            stoks = tokens(c["srcs"][0][1], name=newname)
        else:
            for userdir, t in c["srcs"]:
                stoks += tokens(t, name=dest_name(c, userdir, t))
        ft = snapshot_tokens(snap, gens)
        slines.append("spec11 %d %s %d %s %s" % (c["p"], hx(dcanon), len(ft), " ".join(ft), " ".join(stoks)))
    if not nested:
        ctx.log("snapshots taken")
    sans = pcp.par_model(ctx, "pcp", slines, timeout=1800)
    if not nested:
        ctx.log("specification evaluated")
    errcases, deepcases = [], []
    for i, c in enumerate(cases):
        cov["evaluations"] += 1
        ans, crash = impl[i]
        cj = case_json(c)
        f = pcp.fields(ans[0]) if ans else {}
        if f.get("csig") == "997":
            dist["skipped_after_timeouts"] = dist.get("skipped_after_timeouts", 0) + 1
            cov["evaluations"] -= 1
            continue
        if crash is not None or "crc" not in f:
            ctx.disagreement("pcp harness", "harness failed: %s %s" % (str(ans)[:200], str(crash)[-300:]), cj)
            continue
        nd = sum(1 for _, t in c["srcs"] for _, n in walk(t, []) if n.kind == "d")
        big = any(n.kind == "f" and n.gen[1] >= 8192 for _, t in c["srcs"] for _, n in walk(t, []))
        if nd >= 1 and big:
            distinct.add(mlines[i])
        dist["with_dir_and_big_file"] = len(distinct)
        replies = pcp.canon_replies(pcp.unhx(f["s2c"]))
        cj["replies_real"] = replies[:30]
        errtxt = pcp.unhx(f["err"]).decode("latin-1")
        if f["san"] != "0" or f["csig"] != "0" or f["ssig"] != "0" or f["src"] != "0":
            sig = "timeout" if "998" in (f["csig"], f["ssig"]) else "crash"
            ctx.offender(sig, "client/server %s (client rc=%s sig=%s, server rc=%s sig=%s, sanitizer=%s): %s" %
                         (sig, f["crc"], f["csig"], f["src"], f["ssig"], f["san"], errtxt[:300]), cj)
            continue
        # ---- specification oracle on the destination
        sp = sans[i]
        bads = []
        if sp.startswith("bad "):
            for b in sp[4:].split(","):
                ph, kind = b.split(":")
                bads.append((pcp.unhx(ph), kind))
        elif sp != "ok":
            ctx.disagreement("spec11", "unexpected answer " + sp[:300], cj)
        if c.get("overwrite"):
            dist["overwrite_cases"] += 1
        if c.get("refused"):
            # several entries for a destination that is not an existing directory: pdcp runs the receiver with -y, which
            # must refuse the copy -- reported, nothing created, the file that is there untouched
            dist["refused_dest_cases"] = dist.get("refused_dest_cases", 0) + 1
            bads = []
            ch = pcp.changed_paths({e.path: e for e in ents_l[i]}, snaps[i], t0)
            if "E:notdir" not in replies or ch:
                ctx.offender("refused:destination-not-a-directory", "several entries copied to a destination that is not "
                             "an existing directory: expected one `not a directory` error record and no change; replies "
                             "%s, changed %r" % (replies[:6], ch[:4]), cj)
        cp = c.get("conflict_path")
        if cp:
            dist["conflict_cases"] += 1
            bads = [(p, k) for p, k in bads if not (p == cp or p.startswith(cp + b"/"))]
            if not any(r.startswith("E:") for r in replies):
                ctx.offender("isolation:unreported", "an entry that could not be written was not reported", cj)
            for cp2, kind2 in c.get("more_paths") or []:
                bads = [(p, k) for p, k in bads if not (p == cp2 or p.startswith(cp2 + b"/"))]
                rw2 = snaps[i].get(cp2)
                if kind2 == "d" and not (rw2 and rw2["kind"] == "f" and rw2["data"] == b"in the way"):
                    ctx.offender("isolation:entry-in-the-way-damaged", "the regular file in the way of the directory %r was "
                                 "replaced or overwritten (now %s)" % (cp2, rw2 and (rw2["kind"], (rw2["data"] or b"")[:30])), cj)
                kept = snaps[i].get(cp2 + b"/kept")
                if kind2 == "f" and not (rw2 and rw2["kind"] == "d" and kept and kept["kind"] == "f" and kept["data"] == b"kept"):
                    ctx.offender("isolation:entry-in-the-way-damaged", "the directory in the way of the file %r, or the file "
                                 "in it, is gone or changed" % cp2, cj)
        expected = {}
        dc = pcp.lexnorm(CWD, c["dest"])
        for _, t in c["srcs"]:
            for path, n in walk(t, []):
                comps = path.split(b"/")
                comps[0] = asname(c)[1] if asname(c) else dest_name(c, b"", t)
                expected[(asname(c)[0] if asname(c) else dc) + b"/" + b"/".join(comps)] = n
        # the specification compares modification times to the microsecond; name the sub-second class
        bads = [(pa, "mtime-subsecond" if k == "mtime" and pa in expected and expected[pa].nsec and snaps[i].get(pa) and
                 (snaps[i][pa]["sec"], snaps[i][pa]["nsec"]) == (expected[pa].mtime, 0) else k) for pa, k in bads]
        if c.get("fsz"):
            dist["write_fault_cases"] = dist.get("write_fault_cases", 0) + 1
            toobig = set(pa for pa, n in expected.items() if n.kind == "f" and n.gen[1] > c["fsz"])
            bads = [(pa, k) for pa, k in bads if pa not in toobig]
            if toobig and not any(r.startswith("E:") for r in replies):
                ctx.offender("isolation:unreported", "a file that could not be written (larger than the receiver's "
                             "file size limit) was not reported", cj)
        if bads and os.environ.get("VERIF_C11_DEBUG"):
            ctx.log("DEBUG spec line:", slines[i][:3000], "answer", sp[:300])
        if bads:
            dist["spec_failures"] += 1
            cj["discrepancies"] = [(p.decode("latin-1"), k) for p, k in bads[:12]]
            groups = {}
            for b in bads:
                groups.setdefault(signature(c, b, snaps[i], expected), []).append(b)
            for sig, bl in groups.items():
                dist["signatures"][sig] = dist["signatures"].get(sig, 0) + 1
                cjs = cj
                if not nested and not c.get("longpath") and sig not in getattr(ctx, "shrunk_sigs", set()) \
                        and len(getattr(ctx, "shrunk_sigs", set())) < 2 \
                        and not any(fd["property"] == ctx.prop and fd.get("status") == "open" and
                                    re.fullmatch(fd["signature"], sig) for fd in ctx.findings.get("findings", [])):
                    ctx.shrunk_sigs = getattr(ctx, "shrunk_sigs", set()) | {sig}
                    small = shrink_case(ctx, exe, c, sig, cnt, var)
                    cjs = dict(case_json(small), discrepancies_in_original=cj.get("discrepancies"),
                               shrunk_from_entries=c.get("nent"))
                ctx.offender(sig, "destination differs from the source: " +
                             ", ".join("%s:%s" % (p.decode("latin-1"), k) for p, k in bl[:6]), cjs)
        # ---- correspondence
        m = pcp.parse_model(mans[i])
        if int(m["nent"]) != c["nent"]:
            ctx.disagreement("pcp expand", "flattened list has %s entries in the model, %d expected" % (m["nent"], c["nent"]), cj)
        if (c.get("conflict") or c.get("overwrite")) and not c.get("fsz") and not c.get("refused") and not asname(c) \
                and var.get("skipref", 0) and not nested and not c.get("longpath"):
            deepcases.append((i, c, cj, f, replies, m))
        if all(r == "A" for r in replies) or (c.get("fsz") and not cp):
            dist["all_acks"] += 1
            # the receiver may end before the sender is done (top-level `E`): the real client then stops at the
            # first missing reply, the sender model (defined for all-positive replies) does not
            cut_short = (m["c2s"] != "~" and f["c2s"] != "~" and m["c2s"].startswith(f["c2s"].rstrip("-")) and
                         m["replies"] == replies and int(f["c2slen"]) < int(m["c2slen"]))
            if not cut_short and ((m["c2slen"], m["c2scrc"]) != (f["c2slen"], f["c2scrc"]) or (m["c2s"] != f["c2s"])):
                ctx.disagreement("pcp send", "client stream differs: impl len=%s crc=%s, model len=%s crc=%s; impl %s model %s" %
                                 (f["c2slen"], f["c2scrc"], m["c2slen"], m["c2scrc"], f["c2s"][:300], m["c2s"][:300]), cj)
                dist["model_mismatch"] += 1
                continue
            if m["replies"] != replies:
                ctx.disagreement("pcp sink replies (round trip)", "impl %s model %s" % (replies[:12], m["replies"][:12]), cj)
                dist["model_mismatch"] += 1
                continue
            diffs = pcp.compare_fs(m["fs"], snaps[i], t0)
            if diffs:
                dist["model_mismatch"] += 1
                ctx.disagreement("pcp round trip file system", "; ".join(diffs[:4]), cj)
        else:
            dist["with_error_replies"] += 1
            if c.get("longpath"):
                # (paths of 2-3 KiB: the session / deep models take minutes on them; these cases have the specification
                # oracle, the round-trip correspondence above and the count of error records)
                dist["long_error_line_cases"] = dist.get("long_error_line_cases", 0) + 1
                nerr = sum(1 for r in replies if r.startswith("E:"))
                if nerr != 1 + len(c.get("more_conflicts") or []):
                    ctx.offender("isolation:error-records", "%d entries cannot be written, the receiver sent %d error records "
                                 "(%s)" % (1 + len(c.get("more_conflicts") or []), nerr, replies[:12]), cj)
            elif f["c2s"] != "~":
                errcases.append((i, c, cj, f, replies, m))
        if len(cov["samples"]) < 3 and c["nent"] <= 6:
            cov["samples"].append(dict(case=cj, spec=sp[:200]))
    # ---- the interactive paths: what the REAL client sent after error replies goes through the receiver model, and
    # for a plain file whose name is taken by a directory the client must have skipped exactly the data and the NUL
    if (errcases or deepcases) and not nested:
        lines = []
        for i, c, cj, f, replies, m in errcases:
            lines.append("sink %d %d %o %d %d %d %d %s %s %s %s" % (
                c["p"], c["y"], c["um"], cnt, var["rule"], var["dch"], c.get("fsz", 0), hx(CWD), hx(c["dest"]), f["c2s"],
                " ".join(e.token() for e in ents_l[i])))
        # the interactive sender model (Pcp/Session.lean) against the receiver model: bytes sent, replies, file system
        slines = ["sess %d %d %o %d %d %d %d %s %s %d %s %d %d %d %d %s %s" % (
            c["p"], c["y"], c["um"], cnt, var["rule"], var["dch"], c.get("fsz", 0), hx(CWD), hx(c["dest"]),
            int(c["reverse"]), hx(c["host"]), var["ssec"], var["sfix"], var.get("skipref", 0), len(ents_l[i]),
            " ".join(e.token() for e in ents_l[i]), " ".join(c["stoks"])) for i, c, cj, f, replies, m in errcases]
        for (i, c, cj, f, replies, m), sl in zip(errcases, pcp.par_model(ctx, "pcp", slines)):
            ms = pcp.parse_model(sl)
            dist["sessions_checked"] = dist.get("sessions_checked", 0) + 1
            if ms["c2s"] != f["c2s"]:
                # once the receiver has ended (`E` at the top level) what the client still writes is lost
                if ms["early"] == "1" and ms["c2s"] != "~" and (ms["c2s"].startswith(f["c2s"].rstrip("-")) or
                                                               f["c2s"].startswith(ms["c2s"].rstrip("-"))):
                    dist["sessions_receiver_ended_early"] = dist.get("sessions_receiver_ended_early", 0) + 1
                else:
                    ctx.disagreement("pcp session: bytes sent after error replies", "real %s (%s) model %s (%s)" % (
                        f["c2s"][:300], f["c2slen"], ms["c2s"][:300], ms["c2slen"]), cj)
                    continue
            if ms["replies"] != replies:
                ctx.disagreement("pcp session replies", "impl %s model %s" % (replies[:12], ms["replies"][:12]), cj)
                continue
            diffs = pcp.compare_fs(ms["fs"], snaps[i], t0)
            if diffs:
                ctx.disagreement("pcp session file system", "; ".join(diffs[:4]), cj)
        # Pcp/Deep.lean (`error_isolated_deep`): the sources classified against the jail, the file system the theorem
        # says the receiver ends with and the number of error records it says are sent -- against the real run
        deep = deepcases
        dlines = ["deep %d %d %o %d %d %d %d %s %s %d %s %d %d %d %s %s" % (
            c["p"], c["y"], c["um"], cnt, var["rule"], var["dch"], c.get("fsz", 0), hx(CWD), hx(c["dest"]),
            int(c["reverse"]), hx(c["host"]), var["ssec"], var["sfix"], len(ents_l[i]),
            " ".join(e.token() for e in ents_l[i]), " ".join(c["stoks"])) for i, c, cj, f, replies, m in deep]
        for (i, c, cj, f, replies, m), dl in zip(deep, pcp.par_model(ctx, "pcp", dlines)):
            if not dl.startswith("replies="):
                ctx.disagreement("pcp deep", "unexpected answer " + dl[:200], cj)
                continue
            md = pcp.parse_model(dl)
            dist["deep_conflict_cases"] = dist.get("deep_conflict_cases", 0) + 1
            nerr = sum(1 for r in replies if r.startswith("E:"))
            key = "%s entries that cannot be written" % md["bad"]
            dist.setdefault("deep_by_count", {})[key] = dist.setdefault("deep_by_count", {}).get(key, 0) + 1
            if int(md["bad"]) != nerr:
                ctx.disagreement("pcp deep: error records", "Pcp/Deep.lean counts %s entries that cannot be written, the real "
                                 "receiver sent %d error records (%s)" % (md["bad"], nerr, replies[:12]), cj)
                continue
            diffs = pcp.compare_fs(md["fs"], snaps[i], t0)
            if diffs:
                ctx.disagreement("pcp deep: file system", "; ".join(diffs[:4]), cj)
        for (i, c, cj, f, replies, m), ml in zip(errcases, pcp.par_model(ctx, "pcp", lines)):
            dist["error_paths_checked"] = dist.get("error_paths_checked", 0) + 1
            mm = pcp.parse_model(ml)
            if mm["replies"] != replies:
                ctx.disagreement("pcp sink replies (real client stream with error replies)",
                                 "impl %s model %s" % (replies[:12], mm["replies"][:12]), cj)
                continue
            diffs = pcp.compare_fs(mm["fs"], snaps[i], t0)
            if diffs:
                ctx.disagreement("pcp file system (real client stream with error replies)", "; ".join(diffs[:4]), cj)
            if c.get("conflict") and c["conflict"][1] == "f" and m["c2s"] != "~" and not c.get("more_conflicts"):
                # sender model of Pcp/Isolated.lean (itemsBytes): the all-positive stream without that file's data + NUL
                full = pcp.unhx(m["c2s"])
                node = dict((pa, n) for _, t in c["srcs"] for pa, n in walk(t, []))[c["conflict"][0]]
                top = next(t for _, t in c["srcs"] if t.name == c["conflict"][0].split(b"/")[0])
                sent = node.name if b"/" in c["conflict"][0] else dest_name(c, b"", top)
                # the file's own control record (a directory of the same name has a `D` record with size 0)
                mrec = re.search(rb"C[0-7]{4} %d " % node.gen[1] + re.escape(sent) + rb"\n", full)
                k = mrec.end() if mrec else -1
                if k >= 0:
                    want = full[:k] + full[k + node.gen[1] + 1:]
                    if pcp.unhx(f["c2s"]) != want:
                        ctx.disagreement("pcp sender after an error reply", "the client did not skip exactly the data "
                                         "and the NUL of the refused file: real %s expected %s" %
                                         (f["c2s"][:200], want.hex()[:200]), cj)
                    else:
                        dist["skip_after_error_confirmed"] = dist.get("skip_after_error_confirmed", 0) + 1
    for d in (sbase, jbase):
        pcp.rm_bg(d)


class Probe:
    """stands in for the check context while a case is shrunk: records offender signatures, reports nothing"""

    def __init__(self, ctx):
        self.ctx, self.sigs, self.scratch, self.rng, self.replay = ctx, set(), ctx.scratch, ctx.rng, None

    def offender(self, sig, what, case):
        self.sigs.add(sig)
        return "new"

    def disagreement(self, *a, **k):
        pass

    def log(self, *a):
        pass

    def model(self, *a, **k):
        return self.ctx.model(*a, **k)

    def quick(self):
        return True


def clone(node):
    n = Node(node.name, node.kind, node.mode, node.mtime, node.nsec, node.gen, None)
    n.link = node.link
    if node.kind == "d":
        n.kids = [clone(k) for k in node.kids]
    return n


def add_links(rng, c):
    """-r sources with symbolic links: pcp_client.c uses stat(2), so a link to a file is copied as that file and a link to
    a directory as that directory (contents and all), under the link's name.  The link node is a copy of its target."""
    dirs = [n for _, t in c["srcs"] for _, n in walk(t, []) if n.kind == "d" and n.kids and not n.link]
    n_links = 0
    # all links of a case go into ONE directory and point to its entries (a link added inside a target later would
    # also show through the link)
    for d in rng.sample(dirs, min(len(dirs), 1)) * rng.choice([1, 1, 2]):
        cand = [k for k in d.kids if not k.link and not has_links(k)]
        if not cand:
            continue
        target = rng.choice(cand)
        ln = clone(target)
        ln.name = rng.choice([b"ln", b"link to", b"l.nk", b"zz"]) + b"%d" % n_links
        if any(k.name == ln.name for k in d.kids):
            continue
        ln.link = target.name
        d.kids.append(ln)
        n_links += 1
    c["links"] = n_links
    c["conflict"] = c["overwrite"] = None
    return c


def has_links(node):
    return bool(node.link) or any(has_links(k) for k in node.kids or [])


def shrink_case(ctx, exe, c, sig, cnt, var):
    """greedy removal of sources and sub-trees while the specification oracle keeps failing with `sig` (capped)"""
    budget = [30]

    def fails(c2):
        if budget[0] <= 0:
            return False
        budget[0] -= 1
        pr = Probe(ctx)
        c2 = dict(c2, k=9000 + budget[0])
        try:
            run_cases(pr, exe, [c2], cnt, var, {"evaluations": 0, "samples": [0, 0, 0]},
                      {"all_acks": 0, "with_error_replies": 0, "conflict_cases": 0, "overwrite_cases": 0, "spec_failures": 0,
                       "model_mismatch": 0, "with_dir_and_big_file": 0, "signatures": {}}, set(), nested=True)
        except Exception:
            return False
        return sig in pr.sigs

    def protected(path):
        keep = [x for x in ((c.get("conflict") or [None])[0], c.get("overwrite")) if x]
        return any(k == path or k.startswith(path + b"/") for k in keep)

    cur = dict(c, srcs=[(u, clone(t)) for u, t in c["srcs"]])
    changed = True
    while changed and budget[0] > 0:
        changed = False
        if len(cur["srcs"]) > 1:
            for i in range(len(cur["srcs"])):
                if protected(cur["srcs"][i][1].name):
                    continue
                cand = dict(cur, srcs=cur["srcs"][:i] + cur["srcs"][i + 1:])
                if fails(cand):
                    cur, changed = cand, True
                    break
            if changed:
                continue
        for si, (u, t) in enumerate(cur["srcs"]):
            for path, n in list(walk(t, [])):
                if n.kind != "d" or not n.kids:
                    continue
                for ki in range(len(n.kids)):
                    if protected(path + b"/" + n.kids[ki].name):
                        continue
                    t2 = clone(t)
                    n2 = dict(walk(t2, []))[path]
                    del n2.kids[ki]
                    cand = dict(cur, srcs=cur["srcs"][:si] + [(u, t2)] + cur["srcs"][si + 1:])
                    if fails(cand):
                        cur, changed = cand, True
                        break
                if changed:
                    break
            if changed:
                break
    return cur


def signature(c, bad, snap, expected):
    """narrow class of one discrepancy (matched against findings/C11.json)"""
    path, kind = bad
    if any(u == b"a!b@c#d$" for u in c.get("users", [])):
        return "fidelity:source-named-like-the-sentinel"
    if c.get("conflict") and c["conflict"][1] == "d":
        return "isolation:failed-directory-scatters-children"
    if kind == "mtime-subsecond":
        return "fidelity:mtime-subsecond-dropped"
    r, n = snap.get(path), expected.get(path)
    if kind == "mode" and c["p"] and r and n and r["kind"] == "d" and n.kind == "d" and \
            ((r["mode"] ^ n.mode) & ~0o6000) == 0:
        return "fidelity:mode:new-directory-setid-bits"
    return "fidelity:" + kind


def describe(node):
    lk = {"link": node.link.decode("latin-1")} if node.link else {}
    if node.kind == "f":
        return dict({"name": node.name.decode("latin-1"), "mode": "%o" % node.mode, "mtime": node.mtime, "nsec": node.nsec,
                     "size": node.gen[1], "seed": node.gen[0]}, **lk)
    return dict({"name": node.name.decode("latin-1"), "mode": "%o" % node.mode, "mtime": node.mtime,
                 "kids": [describe(k) for k in node.kids]}, **lk)


def case_json(c):
    return dict(sources=[dict(userdir=u.decode("latin-1"), tree=describe(t)) for u, t in c["srcs"]], preserve=c["p"],
                reverse=c["reverse"], host=c["host"].decode(), umask="%o" % c["um"], dest=c["dest"].decode("latin-1"),
                file_size_limit=c.get("fsz", 0), destmode="%o" % c["destmode"], conflict=(c["conflict"][0].decode("latin-1"), c["conflict"][1]) if c["conflict"] else None,
                overwrite=c["overwrite"].decode("latin-1") if c.get("overwrite") else None,
                old_extra=c.get("old_extra", 50), refused=bool(c.get("refused")),
                more_conflicts=[(a.decode("latin-1"), b) for a, b in c.get("more_conflicts") or []],
                asname=[x.decode("latin-1") for x in c["asname"]] if c.get("asname") else None, longpath=bool(c.get("longpath")))


def from_json(j, k):
    def mk(d):
        if "kids" in d:
            n = Node(d["name"].encode("latin-1"), "d", int(d["mode"], 8), d["mtime"], kids=[mk(x) for x in d["kids"]])
        else:
            n = Node(d["name"].encode("latin-1"), "f", int(d["mode"], 8), d["mtime"], nsec=d.get("nsec", 0), gen=(d["seed"], d["size"]))
        n.link = d["link"].encode("latin-1") if d.get("link") else None
        return n
    return dict(k=k, srcs=[(s["userdir"].encode("latin-1"), mk(s["tree"])) for s in j["sources"]], p=j["preserve"],
                reverse=j["reverse"], host=j["host"].encode(), um=int(j["umask"], 8), dest=j["dest"].encode("latin-1"),
                conflict=(j["conflict"][0].encode("latin-1"), j["conflict"][1]) if j.get("conflict") else None,
                overwrite=j["overwrite"].encode("latin-1") if j.get("overwrite") else None, fsz=j.get("file_size_limit", 0),
                destmode=int(j["destmode"], 8), subsec=any(n.nsec for s in j["sources"] for _, n in walk(mk(s["tree"]), [])),
                old_extra=j.get("old_extra", 50), refused=j.get("refused", False),
                more_conflicts=[(a.encode("latin-1"), b) for a, b in j.get("more_conflicts") or []],
                asname=tuple(x.encode("latin-1") for x in j["asname"]) if j.get("asname") else None,
                longpath=bool(j.get("longpath")))


def corpus(k0):
    def f(name, size, mode=0o644, mt=1234567890):
        return Node(name, "f", mode, mt, gen=(size + 7, size))
    base = dict(p=1, reverse=False, host=b"host7", um=0o22, dest=b"dest", conflict=None, overwrite=None, destmode=0o755,
                subsec=False, fsz=0)
    cs = []
    for size in (0, 1, 8191, 8192, 8193, 3 * 8192 - 1, 3 * 8192, 3 * 8192 + 1):
        cs.append(dict(base, srcs=[(b"", f(b"f%d" % size, size))]))
        cs.append(dict(base, p=0, srcs=[(b"", Node(b"d", "d", 0o755, 1234567000, kids=[f(b"x y", size), f(b"z", 3)]))]))
    cs.append(dict(base, reverse=True, srcs=[(b"in", f(b"t", 10240)), (b"", Node(b"tree", "d", 0o750, 1300000000, kids=[f(b"q", 5)]))]))
    cs.append(dict(base, srcs=[(b"", Node(b"e", "d", 0o700, 1300000001, kids=[]))]))
    # a file too large for the receiver's file size limit in the middle, intact files around it
    cs.append(dict(base, fsz=16384, srcs=[(b"", Node(b"d", "d", 0o755, 1234567000, kids=[
        f(b"a", 100), f(b"big", 70000), f(b"z", 8192)]))]))
    cs.append(dict(base, p=0, overwrite=b"d/x", srcs=[(b"", Node(b"d", "d", 0o755, 1234567000, kids=[f(b"x", 10), f(b"z", 3)]))]))
    # a source the user names exactly like the leave-directory sentinel is sent as `E`
    cs.append(dict(base, srcs=[(b"", f(b"a!b@c#d$", 5)), (b"", f(b"after", 9))]))
    cs += classes()
    for i, c in enumerate(cs):
        c["k"] = k0 + i
    return cs


def classes():
    """The classes EVERY quick run covers whatever the seed (G1): sizes at and around the transfer block, twice the
    block, a size with a long decimal text; names with blanks, leading dashes, `%` directives, 255 bytes, control bytes,
    names that look like protocol records or like the leave-directory sentinel (as directory entries and as sources the
    user names); every interesting mode of files and directories; modification times 0, sub-second, at and beyond 2^31
    and 2^32; all of it with and without -p; directories empty, deep, wide; a file where a directory is expected on the
    target and the reverse, at the top and inside a tree; existing longer files replaced (barely longer, one block longer,
    much longer; new size 0 / a block multiple / neither); several sources through sub-paths; reverse copies from hosts
    whose names contain dots; the destination given as directory, directory with slash, absolute, through `..`, as a
    new file name, as an existing file, and -- with several entries -- missing or a regular file (must be refused);
    umask 0 / 027 / 077 without -p; write faults."""
    B = pcp.BUFSIZ

    def f(name, size, mode=0o644, mt=1234567890, nsec=0):
        return Node(name, "f", mode, mt, nsec=nsec, gen=(size + 11 + len(name), size))

    def d(name, kids, mode=0o755, mt=1234567000, nsec=0):
        return Node(name, "d", mode, mt, nsec=nsec, kids=kids)
    base = dict(p=1, reverse=False, host=b"host7", um=0o22, dest=b"dest", conflict=None, overwrite=None, destmode=0o755,
                subsec=False, fsz=0)
    cs = []
    # ---- sizes
    for p in (0, 1):
        cs.append(dict(base, p=p, srcs=[(b"", d(b"sizes", [f(b"s%d" % n, n) for n in (0, 1, B - 1, B, B + 1, 2 * B - 1, 2 * B,
                                                                                 2 * B + 1)]))]))
    cs.append(dict(base, p=0, srcs=[(b"", f(b"long-size", 1048577))]))
    # ---- names
    names = [b"with blank", b" leading blank", b"trailing blank ", b"-leading-dash", b"--", b"-", b"100%", b"%s%n%d%p%S%m",
             b"%", b"N" * 255, b"E", b"T1 0 1 0", b"C0644 0 x", b"D0755 0 x", b"a!b@c#d$", b"\x01soh", b"\x02stx",
             b"tab\there", b"back\\slash", b"cr\rname", b"\xff\xfe", b"...", b"..x", b"~", b"*"]
    for p in (0, 1):
        cs.append(dict(base, p=p, srcs=[(b"", d(b"names", [f(n, 3 + i) for i, n in enumerate(names)] +
                                                [d(b"dir " + n[:40], [f(n, 1)]) for n in names[:12]]))]))
    cs.append(dict(base, p=0, srcs=[(b"", d(n, [f(b"in", 2)])) for n in (b"-d", b"100% dir", b"E")]))
    for i, n in enumerate((b"-leading-dash", b"E", b"T1 0 1 0", b"%s%n", b"N" * 255, b"with blank")):
        cs.append(dict(base, p=i % 2, srcs=[(b"", f(n, 5 + i))]))
    cs.append(dict(base, srcs=[(b"", d(b"a!b@c#d$", [f(b"inside", 4), d(b"a!b@c#d$", [f(b"a!b@c#d$", 2)])])), (b"", f(b"after", 9))]))
    # ---- modes
    fm = [0, 0o400, 0o777, 0o4755, 0o2755, 0o1777, 0o7777, 0o644, 0o200, 0o111, 0o4000, 0o2000, 0o1000]
    dm = [0, 0o500, 0o777, 0o1777, 0o2775, 0o4755, 0o7777, 0o700, 0o3000]
    for p in (0, 1):
        for um in (0o27, 0):
            cs.append(dict(base, p=p, um=um, srcs=[(b"", d(b"modes", [f(b"f%o" % m, 4, mode=m) for m in fm] +
                                                            [d(b"d%o" % m, [f(b"k", 1), d(b"kd", [])], mode=m) for m in dm]))]))
    for i, m in enumerate((0, 0o4755, 0o1777)):
        cs.append(dict(base, p=1, srcs=[(b"", f(b"top%o" % m, 3, mode=m)), (b"", d(b"topd%o" % m, [f(b"k", 1)], mode=m))]))
    # ---- modification times
    mts = [(0, 0), (1, 0), (1234567890, 123456000), (1234567890, 999999000), (1234567890, 1000), (1234567890, 999),
           (2147483647, 0), (2147483648, 0), (4102444800, 0), (4294967296, 500000000), (4294967295, 999999999)]
    for p in (0, 1):
        cs.append(dict(base, p=p, subsec=True, srcs=[(b"", d(b"times", [f(b"t%d" % i, 2, mt=sec, nsec=ns) for i, (sec, ns) in enumerate(mts)] +
                                                            [d(b"dt%d" % i, [f(b"k", 1)] if i % 2 else [], mt=sec, nsec=ns)
                                                             for i, (sec, ns) in enumerate(mts)], mt=0))]))
    cs.append(dict(base, subsec=True, srcs=[(b"", f(b"t-top", 1, mt=0)), (b"", f(b"t-sub", 1, nsec=500000000)),
                                          (b"", d(b"d-top", [f(b"k", 1)], mt=1, nsec=1000))]))
    # ---- directories: empty, deep (no fixed-size stack anywhere may hold this), wide
    cs.append(dict(base, srcs=[(b"", d(b"e1", [], mode=0o700)), (b"", d(b"e2", [d(b"e3", [d(b"e4", [])])]))]))
    deep = f(b"leaf", 10)
    for i in range(40):
        deep = d(b"l%d" % (i % 3), [deep, f(b"side", i)] if i % 7 == 0 else [deep], mt=1234560000 + i)
    cs.append(dict(base, srcs=[(b"", deep)]))
    cs.append(dict(base, p=0, srcs=[(b"", d(b"wide", [f(b"w%03d" % i, i % 5) for i in range(300)]))]))
    # ---- something of the wrong kind is in the way
    def tree():
        return d(b"tree", [f(b"a", 3), d(b"sub", [f(b"x", 4), d(b"deeper", [f(b"y", 1)])]), f(b"z", 5)])
    for path, kind in ((b"tree", "d"), (b"tree/sub", "d"), (b"tree/a", "f"), (b"tree/sub/x", "f"), (b"tree/z", "f")):
        for p in (0, 1):
            cs.append(dict(base, p=p, conflict=(path, kind), srcs=[(b"", tree()), (b"", f(b"other file", 7))]))
    # several entries of the wrong kind in one run, at depth 2, 3 and 4, next to entries that arrive (Pcp/Deep.lean)
    def tree2():
        return d(b"tree", [f(b"a", 3), d(b"sub", [f(b"x", 4), d(b"deeper", [f(b"y", 1), d(b"deepest", [f(b"w", 2)])]), f(b"x2", B + 1)]),
                           d(b"sub2", [f(b"k", 6)]), f(b"z", 5)])
    for p in (0, 1):
        cs.append(dict(base, p=p, conflict=(b"tree/a", "f"), more_conflicts=[(b"tree/sub2", "d"), (b"tree/sub/x", "f")],
                       srcs=[(b"", tree2()), (b"", f(b"other file", 7))]))
        cs.append(dict(base, p=p, conflict=(b"tree/sub/deeper/y", "f"), more_conflicts=[(b"tree/sub/deeper/deepest", "d")],
                       srcs=[(b"", tree2())]))
        cs.append(dict(base, p=p, conflict=(b"tree/sub/deeper", "d"), more_conflicts=[(b"tree/z", "f"), (b"other", "d")],
                       srcs=[(b"", tree2()), (b"", d(b"other", [f(b"o1", 1)])), (b"", f(b"last", 2))]))
    # error records LONGER than a line buffer (seeded change C11-13: pcp_response() reads the error text into a buffer of
    # LINEBUFSIZE 2048 instead of BUFSIZ; the receiver builds the text from the full target path): entries refused at the
    # bottom of a tree whose path on the target is about 2250 / 3450 bytes (every component <= NAME_MAX, the whole path <
    # PATH_MAX), ONE refusal followed by files, and TWO refusals in a row followed by files and a directory -- every
    # entry that is not refused must arrive intact and the client must have skipped exactly the refused data
    def longtree(levels, kids):
        t = d(b"bottom", kids)
        for i in range(levels):
            t = d(bytes([97 + i % 26]) * 200, [t], mt=1234560000 + i)
        t.name = b"long%d" % levels
        return t

    def longpath(levels, leaf):
        return b"/".join([b"long%d" % levels] + [bytes([97 + i % 26]) * 200 for i in range(levels - 2, -1, -1)] + [b"bottom", leaf])
    for levels in (11, 17):
        for p in (0, 1):
            cs.append(dict(base, p=p, longpath=True, conflict=(longpath(levels, b"r1"), "f"),
                           srcs=[(b"", longtree(levels, [f(b"r1", 40), f(b"ok1", B + 1), f(b"ok2", 3)])), (b"", f(b"last", 9))]))
            cs.append(dict(base, p=p, longpath=True, conflict=(longpath(levels, b"r1"), "f"),
                           more_conflicts=[(longpath(levels, b"r2"), "f")],
                           srcs=[(b"", longtree(levels, [f(b"r1", 40), f(b"r2", B + 2), f(b"ok1", B + 1), f(b"ok2", 3),
                                                         d(b"after", [f(b"k", 5)])])), (b"", f(b"last", 9))]))
    cs.append(dict(base, conflict=(b"single", "f"), srcs=[(b"", f(b"single", 9)), (b"", f(b"next", B + 3))]))
    cs.append(dict(base, reverse=True, host=b"n1.dom.ain", conflict=(b"single", "f"), srcs=[(b"", f(b"single", 9)), (b"", f(b"next", 3))]))
    # ---- an existing longer file is replaced, not patched
    for n in (0, 10, B, B + 10, 2 * B):
        for extra in (1, 50, B, 3 * B):
            cs.append(dict(base, p=(n + extra) % 2, overwrite=b"d/x", old_extra=extra,
                           srcs=[(b"", d(b"d", [f(b"x", n), f(b"z", 3)]))]))
    cs.append(dict(base, overwrite=b"top", old_extra=B, srcs=[(b"", f(b"top", B))]))
    # ---- several sources through sub-paths
    cs.append(dict(base, srcs=[(b"in", f(b"one", 1)), (b"deep/er", d(b"two", [f(b"k", 2)])), (b"", f(b"three", 3)),
                               (b"in", d(b"four", []))]))
    # ---- reverse copies: SRC.host with dots in the host name
    for i, host in enumerate((b"n1.dom.ain", b"h", b"a.b.c.d.example.org", b"host-7", b"10.0.0.1")):
        cs.append(dict(base, p=i % 2, reverse=True, host=host, srcs=[
            (b"in", f(b"t.txt", B + 1)), (b"", d(b"tree.d", [f(b"q", 5), d(b"e", [])], mode=0o750)), (b"", f(b"noext", 0))]))
    # ---- the destination
    for dest in (b"dest/", b"./dest", b"/o/w/dest", b"../w/dest", b"dest/.", b"dest//"):
        cs.append(dict(base, dest=dest, srcs=[(b"", tree())]))
        cs.append(dict(base, p=0, dest=dest, srcs=[(b"", f(b"single", 3))]))
    for p in (0, 1):
        cs.append(dict(base, p=p, dest=b"dest/new name", srcs=[(b"", f(b"single", B, mode=0o640))]))
        cs.append(dict(base, p=p, dest=b"other", asname=(b"o/w", b"other"), srcs=[(b"", f(b"single", 3, mode=0o640))]))
        cs.append(dict(base, p=p, dest=b"missing", refused=True, srcs=[(b"", tree())]))
        cs.append(dict(base, p=p, dest=b"other", refused=True, srcs=[(b"", f(b"a", 1)), (b"", f(b"b", 2))]))
        cs.append(dict(base, p=p, dest=b"dest/nope/deeper", refused=True, srcs=[(b"", f(b"a", 1)), (b"", f(b"b", 2))]))
    # ---- umask without -p
    for um in (0, 0o77, 0o27, 0o777):
        cs.append(dict(base, p=0, um=um, srcs=[(b"", d(b"um", [f(b"f", 1, mode=0o666), f(b"x", 1, mode=0o7777), d(b"dd", [], mode=0o777)],
                                                         mode=0o777))]))
    # ---- write faults
    for fsz in (B, 2 * B, 100):
        cs.append(dict(base, p=fsz % 3 % 2, fsz=fsz, srcs=[(b"", d(b"wf", [f(b"a", 100), f(b"big", 5 * B + 1), f(b"fits", min(fsz, B)),
                                                                       d(b"sub", [f(b"big2", 3 * B), f(b"ok", 7)]), f(b"z", 50)]))]))
    return cs



# ------------------------------------------------------------------ end to end (supporting)
SAFE_TOP = [b"t1", b"tree", b"file.txt", b"data_2", b"A"]
# one target name with dots: `SRC.host` carries the whole name (diagnostics show the short one, err.c %S)
HOSTS3 = ["h1", "n2.dom.ain", "h3"]


def tame(node):
    """as uid 1000: readable sources, writable directories, no set-id bits, whole seconds"""
    node.nsec = 0
    if node.kind == "d":
        node.mode = (node.mode & 0o777) | 0o700
        for k in node.kids:
            tame(k)
    else:
        node.mode = (node.mode & 0o777) | 0o400


def run_e2e(ctx, cov, dist):
    """the real `pdcp`/`rpdcp` front ends through tests/test-modules/pcptest.so on three targets as uid 1000:
    the remote command line built by dsh() (compared with the model's pdcpCmd/rpdcpCmd through a logging stand-in for
    the remote program), `.host` naming, and the copies themselves (specification oracle per target)"""
    rng = ctx.rng
    repo = ctx.repo_build()
    if not repo:
        return
    q = subprocess.run("make a.la b.la pcptest.la >/dev/null 2>&1", shell=True, cwd=os.path.join(repo, "tests/test-modules"))
    moddir = os.path.join(repo, "tests/test-modules/.libs")
    if q.returncode != 0 or not os.path.exists(os.path.join(moddir, "pcptest.so")):
        ctx.notes.append("e2e skipped: tests/test-modules/pcptest.so does not build")
        dist["e2e"] = "skipped (pcptest.so does not build)"
        return
    os.chmod(ctx.scratch, 0o755)
    bindir = os.path.join(ctx.scratch, "e2ebin")
    os.makedirs(bindir, exist_ok=True)
    for n in ("pdcp", "rpdcp"):
        if not os.path.lexists(os.path.join(bindir, n)):
            os.symlink(os.path.join(repo, "src/pdsh/pdsh"), os.path.join(bindir, n))
    nruns = 12 if ctx.quick() else 60
    future = FUTURE
    dist["e2e_runs"] = 0
    for k in range(nruns):
        w = os.path.join(ctx.scratch, "e2e%d" % k)
        shutil.rmtree(w, ignore_errors=True)
        os.makedirs(w)
        log = os.path.join(w, "argv.log")
        open(log, "w").close()
        os.chmod(log, 0o666)
        wrapper = os.path.join(w, "remote_pdcp")
        with open(wrapper, "w") as f:
            f.write('#!/bin/sh\nprintf "%%s\\n" "$0 $*" >> %s\nexec %s/pdcp "$@"\n' % (log, bindir))
        os.chmod(wrapper, 0o755)
        reverse = k % 2 == 1
        p = rng.choice([0, 1])
        r = 1
        nsrc = rng.choice([1, 2])
        budget = [rng.choice([2, 6, 12])]
        trees = []
        # the first runs pin the corners of the command-line rules: exactly two list entries (-y), one entry (no -y),
        # -p on and off in both directions, no -r for plain files
        plan = [dict(p=1, shape="emptydir"), dict(p=1, shape="any"), dict(p=0, shape="file"), dict(p=0, shape="any"),
                dict(p=1, shape="two"), dict(p=1, shape="file"), dict(p=0, shape="twofiles-destfile"), dict(p=0, shape="unreadable"),
                dict(p=1, shape="newname"), dict(p=1, shape="tree"), dict(p=0, shape="reverse-blocked"),
                dict(p=1, shape="deep-reverse")]
        shape = "any"
        if k < len(plan):
            p, shape = plan[k]["p"], plan[k]["shape"]
        if shape == "emptydir":
            trees = [Node(b"tree", "d", 0o750, 1300000000, kids=[])]
        elif shape == "file":
            trees = [Node(b"file.txt", "f", 0o640, 1300000001, gen=(77, 10240))]
            r = 0
        elif shape == "newname":
            # ONE plain file copied to a file name that does not exist yet: the receiver must NOT be told that the target
            # is a directory (-y only for more than one list entry)
            reverse = False
            trees = [Node(b"file.txt", "f", 0o640, 1300000001, gen=(79, pcp.BUFSIZ + 5))]
            r = 0
        elif shape == "reverse-blocked":
            # rpdcp of two plain files from three hosts; locally the name file.txt.h2 is taken by a directory: "a file that
            # cannot be written is reported for that host without corrupting any other file"
            reverse = True
            trees = [Node(b"file.txt", "f", 0o640, 1300000001, gen=(84, pcp.BUFSIZ + 1)), Node(b"data_2", "f", 0o600, 1300000002, gen=(85, 20))]
            r = 0
        elif shape == "deep-reverse":
            # rpdcp -r of a tree 30 levels deep: the local receivers are per-target threads on 128 KiB stacks
            reverse = True
            deep = Node(b"leaf", "f", 0o644, 1300000099, gen=(86, 10))
            for lvl in range(30):
                deep = Node(b"l%d" % (lvl % 4), "d", 0o755, 1300000010 + lvl, kids=[deep])
            deep.name = b"deep"
            trees = [deep]
        elif shape == "tree":
            # a fixed tree with -r in a REVERSE copy: nested and empty directories, a file of several blocks
            reverse = True
            trees = [Node(b"tree", "d", 0o750, 1300000000, kids=[
                Node(b"a file", "f", 0o640, 1300000001, gen=(81, 3 * pcp.BUFSIZ + 1)),
                Node(b"sub", "d", 0o700, 1300000002, kids=[Node(b"inner", "f", 0o600, 1300000003, gen=(82, 0)),
                                                           Node(b"empty", "d", 0o755, 1300000004, kids=[])]),
                Node(b"z", "f", 0o444, 1300000005, gen=(83, 1))])]
        elif shape == "unreadable":
            # a file the (unprivileged) user cannot read INSIDE a source directory: it may cost that file (or the run may
            # be refused), but pdcp must terminate, say so, and every other file that arrives must be intact
            reverse = False
            trees = [Node(b"tree", "d", 0o755, 1300000000, kids=[
                Node(b"a_first", "f", 0o644, 1300000001, gen=(71, 11)), Node(b"b_unreadable", "f", 0, 1300000002, gen=(72, 37)),
                Node(b"c_last", "f", 0o644, 1300000003, gen=(73, 11)),
                Node(b"d_sub", "d", 0o755, 1300000004, kids=[Node(b"inner", "f", 0o644, 1300000005, gen=(74, 5))])])]
        elif shape == "twofiles-destfile":
            # two plain files, and on ONE target the destination is an existing regular file: that target must be
            # reported and its file left alone, the other targets get both files (seeded change C11-3: -y rule)
            trees = [Node(b"file.txt", "f", 0o640, 1300000001, gen=(77, 300)), Node(b"data_2", "f", 0o600, 1300000002, gen=(78, 20))]
            r = 0
        else:
            if shape == "two":
                nsrc = 2
            for nm in rng.sample(SAFE_TOP, nsrc):
                t = gen_tree(rng, nm, 1, budget, want_dir=(None if rng.random() < 0.5 else True), big_ok=True)
                trees.append(t)
            if all(t.kind == "f" for t in trees) and rng.random() < 0.5:
                r = 0
        for t in trees:
            if shape != "unreadable":
                tame(t)
        bw = os.fsencode(w)
        roots = [bw + b"/" + h.encode() + b"/rsrc" for h in HOSTS3] if reverse else [bw + b"/src"]
        destfile_host = HOSTS3[1] if shape == "twofiles-destfile" else None
        for h in HOSTS3:
            if h == destfile_host:
                os.makedirs(os.path.join(w, h))
                with open(os.path.join(w, h, "dst"), "w") as fh:
                    fh.write("precious data in a plain file called dst\n")
            else:
                os.makedirs(os.path.join(w, h, "dst"))
        os.makedirs(os.path.join(w, "out"))
        blocked_host = HOSTS3[1] if shape == "reverse-blocked" else None
        if blocked_host:
            os.makedirs(os.path.join(w, "out", "file.txt." + blocked_host))
        for root in roots:
            os.makedirs(root, exist_ok=True)
            for t in trees:
                materialize(root, t, future)
            for t in trees:
                set_meta(root, t, future)
        for t in trees:
            reorder(roots[0], t)
        subprocess.run(["chown", "-R", "1000:1000", w])
        env = ["env", "PDSH_MODULE_DIR=" + moddir, "PATH=" + bindir + ":/usr/bin:/bin"]
        flags = (["-r"] if r else []) + (["-p"] if p else [])
        if reverse:
            users = ["rsrc/" + t.name.decode() for t in trees]
            cmd = ["rpdcp", "-R", "pcptest", "-w", ",".join(HOSTS3)] + flags + ["-e", wrapper] + users + ["out"]
        else:
            users = ["src/" + t.name.decode() for t in trees]
            cmd = ["pdcp", "-R", "pcptest", "-w", ",".join(HOSTS3)] + flags + ["-e", wrapper] + users + [
                "dst/newname" if shape == "newname" else "dst"]
        full = ["setpriv", "--reuid", "1000", "--regid", "1000", "--clear-groups"] + env + cmd
        cj = dict(e2e=True, command=" ".join(cmd), sources=[describe(t) for t in trees])
        pr = None
        for attempt in (0, 1):
            # generous waits; a time-out alone is re-tried once (targets emptied) before it is reported
            try:
                pr = subprocess.run(full, cwd=w, stdout=subprocess.PIPE, stderr=subprocess.PIPE,
                                    timeout=25 if shape == "unreadable" else 120)
                break
            except subprocess.TimeoutExpired:
                subprocess.run(["pkill", "-9", "-u", "1000", "-f", wrapper])
                if attempt == 0 and not getattr(ctx, "e2e_hang_confirmed", False):
                    dist["timeouts_retried"] = dist.get("timeouts_retried", 0) + 1
                    for h in HOSTS3:
                        if h != destfile_host:
                            shutil.rmtree(os.path.join(w, h, "dst"), ignore_errors=True)
                            os.makedirs(os.path.join(w, h, "dst"))
                    shutil.rmtree(os.path.join(w, "out"), ignore_errors=True)
                    os.makedirs(os.path.join(w, "out"))
                    if blocked_host:
                        os.makedirs(os.path.join(w, "out", "file.txt." + blocked_host))
                    open(log, "w").close()
                    subprocess.run(["chown", "-R", "1000:1000", w])
                    continue
                ctx.e2e_hang_confirmed = True
                break
        if pr is None:
            if shape == "unreadable":
                subprocess.run(["pkill", "-u", "1000", "-f", wrapper])
                cov["evaluations"] += 1
                dist["e2e_runs"] += 1
                ctx.offender("e2e:unreadable-source-file-hangs", "pdcp -r of a directory that holds a file the user cannot "
                             "read does not terminate (the `C` record is sent, the data cannot be, the receiver waits for "
                             "it and takes the following records for it): " + " ".join(cmd), cj)
                shutil.rmtree(w, ignore_errors=True)
                continue
            ctx.offender("timeout", "pdcp/rpdcp end to end run hangs: " + " ".join(cmd), cj)
            continue
        cov["evaluations"] += 1
        dist["e2e_runs"] += 1
        cj["rc"], cj["stderr"] = pr.returncode, pr.stderr.decode("latin-1")[-400:]
        if shape == "unreadable":
            if b"b_unreadable" not in pr.stderr:
                ctx.offender("e2e:unreported", "a source file that cannot be read was not reported: rc=%d %s" % (
                    pr.returncode, pr.stderr.decode("latin-1")[-200:]), cj)
            for h in HOSTS3:
                snap = pcp.snapshot(os.path.join(w, h, "dst"))
                for path, r_ in snap.items():
                    node = dict(walk(trees[0], [])).get(path)
                    if r_["kind"] == "f" and (node is None or (r_["data"] != pcp.lcg_bytes(*node.gen) and not (
                            node.name == b"b_unreadable" and r_["data"] == b""))):
                        ctx.offender("e2e:fidelity", "target %s: %r arrived damaged next to a source file that cannot be "
                                     "read" % (h, path), dict(cj, target=h))
            dist["e2e_unreadable_source"] = "terminates, rc=%d, %s" % (
                pr.returncode, "nothing copied" if len(pcp.snapshot(os.path.join(w, HOSTS3[0], "dst"))) <= 1
                else "the other files copied")
            shutil.rmtree(w, ignore_errors=True)
            continue
        if destfile_host:
            kept = os.path.isfile(os.path.join(w, destfile_host, "dst")) and \
                open(os.path.join(w, destfile_host, "dst"), "rb").read() == b"precious data in a plain file called dst\n"
            if not kept:
                ctx.offender("e2e:dest-file-overwritten", "two sources copied to a destination that is a regular file on "
                             "target %s: the file was overwritten/replaced" % destfile_host, cj)
            if destfile_host.split(".")[0].encode() not in pr.stderr and pr.returncode == 0:
                ctx.offender("e2e:unreported", "two sources copied to a destination that is a regular file on target "
                             "%s: no error was reported for that target" % destfile_host, cj)
        elif blocked_host:
            errl = [l for l in pr.stderr.split(b"\n") if l.strip()]
            if not any(blocked_host.split(".")[0].encode() in l for l in errl):
                ctx.offender("e2e:unreported", "rpdcp: the local name file.txt.%s is taken by a directory: no error was "
                             "reported for that host (stderr %r)" % (blocked_host, pr.stderr[-200:]), cj)
            if any(h.encode() + b":" in l for l in errl for h in HOSTS3 if h != blocked_host):
                ctx.offender("e2e:reported-error", "rpdcp: an error is reported for a host whose files can all be written: %r"
                             % pr.stderr[-300:], cj)
            if not os.path.isdir(os.path.join(w, "out", "file.txt." + blocked_host)):
                ctx.offender("e2e:fidelity", "rpdcp: the directory in the way of file.txt.%s was replaced" % blocked_host, cj)
        elif pr.returncode != 0 or pr.stderr.strip():
            ctx.offender("e2e:reported-error", "pdcp/rpdcp reports an error on a copy that must succeed (rc=%d): %s" %
                         (pr.returncode, pr.stderr.decode("latin-1")[-300:]), cj)
            continue
        # ---- the remote command lines
        nent = sum(count_entries(t) for t in trees)
        logged = sorted(open(log).read().splitlines())
        if reverse:
            mlines = ["cmdr %s %d %d %s %s" % (hx(os.fsencode(wrapper)), r, p, hx(h.encode()),
                                               " ".join(hx(u.encode()) for u in users)) for h in HOSTS3]
        else:
            mlines = ["cmdf %s %d %d %d %s" % (hx(os.fsencode(wrapper)), r, p, nent,
                                               hx(b"dst/newname" if shape == "newname" else b"dst"))] * 3
        want = sorted(" ".join(pcp.unhx(x).decode().split()) for x in ctx.model("pcp", "".join(l + "\n" for l in mlines)))
        if logged != want:
            ctx.disagreement("pcp command line (dsh())", "remote command lines: real %r model %r" % (logged, want), cj)
        # ---- the copies
        gens = {}
        for t in trees:
            for _, n in walk(t, []):
                if n.kind == "f":
                    d = pcp.lcg_bytes(*n.gen)
                    gens[d[:64] + b"|%d" % len(d)] = n.gen
        slines = []
        for h in HOSTS3:
            if h == destfile_host:
                slines.append("norm - -")
                continue
            if reverse:
                snap = pcp.snapshot(os.path.join(w, "out"))
                stoks = []
                for t in trees:
                    if not (h == blocked_host and t.name == b"file.txt"):
                        stoks += tokens(t, name=t.name + b"." + h.encode())
            else:
                snap = pcp.snapshot(os.path.join(w, h, "dst"))
                stoks = []
                for t in trees:
                    stoks += tokens(t, name=b"newname" if shape == "newname" else None)
            ft = snapshot_tokens(snap, gens)
            slines.append("spec11 %d - %d %s %s" % (p, len(ft), " ".join(ft), " ".join(stoks)))
        for h, sp in zip(HOSTS3, ctx.model("pcp", "".join(l + "\n" for l in slines))):
            if h != destfile_host and sp != "ok":
                cj["target"] = h
                ctx.offender("e2e:fidelity", "target %s: copy differs from the source: %s" % (h, sp[:300]), cj)
        shutil.rmtree(w, ignore_errors=True)

# ------------------------------------------------------------------ several receivers in one process (rpdcp)
MHOSTS = [b"h1", b"h2", b"n3.dom.ain", b"host7", b"x", b"h10"]
MNAMES = [b"f1", b"f2", b"f3", b"file one", b"a.b", b"x;y", b"data", b"E"]


def gen_multi(rng, k):
    """rpdcp as the local side sees it: K targets, each sending the same list of names, every name arriving with the
    `.host` suffix in ONE destination directory; on some targets one name is occupied by a directory (or, for a
    directory, by a file), which makes that target's receiver answer an error record"""
    K = rng.choice([2, 2, 2, 3, 3, 4])
    hosts = rng.sample(MHOSTS, K)
    names = rng.sample(MNAMES, rng.randint(2, 4))
    withdir = rng.random() < 0.3
    nerr = rng.choice([0, 1, 2, 2, 2, K, K])
    errhosts = set(rng.sample(range(K), min(nerr, K)))
    c = dict(k=k, multi=True, p=int(rng.random() < 0.5), um=rng.choice([0o22, 0o22, 0o77, 0, 0o27]), conns=[],
             cut=rng.choice(["records", "records", "random"]))
    for i, h in enumerate(hosts):
        files = [(n, rng.choice([0, 1, 5, 100, 3000, 8192, 8193]), rng.choice([0o644, 0o600, 0o755, 0o4711]),
                  1200000000 + rng.randrange(10 ** 8), rng.randrange(1 << 30)) for n in names]
        blocked = [rng.choice(names)] if i in errhosts else []
        if i in errhosts and rng.random() < 0.25:
            blocked.append(rng.choice(names))
        c["conns"].append(dict(host=h, files=files, blocked=sorted(set(blocked)), dir=withdir,
                               dirblocked=withdir and i in errhosts and rng.random() < 0.5,
                               senddata=rng.random() < 0.1, overwrite=rng.random() < 0.2))
    c["race"] = None
    if len(errhosts) >= 2 and rng.random() < 0.5:
        # forced interleaving of two _error() calls: receiver a is parked inside its first one until receiver b
        # has been through one of its own
        c["race"] = tuple(rng.sample(sorted(errhosts), 2))
    c["urace"] = None
    if not c["race"] and not c["p"] and c["um"] and rng.random() < 0.4:
        # forced interleaving of the umask(2) calls at the start of two receivers (A reads, B reads A's temporary 0,
        # A restores, B "restores" 0): the process-wide umask stays 0
        c["urace"] = tuple(rng.sample(range(K), 2))
    return c


def multi_corpus(k0):
    """pinned: two hosts, one refused file each; once plainly interleaved, once with overlapping _error() calls"""
    out = []
    for race, urace in ((None, None), ((0, 1), None), ((1, 0), None), (None, (0, 1)), (None, (1, 0))):
        conns = [dict(host=h, files=[(n, 20 + i, 0o644, 1234567890 + i, 7 * i + j) for i, n in enumerate((b"f1", b"f2", b"f3"))],
                      blocked=[bl], dir=bool(urace), dirblocked=False, senddata=False, overwrite=False)
                 for j, (h, bl) in enumerate(((b"h1", b"f1"), (b"h2", b"f2")))]
        out.append(dict(k=k0 + len(out), multi=True, p=0, um=0o27 if urace else 0o22, conns=conns, cut="records", race=race,
                        urace=urace))
    # one target finishes while the others are still delivering (seeded change C11-14: the -p umask(0) saved and put back by
    # pcp_server(): the receiver that started first restores the process-wide umask under the others, 0666 arrives as 0640):
    # the harness closes a connection as soon as its chunks are exhausted and waits until that receiver has returned.
    # Files with group/other write bits under umask 027 / 077, with and without -p; the short connection first, last, in
    # the middle of three
    def econn(h, nfiles, withdir):
        return dict(host=h, files=[(n, 10 + i, m, 1234567890 + i, 11 * i + len(h))
                                   for i, (n, m) in enumerate(((b"f1", 0o666), (b"f2", 0o777), (b"f3", 0o4711), (b"data", 0o622))[:nfiles])],
                    blocked=[], dir=withdir, dirblocked=False, senddata=False, overwrite=False)
    for p in (1, 0):
        for um in (0o27, 0o77):
            for shape in (((b"h1", 1), (b"h2", 4)), ((b"h1", 4), (b"h2", 1)), ((b"h1", 4), (b"x", 1), (b"n3.dom.ain", 3))):
                out.append(dict(k=k0 + len(out), multi=True, p=p, um=um, cut="records", race=None, urace=None, early=True,
                                conns=[econn(h, n, n > 1) for h, n in shape]))
    # a DEEP tree from every host: the receivers are threads on small stacks (dsh.c: 128 KiB per target thread) and
    # _sink() recurses once per directory level (seeded change C11-9: an 8 KiB buffer in every frame)
    # (not much deeper: the sanitizer build needs more stack per frame than the shipped one)
    for depth in (24, 32):
        conns = [dict(host=h, files=[(b"f1", 5, 0o644, 1234567890, 3)], blocked=[], dir=False, dirblocked=False,
                      senddata=False, overwrite=False, deep=depth) for h in (b"h1", b"n2.dom.ain")]
        out.append(dict(k=k0 + len(out), multi=True, p=0, um=0o22, conns=conns, cut="records", race=None, urace=None))
    return out


def multi_stream(c, cn):
    """the records a client sends for the file list (data left out for a refused file, as pcp_sendfile does)"""
    recs = []
    for n, size, mode, mt, seed in cn["files"]:
        name = n + b"." + cn["host"]
        if c["p"]:
            recs.append(b"T%d 0 %d 0\n" % (mt, mt + 1))
        recs.append(b"C%04o %d %s\n" % (mode, size, name))
        if n not in cn["blocked"] or cn["senddata"]:
            recs.append(pcp.lcg_bytes(seed, size) + b"\0")
    for lvl in range(cn.get("deep", 0)):
        recs.append(b"D0755 0 %s\n" % (b"deep." + cn["host"] if lvl == 0 else b"l%d" % lvl))
    if cn.get("deep", 0):
        recs.append(b"C0644 4 leaf\n")
        recs.append(b"deep\0")
        recs += [b"E\n"] * cn["deep"]
    if cn["dir"]:
        if c["p"]:
            recs.append(b"T1300000000 0 1300000001 0\n")
        recs.append(b"D0750 0 sub.%s\n" % cn["host"])
        recs.append(b"C0640 3 k\n")
        recs.append(b"abc\0")
        recs.append(b"E\n")
    if c["cut"] == "records":
        return recs
    s = b"".join(recs)
    r = __import__("random").Random(len(s) * 31 + len(cn["host"]))
    cuts = sorted(set(r.randrange(1, max(2, len(s))) for _ in range(r.randint(2, 7))))
    return [x for x in (s[a:b] for a, b in zip([0] + cuts, cuts + [len(s)])) if x]


def multi_ents(c):
    ents = [Ent(b"", "d", 0o755, OLD), Ent(b"o", "d", 0o755, OLD + 1), Ent(b"o/w", "d", 0o755, OLD + 3),
            Ent(b"o/w/other", "f", 0o600, OLD + 4, b"other"), Ent(b"o/w/dest", "d", 0o755, OLD + 7)]
    for cn in c["conns"]:
        for n in cn["blocked"]:
            ents.append(Ent(b"o/w/dest/" + n + b"." + cn["host"], "d", 0o755, OLD + 30))
        if cn["dirblocked"]:
            ents.append(Ent(b"o/w/dest/sub." + cn["host"], "f", 0o644, OLD + 31, b"in the way"))
        if cn["overwrite"]:
            n = cn["files"][0][0]
            if n not in cn["blocked"]:
                ents.append(Ent(b"o/w/dest/" + n + b"." + cn["host"], "f", 0o600, OLD + 32, b"X" * 9000))
    return ents


def multi_json(c):
    return dict(multi=True, preserve=c["p"], umask="%o" % c["um"], cut=c["cut"], race=list(c["race"]) if c.get("race") else None,
                umask_race=list(c["urace"]) if c.get("urace") else None, early_end=bool(c.get("early")),
                conns=[dict(host=cn["host"].decode(), files=[[f[0].decode("latin-1")] + list(f[1:]) for f in cn["files"]],
                            blocked=[b.decode("latin-1") for b in cn["blocked"]], dir=cn["dir"],
                            dirblocked=cn["dirblocked"], senddata=cn["senddata"], overwrite=cn["overwrite"],
                            deep=cn.get("deep", 0))
                       for cn in c["conns"]])


def multi_from_json(j, k):
    return dict(k=k, multi=True, p=int(j["preserve"]), um=int(j["umask"], 8), cut=j["cut"],
                race=tuple(j["race"]) if j.get("race") else None,
                urace=tuple(j["umask_race"]) if j.get("umask_race") else None, early=bool(j.get("early_end")),
                conns=[dict(host=cn["host"].encode(), files=[tuple([f[0].encode("latin-1")] + f[1:]) for f in cn["files"]],
                            blocked=[b.encode("latin-1") for b in cn["blocked"]], dir=cn["dir"],
                            dirblocked=cn["dirblocked"], senddata=cn["senddata"], overwrite=cn["overwrite"],
                            deep=cn.get("deep", 0))
                       for cn in j["conns"]])


def run_multi(ctx, exe, cases, cnt, var, cov, dist):
    """K receivers as threads of one process (the real pcp_server() per connection, like dsh.c _rcp_thread), all
    connections open at once, input interleaved chunk-wise.
    oracle (receivers are independent): the replies on connection i equal those of the SAME real receiver fed the
    same bytes alone in a process of its own; correspondence: replies per connection and the joint destination
    directory equal the model runs (one per connection, destinations' names are disjoint)."""
    jbase = os.path.join(ctx.scratch, "jails_multi")
    shutil.rmtree(jbase, ignore_errors=True)
    os.makedirs(jbase)
    ops, mlines, index, mlines0, index0 = [], [], [], [], []
    for c in cases:
        ents = multi_ents(c)
        c["ents"] = ents
        j = os.path.join(jbase, "m%d" % c["k"])
        pcp.build_jail(j, ents)
        c["jail"] = j
        streams = [multi_stream(c, cn) for cn in c["conns"]]
        ops.append(["multi %s /%s %d 1 %o %d %s %s" % (j, CWD.decode(), c["p"], c["um"], len(streams), " ".join(
            "%s %s" % (hx(b"dest"), ",".join(hx(x) for x in chunks)) for chunks in streams),
            "%d:%d" % c["race"] if c.get("race") else "u%d:%d" % c["urace"] if c.get("urace") else "e" if c.get("early") else "-")])
        index.append((c, None))
        mc = dict(p=c["p"], y=1, um=c["um"], dest=b"dest", stream=b"")
        mlines.append(c12_model_line(mc, ents, cnt, var))
        for i, chunks in enumerate(streams):
            js = os.path.join(jbase, "m%ds%d" % (c["k"], i))
            pcp.build_jail(js, ents)
            s = b"".join(chunks)
            ops.append(["sink %s /%s %s %d 1 %o 0 0 %s" % (js, CWD.decode(), hx(b"dest"), c["p"], c["um"], hx(s))])
            index.append((c, i))
            mlines.append(c12_model_line(dict(mc, stream=s), ents, cnt, var))
            if c.get("urace"):
                # what the receivers would do with the process-wide umask left at 0
                mlines0.append(c12_model_line(dict(mc, stream=s, um=0), ents, cnt, var))
                index0.append((c, i))
    t0 = int(time.time())
    env = dict(os.environ, ASAN_OPTIONS="detect_leaks=0")
    impl = pcp.par_batch([exe], ops, timeout=1800, env=env)

    def rerun(idx):
        for k in idx:
            jail = ops[k][0].split()[1]
            shutil.rmtree(jail, ignore_errors=True)
            pcp.build_jail(jail, index[k][0]["ents"])
        return run_batch([exe], [ops[k] for k in idx], timeout=1800, env=env)

    def f_of(a):
        return pcp.fields(a[0][0]) if a[0] else {}
    nre = pcp.retry_timeouts(impl, lambda a: f_of(a).get("sig") in ("998", "999") or f_of(a).get("to") == "1",
                             lambda a: f_of(a).get("sig") == "997", rerun)
    if nre:
        dist["timeouts_retried"] = dist.get("timeouts_retried", 0) + nre
    mans = pcp.par_model(ctx, "pcp", mlines + mlines0, timeout=1800)
    res, res0 = {}, {}
    for (c, i), (ans, crash), ml in zip(index, impl, mans):
        res.setdefault(c["k"], {})[i] = (pcp.fields(ans[0]) if ans else {}, crash, pcp.parse_model(ml))
    for (c, i), ml in zip(index0, mans[len(mlines):]):
        res0.setdefault(c["k"], {})[i] = pcp.parse_model(ml)
    for c in cases:
        cov["evaluations"] += 1
        dist["multi_cases"] = dist.get("multi_cases", 0) + 1
        cj = multi_json(c)
        f, crash, minit = res[c["k"]][None]
        if f.get("sig") == "997":
            cov["evaluations"] -= 1
            dist["skipped_after_timeouts"] = dist.get("skipped_after_timeouts", 0) + 1
            continue
        if crash is not None or "to" not in f:
            ctx.disagreement("pcp harness", "multi: harness failed: %s %s" % (str(f)[:200], str(crash)[-300:]), cj)
            continue
        if f["to"] != "0" or f["sig"] == "998":
            ctx.offender("timeout", "receivers of %d connections in one process: not finished after 30 s" % len(c["conns"]), cj)
            continue
        if f["san"] != "0" or f["sig"] != "0" or f["rc"] != "0":
            ctx.offender("crash", "receivers in one process: rc=%s sig=%s sanitizer=%s: %s" % (
                f["rc"], f["sig"], f["san"], pcp.unhx(f["err"]).decode("latin-1")[:300]), cj)
            continue
        nerrconn = 0
        merged = dict(minit["fs"])
        bad = False
        raced = bool(c.get("race")) and f.get("parked") == "1"
        if raced:
            dist["multi_overlapping_errors"] = dist.get("multi_overlapping_errors", 0) + 1
            # the narrow class of F11-ERRFP-RACE: the parked receiver's first error record, and nothing else, has
            # moved to the connection of the receiver that opened its reply stream last; all other replies are
            # those of the receivers running alone
            a = c["race"][0]
            real = [pcp.unhx(f["r%d" % x]) for x in range(len(c["conns"]))]
            solo = [pcp.unhx(res[c["k"]][x][0].get("replies", "-")) for x in range(len(c["conns"]))]
            k1 = solo[a].find(b"\x01")
            rec = solo[a][k1:solo[a].find(b"\n", k1) + 1] if k1 >= 0 else b""
            others = [x for x in range(len(real)) if x != a and real[x] != solo[x]]
            if rec and real[a] == solo[a][:k1] + solo[a][k1 + len(rec):] and len(others) == 1 and any(
                    real[others[0]][:x] + real[others[0]][x + len(rec):] == solo[others[0]]
                    for x in range(len(real[others[0]])) if real[others[0]].startswith(rec, x)):
                b = others[0]
                dist["multi_overlapping_errors_cross_routed"] = dist.get("multi_overlapping_errors_cross_routed", 0) + 1
                ctx.offender("independent:overlapping-errors-cross-route",
                             "two receivers of one process inside _error() at the same time (receiver %d parked after "
                             "opening its reply stream while receiver %d opened its own): the record %r of host %s was "
                             "written to the connection of host %s, its own peer got no answer" % (
                                 a, b, rec, c["conns"][a]["host"].decode(), c["conns"][b]["host"].decode()),
                             dict(cj, replies_a=repr(real[a][:200]), replies_b=repr(real[b][:200])))
                continue
        for i, cn in enumerate(c["conns"]):
            fs_, crash_s, m = res[c["k"]][i]
            real = pcp.unhx(f["r%d" % i])
            if crash_s is not None or "replies" not in fs_:
                ctx.disagreement("pcp harness", "multi: solo run failed: %s" % str(fs_)[:200], cj)
                bad = True
                continue
            solo = pcp.unhx(fs_["replies"])
            if b"\x01" in solo:
                nerrconn += 1
            if real != solo:
                cj = dict(cj, connection=i, replies_in_one_process=repr(real[:300]), replies_alone=repr(solo[:300]))
                ctx.offender("independent:replies-depend-on-other-connections",
                             "connection %d (host %s) of %d receivers in one process got the replies %r, the same receiver "
                             "fed the same bytes alone answers %r" % (i, cn["host"].decode(), len(c["conns"]), real[:200],
                                                                     solo[:200]), cj)
                bad = True
                continue
            if pcp.canon_replies(real) != m["replies"]:
                ctx.disagreement("pcp multi replies", "connection %d: real %s model %s" % (
                    i, pcp.canon_replies(real)[:20], m["replies"][:20]), cj)
                bad = True
            for path, v in m["fs"].items():
                if v != minit["fs"].get(path):
                    if path in merged and merged[path] != minit["fs"].get(path) and merged[path] != v:
                        ctx.disagreement("pcp multi generator", "two connections change %r" % path, cj)
                    merged[path] = v
        if nerrconn >= 2:
            dist["multi_errors_on_2+_connections"] = dist.get("multi_errors_on_2+_connections", 0) + 1
        if bad:
            continue
        snap = pcp.snapshot(c["jail"])
        diffs = pcp.compare_fs(merged, snap, t0)
        if c.get("urace") and f.get("parked") == "1":
            dist["multi_umask_races"] = dist.get("multi_umask_races", 0) + 1
        if diffs and c.get("urace") and f.get("parked") == "1":
            # the narrow class of F11-UMASK-RACE: everything is exactly what the receivers create with umask 0
            merged0 = dict(minit["fs"])
            for i in range(len(c["conns"])):
                for path, v in res0[c["k"]][i]["fs"].items():
                    if v != minit["fs"].get(path):
                        merged0[path] = v
            if not pcp.compare_fs(merged0, snap, t0):
                dist["multi_umask_races_umask_lost"] = dist.get("multi_umask_races_umask_lost", 0) + 1
                ctx.offender("independent:umask-race-files-created-with-umask-0",
                             "the umask(2) calls at the start of two receivers of one process interleaved (receiver %d: "
                             "mask = umask(0); receiver %d: mask = umask(0) reads that 0; %d restores; %d restores 0): the "
                             "process-wide umask stays 0, files and directories are created with the permission bits the "
                             "umask %03o should have removed: %s" % (c["urace"][0], c["urace"][1], c["urace"][0],
                                                                    c["urace"][1], c["um"], "; ".join(diffs[:3])), cj)
                continue
        if c.get("early"):
            dist["multi_early_end_cases"] = dist.get("multi_early_end_cases", 0) + 1
        if diffs and c.get("early"):
            # every connection answered exactly what it answers alone, yet the joint destination is not what the receivers
            # produce one by one: something a receiver did on its way OUT (process-wide state put back) hit the others
            ctx.offender("independent:files-depend-on-a-receiver-that-finished",
                         "%d receivers in one process%s, umask %03o; the targets that had delivered everything closed their "
                         "connections while the others were still sending: every connection got the replies of a receiver "
                         "running alone, but the destination differs from what the receivers produce one by one: %s" % (
                             len(c["conns"]), " with -p" if c["p"] else "", c["um"], "; ".join(diffs[:4])), cj)
            continue
        if diffs:
            ctx.disagreement("pcp multi fs", "; ".join(diffs[:5]), cj)
    shutil.rmtree(jbase, ignore_errors=True)


def run_responses(ctx, exe, cov, dist):
    """the client's reply reader alone: the real pcp_response() (harness op `resp`) against Pcp/Response.lean `callN` on the
    BYTES a receiver writes -- positive replies, error records (`\\01` + text + newline) and non-fatal ones (any other first
    byte) with texts of every length around the line buffers (LINEBUFSIZE 2048, BUFSIZ 8192) up to 9000 bytes, one and two
    long records in a row, followed by positive replies.
    oracle: a sequence whose texts are all shorter than PATH_MAX + NAME_MAX + 64 (the longest a receiver builds for a
    sender that sends the names of existing files: `<target path>: <strerror>`) must be read back record by record, nothing
    left over (seeded change C11-13)."""
    B = pcp.BUFSIZ
    limit = read_const("PCP_PATH_MAX") + read_const("PCP_NAME_MAX") + 64
    lens = [0, 1, 80, 1000, 2030, 2045, 2046, 2047, 2048, 2049, 2050, 3000, 4000, 4096, limit - 1, B - 4, B - 3, B - 2, B - 1, B,
            B + 1, 9000]
    seqs = []
    for n in lens:
        for first in (b"\x01", b"x"):
            seqs.append([(first, n)] + [None])
            seqs.append([(first, n), (b"\x01", n), None, (first, 40), None])
            seqs.append([None, (first, n), None, None])
    ops, mlines, wants = [], [], []
    for sq in seqs:
        stream = b"".join(b"\0" if r is None else r[0] + bytes(97 + (i * 7 + r[1]) % 26 for i in range(r[1])) + b"\n" for r in sq)
        ncalls = len(sq) + 2
        ops.append(["resp %d %s" % (ncalls, hx(stream))])
        mlines.append("resp %d %s" % (ncalls, hx(stream)))
        wants.append("res=%s left=0" % ("".join("0" if r is None or r[0] != b"\x01" else "1" for r in sq) + "11"))
    impl = run_batch([exe], ops, env=dict(os.environ, ASAN_OPTIONS="detect_leaks=0"))
    mans = ctx.model("pcp", "".join(l + "\n" for l in mlines))
    for sq, (ans, crash), m, want in zip(seqs, impl, mans, wants):
        cov["evaluations"] += 1
        dist["reply_reader_sequences"] = dist.get("reply_reader_sequences", 0) + 1
        cj = dict(reply_stream=[("ack" if r is None else ("fatal" if r[0] == b"\x01" else "error") + " record, text of %d bytes" % r[1])
                                for r in sq])
        real = ans[0] if ans else "crash %s" % str(crash)[-200:]
        fits = all(r is None or r[1] < limit for r in sq)
        if fits and real != want:
            ctx.offender("reply-reader:error-record-not-read-whole",
                         "pcp_response() called on the reply stream %s: expected the records back one by one and the end of "
                         "input after them (%s), got %s: part of an error line stays in the stream and is taken for the "
                         "replies to later records" % (cj["reply_stream"], want, real), cj)
        elif real != m:
            ctx.disagreement("pcp response (Pcp/Response.lean callN)", "reply stream %s: real %s model %s" % (
                cj["reply_stream"], real, m), cj)
        if not fits:
            dist["reply_reader_beyond_every_buffer"] = dist.get("reply_reader_beyond_every_buffer", 0) + 1


def run_refused_sources(ctx, exe, cov, dist):
    """-r sources pcp_client.c refuses: pcp_expand_dirs/_rexpand_dir use stat(2) and end the client (errx) on anything that
    is neither a regular file nor a directory and on a link that points nowhere -- BEFORE the first byte is sent.
    Stated, not modelled (the model's trees hold files and directories): the client exits non-zero naming the entry,
    sends nothing, the receiver gets the end of input after its greeting and the destination is untouched."""
    for kind in ("fifo", "dangling-link", "socket", "link-to-fifo"):
        sdir = os.path.join(ctx.scratch, "refused_src")
        j = os.path.join(ctx.scratch, "refused_jail")
        for d in (sdir, j):
            shutil.rmtree(d, ignore_errors=True)
        os.makedirs(os.path.join(sdir, "top", "sub"))
        with open(os.path.join(sdir, "top", "a_file"), "w") as f:
            f.write("regular\n")
        odd = os.path.join(sdir, "top", "sub", "odd")
        if kind == "fifo":
            os.mkfifo(odd)
        elif kind == "dangling-link":
            os.symlink("nowhere", odd)
        elif kind == "socket":
            import socket
            sk = socket.socket(socket.AF_UNIX)
            sk.bind(odd)
            sk.close()
        else:
            os.mkfifo(os.path.join(sdir, "top", "sub", "pipe"))
            os.symlink("pipe", odd)
        ents = [Ent(b"", "d", 0o755, OLD), Ent(b"o", "d", 0o755, OLD + 1), Ent(b"o/w", "d", 0o755, OLD + 3),
                Ent(b"o/w/dest", "d", 0o755, OLD + 7), Ent(b"o/w/dest/keep", "f", 0o600, OLD + 8, b"keep")]
        pcp.build_jail(j, ents)
        op = "rt %s /o/w %s 0 1 22 0 %s 0 %s %s" % (j, hx(b"dest"), sdir, hx(b"h"), hx(b"top"))
        (ans, crash), = run_batch([exe], [[op]], env=dict(os.environ, ASAN_OPTIONS="detect_leaks=0"))
        f = pcp.fields(ans[0]) if ans else {}
        cj = dict(refused_source=kind)
        cov["evaluations"] += 1
        dist["refused_source_kinds"] = dist.get("refused_source_kinds", 0) + 1
        if crash is not None or "crc" not in f:
            ctx.disagreement("pcp harness", "refused source: harness failed: %s" % str(ans)[:200], cj)
            continue
        errtxt = pcp.unhx(f["err"])
        snap = pcp.snapshot(j)
        changed = pcp.changed_paths({e.path: e for e in ents}, snap, int(time.time()))
        if f["san"] != "0" or f["csig"] != "0" or f["ssig"] != "0":
            ctx.offender("crash", "a source that is %s: client/server crash: %s" % (kind, errtxt[-200:]), cj)
        elif f["crc"] == "0" or f["c2slen"] != "0" or b"odd" not in errtxt and b"pipe" not in errtxt or changed:
            ctx.offender("refused-source:not-refused-cleanly",
                         "a -r source tree holding a %s: expected the client to end before sending anything, naming the "
                         "entry, destination untouched; got client rc=%s, %s bytes sent, stderr %r, changed %r" % (
                             kind, f["crc"], f["c2slen"], errtxt[-150:], changed[:4]), cj)
        for d in (sdir, j):
            shutil.rmtree(d, ignore_errors=True)


def probe_sender(ctx, exe):
    """which sender is in /repo?  ssec = the T record carries microseconds (repair of F11-MTIME-SUBSEC);
    sfix = a source the user names like the sentinel is sent as a file (repair of F11-SENTINEL-NAME);
    skipref = the entries of a directory the target refused are skipped (repair of F11-DIRFAIL-SCATTER)"""
    out = {}
    for key, trees in (("ssec", [Node(b"probe", "f", 0o644, 1234567890, nsec=123456000, gen=(5, 3))]),
                       ("sfix", [Node(b"a!b@c#d$", "f", 0o644, 1234567890, gen=(5, 3))]),
                       ("skipref", [Node(b"t", "d", 0o755, 1234567890, kids=[Node(b"kid", "f", 0o644, 1234567890, gen=(5, 3))])])):
        sdir = os.path.join(ctx.scratch, "probe_src")
        j = os.path.join(ctx.scratch, "probe_jail")
        for d in (sdir, j):
            shutil.rmtree(d, ignore_errors=True)
        os.makedirs(sdir)
        future = FUTURE
        for t in trees:
            materialize(os.fsencode(sdir), t, future)
            set_meta(os.fsencode(sdir), t, future)
        pcp.build_jail(j, [Ent(b"", "d", 0o755, OLD), Ent(b"o", "d", 0o755, OLD + 1), Ent(b"o/w", "d", 0o755, OLD + 3),
                           Ent(b"o/w/dest", "d", 0o755, OLD + 7)] +
                       ([Ent(b"o/w/dest/t", "f", 0o644, OLD + 8, b"in the way")] if key == "skipref" else []))
        op = "rt %s /o/w %s 1 0 22 0 %s 0 %s %s" % (j, hx(b"dest"), sdir, hx(b"h"), " ".join(hx(t.name) for t in trees))
        (ans, crash), = run_batch([exe], [[op]], env=dict(os.environ, ASAN_OPTIONS="detect_leaks=0"))
        c2s = pcp.unhx(pcp.fields(ans[0]).get("c2s", "-")) if ans else b""
        if key == "ssec":
            import re
            m = re.search(rb"T\d+ (\d+) \d+ \d+\n", c2s)
            out[key] = int(bool(m) and int(m.group(1)) != 0)
        elif key == "skipref":
            # the directory `t` is refused (a file of that name is in the way): does the client still send its entry?
            out[key] = int(b" kid\n" not in c2s)
        else:
            out[key] = int(not c2s.startswith(b"E\n"))
        for d in (sdir, j):
            shutil.rmtree(d, ignore_errors=True)
    return out


def run(ctx):
    rng = ctx.rng
    pcp.BRANCHES.clear()
    ctx.gen_consts(["pcp"])
    ctx.lean_build([PROPS, "pdshmodel"])
    ctx.audit(PROPS)
    pcp.BUFSIZ = read_const("PCP_BUFSIZ")
    exe = os.path.join(ctx.scratch, "pcp_h")
    # the stack size dsh.c gives its per-target threads (the rpdcp receivers run on them)
    mstack = re.search(r"^#define\s+DSH_THREAD_STACKSIZE\s+([0-9*+() \t]+)$", open(os.path.join(REPO, "src/pdsh/dsh.c")).read(), re.M)
    stackflag = "-DHARNESS_THREAD_STACKSIZE=(%s)" % (mstack.group(1).strip() if mstack else "128*1024")
    ok = ctx.cc(exe, [os.path.join(HARNESS, "pcp_harness.c")], flags=SAN_FLAGS + (stackflag,), san=True, assertions=True)
    cov = {"evaluations": 0, "distinct_nontrivial": 0, "samples": [],
           "rule": "source trees of regular files and directories: depth <= 5, fan-out <= 6, sizes 0,1,8191,8192,8193,"
                   "3*8192-1..+1 and random small, names with blanks, shell metacharacters, control and non-ASCII bytes "
                   "(no newline, no slash), all 12 mode bits, 1-3 sources given directly or through a sub-path, -p on/off, "
                   "forward and reverse (.host) naming, destination fresh / given as dir, dir/, absolute, new file name; "
                   "a few cases with an entry of the wrong kind already in the way (pinned: several per run, at depth 2-4, "
                   "compared with Pcp/Deep.lean `dTopFs`/`dTopBad`); plus 2-4 receivers in one process (same "
                   "name list from every host, `.host` names in one directory, on 0..K hosts a name is occupied by a "
                   "directory, input cut at records or at random places); non-trivial = the tree holds >= 1 "
                   "directory and a file >= 8192 bytes; distinct = distinct model input line"}
    dist = {"all_acks": 0, "with_error_replies": 0, "conflict_cases": 0, "overwrite_cases": 0, "spec_failures": 0, "model_mismatch": 0,
            "with_dir_and_big_file": 0, "signatures": {}}
    distinct = set()
    if ok:
        blk = int(subprocess.run([exe, "--blksize", ctx.scratch], stdout=subprocess.PIPE).stdout.decode().strip() or 0)
        cnt = probe_cnt(ctx, exe, ((blk + pcp.BUFSIZ - 1) // pcp.BUFSIZ) * pcp.BUFSIZ or pcp.BUFSIZ)
        dist["bp_cnt"] = cnt
        var = probe_variant(ctx, exe)
        var.update(probe_sender(ctx, exe))
        dist["receiver_variant"] = variant_text(var)
        dist["sender_variant"] = ("T record carries microseconds: %s; user-named sentinel sent as a file: %s; entries of a "
                                  "refused directory skipped: %s" % ("yes" if var["ssec"] else "no", "yes" if var["sfix"] else "no",
                                                                     "yes" if var["skipref"] else "no"))
        ctx.log("variants:", dist["receiver_variant"], "|", dist["sender_variant"])
        n = 200 if ctx.quick() else 6000
        cases, mcases = [], []
        if ctx.replay:
            import json
            rc = json.load(open(ctx.replay)).get("case", {})
            if "sources" in rc and not rc.get("e2e"):      # the pinned end-to-end runs are repeated by every run
                cases.append(from_json(rc, 0))
            if rc.get("multi"):
                mcases.append(multi_from_json(rc, 0))
        cases += corpus(len(cases))
        cases += [gen_case(rng, len(cases) + i, ctx.quick()) for i in range(n)]
        import random
        rng2 = random.Random(ctx.seed * 104729 + 5)         # own stream: the cases above stay what they were
        lcases = [add_links(rng2, gen_case(rng2, len(cases) + i, ctx.quick())) for i in range(40 if ctx.quick() else 600)]
        cases += lcases
        dist["cases_with_symlinks_in_sources"] = sum(1 for c in lcases if c["links"])
        for i in range(0, len(cases), 500):
            run_cases(ctx, exe, cases[i:i + 500], cnt, var, cov, dist, distinct)
        run_refused_sources(ctx, exe, cov, dist)
        run_responses(ctx, exe, cov, dist)
        mcases += multi_corpus(len(mcases))
        mcases += [gen_multi(rng, len(mcases) + i) for i in range(40 if ctx.quick() else 800)]
        for i in range(0, len(mcases), 200):
            run_multi(ctx, exe, mcases[i:i + 200], cnt, var, cov, dist)
        ctx.log("receivers in one process: %d cases, %d with errors on >= 2 connections, %d with two overlapping "
                "_error() calls" % (dist.get("multi_cases", 0), dist.get("multi_errors_on_2+_connections", 0),
                                    dist.get("multi_overlapping_errors", 0)))
        dist["umask_variant"] = ("_sink reads and restores the process-wide umask (umask(0); umask(mask)): two receivers "
                                 "starting at the same time can leave it at 0" if dist.get("multi_umask_races") else
                                 "no umask(2) call without -p")
        dist["error_stream_variant"] = ("shared by all receivers of the process (static FILE *fp): overlapping _error() calls "
                                        "cross-route" if dist.get("multi_overlapping_errors_cross_routed") else
                                        "per call: overlapping _error() calls keep their own connection")
        # ---- what the receivers of one process share: the translation unit against Pcp/Statics.lean
        so = pcp.static_objects(REPO, ctx.scratch)
        shared_fp = bool(dist.get("multi_overlapping_errors_cross_routed"))
        ms = pcp.fields(ctx.model("pcp", "statics %d\n" % int(shared_fp))[0])
        if so is None:
            ctx.disagreement("pcp statics", "pcp_server.c does not compile on its own", {})
        else:
            defs, calls = so
            want = sorted(ms["defs"].split(","))
            dist["server_static_objects"] = defs
            dist["server_process_wide_calls"] = [c for c in calls if c in ms["modelled"].split(",")]
            if defs != want:
                ctx.disagreement("pcp statics", "pcp_server.c defines the objects of static storage duration %s; the model of "
                                 "several receivers in one process (Pcp/Multi.lean, Pcp/Statics.lean) accounts for %s: state "
                                 "that outlives a call is shared by all rpdcp receiver threads" % (defs, want),
                                 dict(static_objects=defs, model=want))
            bad = [c for c in calls if c in ms["forbidden"].split(",")]
            if bad:
                ctx.disagreement("pcp process-wide calls", "pcp_server.c calls %s: process-wide state the model of several "
                                 "receivers in one process does not cover" % bad, dict(calls=bad))
        # ---- what the client threads of a forward copy share: pcp_client.c against Pcp/ClientStatics.lean (the premise of
        # the product automaton Pcp/FanOut.lean: a session depends on its own target only)
        cso = pcp.static_objects(REPO, ctx.scratch, "pcp_client.c")
        cms = pcp.fields(ctx.model("pcp", "cstatics\n")[0])
        if cso is None:
            ctx.disagreement("pcp client statics", "pcp_client.c does not compile on its own", {})
        else:
            cdefs, ccalls = cso
            cwant = sorted(x for x in cms["defs"].split(",") if x != "-")
            dist["client_static_objects"] = cdefs
            dist["client_process_wide_calls"] = [c for c in ccalls if c in cms["expandonly"].split(",")]
            if cdefs != cwant:
                ctx.disagreement("pcp client statics", "pcp_client.c defines the objects of static storage duration %s; the "
                                 "model of a forward copy to several targets (Pcp/FanOut.lean, Pcp/ClientStatics.lean) accounts "
                                 "for %s: state that outlives a call is shared by the client threads of all targets" %
                                 (cdefs, cwant), dict(static_objects=cdefs, model=cwant))
            bad = [c for c in ccalls if c in cms["forbidden"].split(",")]
            if bad:
                ctx.disagreement("pcp client process-wide calls", "pcp_client.c calls %s: process-wide state the model of "
                                 "several client threads in one process does not cover" % bad, dict(calls=bad))
        if os.environ.get("VERIF_C11_E2E", "1") != "0":
            run_e2e(ctx, cov, dist)
    cov["distinct_nontrivial"] = len(distinct)
    pcp.branch_report(dist)
    cov["distribution"] = dist
    cov["traces_validated_against_impl"] = cov["evaluations"]
    return ctx.finish(
        LEVEL, cov,
        assumptions=["sources do not change while they are copied; source paths shorter than MAXPATHLEN, records shorter "
                     "than BUFSIZ (names <= NAME_MAX)", "source modification times are non-negative",
                     "sources hold regular files, directories and symbolic links to those (stat(2) is followed: generated); any other "
                     "entry ends the client before it sends anything (pinned cases: fifo, socket, dangling link, link to a fifo)",
                     "client and server run as root: no permission failures; I/O errors only as injected write faults "
                     "(receiver under RLIMIT_FSIZE)",
                     "each target is served by the same client code on its own connection; the receivers of several targets "
                     "as threads of one process are exercised with deterministic chunk-wise interleaving (not with "
                     "simultaneous execution of two receivers; transport/threads: C03, C09)",
                     "file-system semantics as in Pcp/FS.lean (see C12)"],
        trusted_base=["Lean 4.33 kernel", "axioms: propext, Classical.choice, Quot.sound at most (audited per theorem)",
                      "hand-written models Pcp/Send.lean, Pcp/Sink.lean, Pcp/FS.lean tied to pcp_client.c/pcp_server.c and "
                      "the kernel by differential execution", "Gen/Pcp.lean regenerated from /repo",
                      "harness/pcp_harness.c (relay), vlib/pcp.py (tree generation, snapshots), gcc -fwrapv, ASan/UBSan"],
        checker_cmd="lake build PdshVerif.Props.C11 && #print axioms on every theorem of Props/C11.lean")
