"""C01  A host expression targets exactly its mathematical expansion.

proof:          lean/PdshVerif/Props/C01.lean (push never changes the denoted sequence, token-level
                create = expand₁, iteration/shift = hosts, width rewriting is invisible)
correspondence: real src/common/hostlist.c (assertions + ASan/UBSan, linked into harness/hl_harness.c)
                and the scratch-built pdsh binary vs `pdshmodel hl model`
oracle:         real code vs the independent expanders: the AST-level expander of vlib/hostlist.py
                and the string-level `pdshmodel hl spec` (Hostlist/Spec.lean), which must agree
"""
import itertools
import json
import os

from vlib.hostlist import (HL, Cli, WFGen, LIMIT, hx, unhx, parse_probe, parse_spec, same_answer, expand1, expand2,
                           feat_big, feat_longplain, is_d17, gen_malformed, exhaustive, names_field, VERIF_CORPUS, pinned_classes, cli_phase,
                           poisoned_classes, state_pairs, POISONS, STATE_GOOD)

LEVEL = "proof"
PROPS = "PdshVerif.Props.C01"
MANIFEST = dict(
    engine="hl",
    technique="Lean 4 proof about the executable model of hostlist.c/opt.c (coalescing push preserves the denoted "
              "host sequence, token-level create equals the mathematical expansion, iteration and shift enumerate "
              "exactly the denoted hosts) + differential correspondence of the real hostlist.c and pdsh binary "
              "against the compiled model + independent expansion oracles",
    text="Theorems in lean/PdshVerif/Props/C01.lean about the model in lean/PdshVerif/Hostlist; the model is executed "
         "against the real hostlist.c (harness/hl_harness.c, assertions+ASan/UBSan) and against `pdsh -Q -w` / "
         "`pdsh -R exec -f 1 -w .. echo %h` of a scratch build on generated expressions; the real code is also "
         "compared with two independent expanders (AST-level in Python, string-level in Lean), which yields the "
         "failing expression as replay.",
    design_ref="DESIGN.md section 5 C01",
    note="Lean 4.33 kernel; axioms propext/Classical.choice/Quot.sound at most (audited per theorem every run); "
         "hand-written model tied to hostlist.c/opt.c/split.c by differential execution of the real sources built "
         "from /repo's working tree plus constants regenerated from /repo; glibc strtoul/snprintf/strncpy modelled "
         "not verified; numeric parts < 2^64; proved at TEXT level: hostlist_create = expand1 (tokenizer included), "
         "the command line's first comma split is invisible for every text, the whole -w path = expand2 (the "
         "hostrange_shift buffer hypothesis discharged for texts <= 10^15/16384 bytes); for EVERY byte string the "
         "list hostlist_create returns and the one wcoll_expand leaves denote the expansions of the independent "
         "string-level reader (Spec.classify hosts1 / hosts2); the -x and ^file contexts from the option texts and "
         "look-up by name are proved by composition with C02's / C10's / C16's theorems inside their decidable "
         "domains (names with digit tails <= 2^25) and exercised by pinned + generated cases on the real pdsh / "
         "hostlist_find; harness, generators, gcc, ASan/UBSan trusted")


def crash_signature(s, p):
    if p["kind"] == "crash":
        if feat_longplain(s) and "stack-buffer-overflow" in p["cls"]:
            return "crash:asan:stack-buffer-overflow:plainword>=1023"
        if feat_big(s):
            return "crash:bound>=2^64-1"
        return "crash:" + p["cls"]
    if feat_big(s):
        return "resource:bound>=2^64-1"
    return "resource:" + p["kind"]


def seq_signature(s, field, got, exp):
    """narrow class of a difference between a listed sequence and the expansion: every differing name is
    classified on its own; anything unexplained makes the signature a plain `<field>-mismatch`"""
    kinds = set()
    if len(got) != len(exp):
        kinds.add("other")
    for a, b in zip(got, exp):
        if a == b:
            continue
        if field in ("next", "cli") and is_d17(a, b):
            kinds.add("number>=15chars")
        elif len(b) > 4095 and a == b[:4095]:
            kinds.add("name>4095")
        elif field in ("next", "cli") and len(b) > 4095 and is_d17(a, b[:4095]):
            kinds.update(["number>=15chars", "name>4095"])
        else:
            kinds.add("other")
    if kinds and "other" not in kinds:
        return field + "-truncated:" + "+".join(sorted(kinds))
    if feat_big(s):
        return field + "-mismatch:bound>=2^64-1"
    return field + "-mismatch"


def first_diff(got, exp):
    for i, (a, b) in enumerate(zip(got, exp)):
        if a != b:
            return i, a, b
    return min(len(got), len(exp)), (got[len(exp)] if len(got) > len(exp) else None), \
        (exp[len(got)] if len(exp) > len(got) else None)


def show(b):
    return None if b is None else b[:120].decode("latin1")


def judge(ctx, s, exp, impl, model, origin, extra=None):
    """exp = expected first-level host list (bytes names); returns True when the oracle was applicable"""
    case = {"expr": s[:400].decode("latin1"), "expr_hex": hx(s) if len(s) <= 20000 else hx(s[:20000]) + "..",
            "origin": origin}
    if extra:
        case.update(extra)
    if not same_answer(impl, model):
        ctx.disagreement("hl model vs hostlist.c (probe)", "expr %r: impl `%s` model `%s`" %
                         (s[:200], impl[:300], model[:300]), case)
    p = parse_probe(impl)
    if p["kind"] == "skipped":
        return False
    if p["kind"] in ("crash", "timeout", "oom"):
        ctx.offender(crash_signature(s, p), "hostlist_create/next/shift on a well-formed expression: %s" % impl[:100],
                     dict(case, impl=impl[:300]))
        return True
    if p["kind"] == "null":
        ctx.offender("valid-rejected:%s:%s" % (p["errno"], p["fatal"]), "well-formed expression refused: " + impl,
                     dict(case, impl=impl))
        return True
    if p["kind"] != "ok":
        ctx.disagreement("hl harness answer", "garbled answer `%s`" % impl[:200], case)
        return True
    if p["count"] != len(exp):
        ctx.offender(seq_signature(s, "count", [], [b"x"]), "hostlist_count = %d, the expansion has %d hosts" %
                     (p["count"], len(exp)), dict(case, impl_count=p["count"], expected_count=len(exp)))
    for field in ("next", "shift"):
        got = p[field]
        if got != exp or p[field + "_more"]:
            i, a, b = first_diff(got, exp)
            ctx.offender(seq_signature(s, field, got, exp),
                         "%s sequence differs from the expansion at position %d: impl %r expected %r (%d vs %d names)" %
                         ("hostlist_next" if field == "next" else "hostlist_shift", i, show(a), show(b), len(got), len(exp)),
                         dict(case, field=field, position=i, impl_name=show(a), expected_name=show(b),
                              impl_len=len(got), expected_len=len(exp)))
    return True


def run(ctx):
    rng = ctx.rng
    ctx_only = None
    if ctx.replay:
        rcase = json.load(open(ctx.replay)).get("case", {})
        if str(rcase.get("origin", "")).startswith("ctx-") or rcase.get("origin") in ("find", "after-call"):
            ctx_only = rcase        # a -x / WCOLL-file / look-up / after-a-call case: only that case is run again
        elif "expr_hex" not in rcase:
            ctx.replay = None       # a theorem/correspondence replay names no input: the whole check is the replay
    ctx.gen_consts(["hostlist"])
    ctx.lean_build([PROPS, "pdshmodel"])
    ctx.audit(PROPS)
    hl = HL(ctx)
    cov = {"evaluations": 0, "distinct_nontrivial": 0, "samples": [],
           "rule": "grammar-directed well-formed expressions (words: plain names incl. digit-ending and purely numeric, "
                   "pre[ranges]suffix, two-bracket words; ranges with boundary weights 9->10, 099->100, widths 1..30, "
                   "2^25+-1, 2^32+-1, 2^63, 2^64-1, adjacent/overlapping/repeated ranges, mixed widths; all separator "
                   "mixes) rendered to text, plus the valid subset of the biased-alphabet stream shared with C15, plus "
                   "(thorough) all strings over {a,0,1,9,[,],-,,} up to length 6; on the pdsh binary also LONG GROUPS "
                   "(hundreds of disjoint numbers / small ranges under one prefix, as one bracket list or as a run of "
                   "words, compressed group text 990..2500 bytes incl. exactly 1023/1024/1025) whose contacted hosts "
                   "are compared; LOOK-UP BY NAME (hostlist_find of names of the expansion in the list built from the "
                   "text = position of the first occurrence; 11 pinned texts with bare ranges / numeric names / "
                   "digit-ending prefixes + 140 generated); the OTHER CONTEXTS that accept an expression: `-w W -x X` (12 pinned pairs naming the "
                   "same hosts in another spelling -- names a bare range generated typed as plain words and vice versa, "
                   "purely numeric names, paddings, repeats, two brackets -- plus generated pairs; expected = expansion "
                   "of W minus the names of the expansion of X) and WCOLL / `-w ^FILE` (one expression per line; pinned "
                   "line lengths k*(LINEBUFSIZE-1)-1 and neighbours, LINEBUFSIZE read from the tree; expected = the "
                   "lines' expansions in order); STATE LEFT OVER (errno tested but never cleared, the previous bracket's "
                   "range table, the first element's width): every pinned text as the word after each poisoning word "
                   "(20+ digit suffix, purely numeric overflow, bracket with more ranges, long bracket, wide first "
                   "element) in one hostlist_create, in the call AFTER hostlist_create(poison) incl. failed calls "
                   "(harness op sprobe: nothing reset in between), look-up / -x / file lines / -w words after an "
                   "ERANGE name; expected = AST-level expansion "
                   "(Python) = string-level expansion (Lean spec); non-trivial = expansion has >= 2 hosts and the text "
                   ">= 1 bracket group; distinct = distinct rendered text"}
    dist = {"wellformed": 0, "valid-from-malformed-stream": 0, "exhaustive": 0, "corpus": 0, "cli": 0, "nth": 0,
            "forked": 0, "hosts_compared": 0}
    gen = WFGen(rng)

    def stream():
        if ctx_only is not None:
            return
        if ctx.replay:
            rep = json.load(open(ctx.replay))
            yield (unhx(rep["case"]["expr_hex"].rstrip(".")), None, "replay")
            return
        for s in load_corpus():
            dist["corpus"] += 1
            yield (s, None, "corpus")
        for s in poisoned_classes():
            dist["pinned-after-poison-word"] = dist.get("pinned-after-poison-word", 0) + 1
            yield (s, None, "pinned-poisoned")
        for s in pinned_classes():
            dist["pinned-classes"] = dist.get("pinned-classes", 0) + 1
            yield (s, None, "pinned")
        n = 2500 if ctx.quick() else 40000
        for _ in range(n):
            words, s = gen.expr()
            yield (s, expand1(words), "wellformed")
        for k in (1022, 1023, 1024):      # D18 boundary in the well-formed domain (any prefix/suffix text)
            yield (b"a[1-2]," + b"w" * k, [b"a1", b"a2", b"w" * k], "wellformed")
        dist["wellformed"] = n
        md = {}
        wf2 = WFGen(rng, max_hosts=300)
        for _ in range(1200 if ctx.quick() else 20000):
            yield (gen_malformed(rng, wf2, md), None, "stream15")
        if ctx.tier == "thorough":
            dist["exhaustive-scope"] = {"alphabet": "a 0 1 9 [ ] - ,", "lengths": "0..6",
                                        "strings": sum(8 ** k for k in range(7)),
                                        "judged": "those the spec accepts (counted in `exhaustive`)"}
            for s in exhaustive(b"a019[]-,", 6):
                yield (s, None, "exhaustive")

    if hl.build():
        distinct = set()
        nth_sample = []
        dist["outside-domain-skipped"] = 0
        it = stream()
        while True:
            cases = list(itertools.islice(it, 25000))
            if not cases:
                break
            spec = hl.spec([c[0] for c in cases])
            # texts outside C01's domain (the spec names a problem / a bound >= 2^64) are C15's business
            keep = [i for i, sp in enumerate(spec) if cases[i][1] is not None or (sp.startswith("ok"))]
            dist["outside-domain-skipped"] += len(cases) - len(keep)
            cases = [cases[i] for i in keep]
            spec = [spec[i] for i in keep]
            ctx.log("chunk: spec done, %d cases in the domain" % len(cases))
            impl, model = hl.probe_all([c[0] for c in cases])
            ctx.log("chunk: impl+model done (%d forked so far)" % hl.nfork)
            for (s, exp, origin), sp, a, b in zip(cases, spec, impl, model):
                v = parse_spec(sp)
                if v.get("note64"):
                    # a bound of 2^64-1 (the largest value of the implementation's number type, which it uses
                    # as a sentinel) or beyond: outside C01's domain, judged by C15
                    dist["outside-domain-skipped"] += 1
                    if not same_answer(a, b):
                        ctx.disagreement("hl model vs hostlist.c (probe)", "expr %r: impl `%s` model `%s`" %
                                         (s[:200], a[:300], b[:300]), {"expr_hex": hx(s[:4000])})
                    continue
                if exp is not None:
                    # the two independent expanders must agree on generated well-formed text
                    if not v["ok"] or v["hosts1"] != exp:
                        ctx.disagreement("Lean string-level spec vs AST-level expander",
                                         "expr %r: spec `%s`, AST expansion has %d hosts" % (s[:200], sp[:200], len(exp)),
                                         {"expr_hex": hx(s[:4000])})
                        continue
                    if len(nth_sample) < 4000:
                        nth_sample.append((s, exp, origin))
                else:
                    exp = v["hosts1"]
                    if origin == "stream15":
                        dist["valid-from-malformed-stream"] += 1
                    elif origin == "exhaustive":
                        dist["exhaustive"] += 1
                judge(ctx, s, exp, a, b, origin)
                cov["evaluations"] += 1
                dist["hosts_compared"] += len(exp)
                if len(exp) >= 2 and b"[" in s:
                    distinct.add(s)
                    if len(cov["samples"]) < 4 and len(s) < 60 and origin == "wellformed":
                        cov["samples"].append({"expr": s.decode("latin1"), "hosts": len(exp), "impl": a[:160]})
        cov["distinct_nontrivial"] = len(distinct)
        dist["forked"] = hl.nfork
        if not ctx.replay:
            dist["generator"] = gen.dist
            state_check(ctx, hl, dist, cov)
            nth_check(ctx, hl, nth_sample, dist)
            ctx.log("nth done")
            find_check(ctx, hl, nth_sample, dist, cov)
            ctx.log("find done")
            cli_phase(ctx, cli_check, ctx, hl, dist, cov)
            ctx.log("cli done")
            cli_phase(ctx, context_check, ctx, hl, dist, cov)
            ctx.log("contexts done")
        else:
            rep = json.load(open(ctx.replay))
            if ctx_only is not None and ctx_only.get("origin") == "find":
                find_check(ctx, hl, [], dist, cov, only=ctx_only)
            elif ctx_only is not None and ctx_only.get("origin") == "after-call":
                state_check(ctx, hl, dist, cov, only=(ctx_only.get("poison", "replay"), unhx(ctx_only["poison_hex"]),
                                                      unhx(ctx_only["expr_hex"])))
            elif ctx_only is not None:
                context_check(ctx, hl, dist, cov, only=ctx_only)
            elif rep["case"].get("origin") == "cli":
                cli_check(ctx, hl, dist, cov, only=unhx(rep["case"]["expr_hex"]))
    dist["probed-variant"] = hl.probed()
    cov["distribution"] = dist
    cov["traces_validated_against_impl"] = cov["evaluations"]
    for b in ctx.broken[:4]:
        ctx.log("broken:", b[0], b[1], "::", str(b[2])[:700])
    return ctx.finish(
        LEVEL, cov,
        assumptions=["numeric parts of host names < 2^64 (larger typed numbers are C15's concern)",
                     "glibc strtoul / snprintf(\"%0*lu\") / strncpy / isdigit behave as modelled (C locale)",
                     "malloc never fails", "no live iterator while the list is edited (C16's concern)",
                     "CLI path: comma-words are plain target words (no -x style exclusion, ^file, /regex/, "
                     "rcmd_type: or user@ part; those are C02/C09/C10)"],
        trusted_base=["Lean 4.33 kernel", "axioms: propext, Classical.choice, Quot.sound at most (audited per theorem)",
                      "hand-written model lean/PdshVerif/Hostlist/*.lean tied to hostlist.c, opt.c (wcoll_expand, "
                      "wcoll_arg_process), split.c by differential execution",
                      "Gen/Hostlist.lean regenerated from /repo (MAX_RANGE, MAX_RANGES, MAX_HOST_SUFFIX)",
                      "harness/hl_harness.c, vlib/hostlist.py (generators, AST expander), gcc, ASan/UBSan"],
        checker_cmd="lake build PdshVerif.Props.C01 && #print axioms on every theorem of Props/C01.lean")


def state_check(ctx, hl, dist, cov, only=None):
    """STATE CARRIED FROM ONE LIBRARY CALL TO THE NEXT: every pinned well-formed text is probed in the call after
    hostlist_create(POISON) (harness op `sprobe`: errno, stack and allocator as that call left them -- what pdsh
    has between two -w / -x / file-line words).  The expansion of a text does not depend on what was parsed before."""
    trip = [only] if only is not None else state_pairs()
    spec = hl.spec([t for _, _, t in trip])
    keep = [(tr, parse_spec(sp)) for tr, sp in zip(trip, spec) if sp.startswith("ok")]
    keep = [(tr, v) for tr, v in keep if not v.get("note64")]
    if not keep:
        return
    impl, model = hl.sprobe_all([(p, t) for (_, p, t), _ in keep])
    dist["after-poison-call"] = {}
    for ((note, p, t), v), a, b in zip(keep, impl, model):
        dist["after-poison-call"][note] = dist["after-poison-call"].get(note, 0) + 1
        cov["evaluations"] += 1
        judge(ctx, t, v["hosts1"], a, b, "after-call",
              extra={"poison": note, "poison_hex": hx(p), "previous_call": "hostlist_create(%r)" % p[:80].decode("latin1")})


def nth_check(ctx, hl, cases, dist):
    """hostlist_nth against the model (correspondence only; nth is not part of C01's text)"""
    rng = ctx.rng
    seqs, mlines = [], []
    for s, exp, _ in cases:
        if len(seqs) >= (150 if ctx.quick() else 3000):
            break
        if exp is None or not exp or len(exp) > 400 or len(s) > 400 or feat_big(s):
            continue
        ks = sorted({0, len(exp) - 1, len(exp), rng.randrange(0, len(exp)), rng.randrange(0, len(exp))})
        seqs.append(["create " + hx(s)] + ["nth %d" % k for k in ks])
    flat = [l for q in seqs for l in q]
    if not flat:
        return
    m = hl.model(flat)
    keep, pos = [], 0
    for q in seqs:
        mm = m[pos:pos + len(q)]
        pos += len(q)
        if any(x.startswith("ub:") for x in mm):      # _hostrange_string's buffer: not exercised in process
            continue
        keep.append((q, mm))
    from vlib.seqrun import run_batch
    res = run_batch([hl.exe], [q for q, _ in keep], env=hl.env, timeout=300)
    for (q, mm), (ans, crash) in zip(keep, res):
        dist["nth"] += len(q) - 1
        if crash is not None or ans != mm:
            k = next((i for i in range(min(len(ans), len(mm))) if ans[i] != mm[i]), min(len(ans), len(mm)))
            ctx.disagreement("hl model vs hostlist.c (nth)", "ops %s: impl %s model %s %s" %
                             (q[:k + 1][-2:], ans[k:k + 1], mm[k:k + 1], (crash or "")[-300:]), {"ops": q})


FIND_PINNED = [b"[8-12]", b"[08-10]", b"7,[5-6],a[1-3]", b"[1-3]0,[9-11]", b"42,[40-44],042", b"0,[0-1],00",
               b"n0[1-2],n[01-02]", b"x9[10-11],x[910-911]", b"a[1-3],a[2-4]", b"foo1,foo01,foo001", b"[5-6]-[0-1]",
               # look-up AFTER a poisoning word went through the name parser (hostlist_create leaves errno as it is;
               # hostlist_find / hostname_create never clear it): names inside range records must still be found
               b"foo[1-5],job20240929102030123456789", b"job20240929102030123456789,foo[1-5],bar7",
               b"99999999999999999999999,[8-12],n[08-11]", b"w[0000000000000000000000042,1]-x,foo[1-5]-ib",
               b"b[1,5-7,9,11-12],a[1-3]"]


def tail_value(name):
    """value of the trailing digit run of a name (None: no digit at the end)"""
    k = len(name)
    while k > 0 and name[k - 1:k].isdigit():
        k -= 1
    return int(name[k:]) if k < len(name) else None


def find_check(ctx, hl, cases, dist, cov, only=None):
    """LOOK-UP BY NAME: every name of the expansion is found in the list `hostlist_create` built, at the position
    of its first occurrence (a name denotes the same host whether a range generated it or it was typed as a word:
    what -x and every by-name use rely on).  Names whose numeric tail exceeds MAX_HOST_SUFFIX are left out (the
    library never splits such a tail off: C16's F16-BIGSUFFIX)."""
    rng = ctx.rng
    maxsuf = 1 << 25
    try:
        import re as _re
        from vlib.common import LEAN_DIR
        m = _re.search(r"def MAX_HOST_SUFFIX : Nat := (\d+)", open(os.path.join(LEAN_DIR, "PdshVerif", "Gen", "Hostlist.lean")).read())
        if m:
            maxsuf = int(m.group(1))
    except OSError:
        pass
    todo = []
    if only is not None:
        todo.append((unhx(only["expr_hex"]), None, [unhx(only["name_hex"])]))
    else:
        for s in FIND_PINNED:
            todo.append((s, None, None))
        for s, exp, _ in cases:
            if len(todo) >= (len(FIND_PINNED) + (140 if ctx.quick() else 3000)):
                break
            if exp is None or not exp or len(exp) > 300 or len(s) > 400 or feat_big(s):
                continue
            todo.append((s, exp, None))
    need = [s for s, exp, _ in todo if exp is None]
    sp = dict(zip(need, hl.spec(need))) if need else {}
    seqs = []
    for s, exp, names in todo:
        if exp is None:
            v = parse_spec(sp[s])
            if not v["ok"] or v["note64"] or v.get("more1"):
                continue
            exp = v["hosts1"]
        if not exp:
            continue
        if names is None:
            idx = sorted({0, len(exp) - 1, rng.randrange(len(exp)), rng.randrange(len(exp)), rng.randrange(len(exp))})
            if len(exp) <= 8:
                idx = list(range(len(exp)))
            names = [exp[i] for i in idx]
        names = [n for n in names if n and (tail_value(n) is None or tail_value(n) <= maxsuf)]
        if names:
            seqs.append((s, exp, names, ["create " + hx(s)] + ["find " + hx(n) for n in names]))
    if not seqs:
        return
    from vlib.seqrun import run_batch
    res = run_batch([hl.exe], [q for _, _, _, q in seqs], env=hl.env, timeout=300)
    dist["find"] = 0
    for (s, exp, names, q), (ans, crash) in zip(seqs, res):
        case = {"expr": s[:300].decode("latin1"), "expr_hex": hx(s), "origin": "find"}
        if crash is not None or len(ans) != len(q):
            ctx.offender("find-crash", "hostlist_find on the list built from %r: %s" % (s[:100], (crash or "")[-200:]),
                         dict(case, name_hex=hx(names[0])))
            continue
        for n, a in zip(names, ans[1:]):
            dist["find"] += 1
            cov["evaluations"] += 1
            want = exp.index(n)
            if a != str(want):
                ctx.offender("find-mismatch", "hostlist_find(%r) in the list built from %r answers %s; the name is host "
                             "number %d of the expansion" % (show(n), s[:100], a, want),
                             dict(case, name=show(n), name_hex=hx(n), impl=a, expected=want))
                break


def group_text_len(pre, items):
    """length of `pre[a,b-c,..]`, the text of ONE bracketed group (what hostlist_shift_range /
    hostlist_ranged_string write into their fixed buffers)"""
    return len(pre) + 2 + sum(len(x) for x in items) + max(0, len(items) - 1)


def gen_longgroup(rng, target=None):
    """(text, expected hosts): MANY disjoint numbers / small ranges under ONE prefix, so that the compressed group
    text `pre[..]` is long (around and beyond 1 KiB: fixed 1024-byte buffers in hostlist.c render a group) --
    as one bracket list, or as a run of comma words with the same prefix; sometimes other words around it"""
    pre = rng.choice([b"node", b"n", b"rack-", b"x0y", b"h"])
    style = "wide" if target is not None else rng.choice(["odd", "odd", "wide", "pairs", "padded", "mixedwidth"])
    want = target if target is not None else rng.choice([990, 1010, 1020, 1023, 1024, 1025, 1030, 1100, 1600, 2500])
    items, hosts = [], []
    v = rng.choice([1, 1, 3, 100, 1000, 9990])
    width = rng.choice([3, 4, 5]) if style == "padded" else 0

    def add(t, names):
        items.append(t)
        hosts.extend(names)

    while group_text_len(pre, items) < want - (12 if target is not None else 0) and len(hosts) < 3000:
        if style in ("odd", "padded"):
            t = b"%0*d" % (width, v)
            add(t, [pre + t])
            v += 2
        elif style == "wide":
            t = b"%d" % v
            add(t, [pre + t])
            v += rng.choice([2, 3, 7, 11, 101])
        elif style == "pairs":
            add(b"%d-%d" % (v, v + 1), [pre + b"%d" % v, pre + b"%d" % (v + 1)])
            v += 3
        else:
            w = rng.choice([0, 0, 2, 3, 4]) if v < 90 else 0
            t = b"%0*d" % (w, v)
            add(t, [pre + t])
            v += 2
    if target is not None:
        # one last number with exactly the digits that make the group text `want` bytes long
        need = want - group_text_len(pre, items) - 1
        if need >= len(b"%d" % v) + 1:
            t = b"%d" % (10 ** (need - 1) + 7)
            add(t, [pre + t])
    form = rng.choice(["bracket", "bracket", "bracket", "words"])
    if form == "bracket":
        s = pre + b"[" + b",".join(items) + b"]"
    else:
        s = b",".join(pre + (b"[" + t + b"]" if b"-" in t else t) for t in items)
    if rng.random() < 0.4:
        s = b"alpha," + s + b",omega7"
        hosts = [b"alpha"] + hosts + [b"omega7"]
    return s, hosts, group_text_len(pre, items)


def cli_check(ctx, hl, dist, cov, only=None):
    """the pdsh binary: -Q listing and the hosts actually contacted, against expand₂"""
    rng = ctx.rng
    cli = Cli(ctx)
    if not cli.pdsh:
        return
    gen = WFGen(rng, cli=True, max_hosts=40)
    n = 70 if ctx.quick() else 1500
    cases = []
    fixed = [b"foo[1-2]-[0-1]", b"foo[9-11,007]-[0-1] 12 a3", b"n[08-11]", b"a[1-3],a[2-4]", b"foo1,foo01,foo001",
             # state left over from the previous comma-word (errno, the previous bracket's range table, widths)
             b"job20240929102030123456789,b[1-3]", b"99999999999999999999999 n[08-11],a[1,5-7]",
             b"b[1,5-7,9,11-12],a[1-3],foo[00-02,1,3,5]-ib", b"w[0000000000000000000000042,1]-x,n[1,0000000000000000000000005]-ib0",
             b"a4294967297,a[1-2]"]
    for s in ([only] if only is not None else fixed):
        cases.append((s, None, only is not None and len(only) > 900))
    while len(cases) < n and only is None:
        words, s = gen.expr()
        e2 = expand2(words)
        if len(s) > 3000 or sum(len(x) + 1 for x in e2) > 900 or any(len(x) > 200 for x in e2):
            continue
        cases.append((s, e2, False))
    if only is None:
        # long groups: the compressed text of one bracketed group around / beyond 1 KiB (contacted hosts are compared;
        # the -Q listing is cut at 1 KiB by pdsh itself, its complete names are compared as a prefix)
        dist["cli-longgroup"] = {}
        for k in range(8 if ctx.quick() else 120):
            s, e2, glen = gen_longgroup(rng, target=(1023, 1024, 1025)[k] if k < 3 else None)
            cases.append((s, e2, True))
            b = "<1000" if glen < 1000 else "1000-1023" if glen <= 1023 else "1024-1100" if glen <= 1100 else ">1100"
            dist["cli-longgroup"][b] = dist["cli-longgroup"].get(b, 0) + 1
    strings = [c[0] for c in cases]
    spec = hl.spec(strings)
    model = hl.model(["cli %s %d" % (hx(s), LIMIT) for s in strings])
    for (s, e2, longgroup), sp, m in zip(cases, spec, model):
        v = parse_spec(sp)
        case = {"expr": s.decode("latin1"), "expr_hex": hx(s), "origin": "cli"}
        if not v["ok"] or v["note64"] or v["hosts2"] is None:
            continue
        if e2 is not None and v["hosts2"] != e2:
            ctx.disagreement("Lean string-level spec (expand₂) vs AST-level expander", "expr %r" % s[:200], case)
            continue
        e2 = v["hosts2"]
        dist["cli"] += 1
        cov["evaluations"] += 1
        cls, hosts, trunc = cli.query(s.decode("latin1"))
        # model correspondence of the listing
        mnext = None
        if m.startswith("ok | "):
            mp = m.split(" | ")
            mh = names_field(mp[2])[2]
            mnext = mh if mp[3] == "=" else names_field(mp[3])[2]
            mcls = "ok" if mh else "nohosts"
        elif m.startswith("ub:"):
            mh, mcls = None, "crash"
        elif m == "diverge":
            mh, mcls = None, "timeout"
        else:
            mh, mcls = None, m
        icls = "crash" if cls.startswith("crash") else cls
        if icls != mcls or (hosts is not None and mh is not None and hosts != mh and not trunc):
            ctx.disagreement("hl model (cli) vs pdsh -Q", "expr %r: pdsh %s %s model %s" %
                             (s[:200], cls, (hosts or [])[:6], m[:200]), case)
        if cls != "ok":
            sig = "cli-" + (("crash:bound>=2^64-1" if feat_big(s) else cls) if cls.startswith("crash") or cls == "timeout"
                            else "valid-rejected:" + cls)
            ctx.offender(sig, "pdsh -Q -w on a well-formed expression: %s" % cls, dict(case, pdsh=cls))
            continue
        if trunc and hosts:
            # pdsh cuts the listing: the complete names before the cut are a prefix of the expansion
            hosts = hosts[:-1]
            if hosts != e2[:len(hosts)]:
                i, a, b = first_diff(hosts, e2[:len(hosts)])
                ctx.offender(seq_signature(s, "cli", hosts, e2[:len(hosts)]),
                             "pdsh -Q -w (cut listing) shows %r where the expansion has %r (position %d)" %
                             (show(a), show(b), i), dict(case, position=i, impl_name=show(a), expected_name=show(b)))
        elif hosts != e2 and not trunc:
            i, a, b = first_diff(hosts, e2)
            ctx.offender(seq_signature(s, "cli", hosts, e2),
                         "pdsh -Q -w lists %r where the expansion has %r (position %d; %d vs %d hosts)" %
                         (show(a), show(b), i, len(hosts), len(e2)),
                         dict(case, position=i, impl_name=show(a), expected_name=show(b)))
        if len(e2) <= 12 or longgroup:
            ccls, contacted = cli.contact(s.decode("latin1"))
            dist["cli-contacted-hosts"] = dist.get("cli-contacted-hosts", 0) + len(e2)
            if ccls == "ok" and mnext is not None and contacted != mnext:
                ctx.disagreement("hl model (cli) vs pdsh -R exec", "expr %r: pdsh contacts %s model %s" %
                                 (s[:200], contacted[:6], mnext[:6]), case)
            if ccls != "ok":
                ctx.offender("cli-contact:" + ccls, "pdsh -R exec -w .. echo %%h: %s" % ccls, dict(case, pdsh=ccls))
            elif contacted != e2:
                i, a, b = first_diff(contacted, e2)
                ctx.offender(seq_signature(s, "cli", contacted, e2),
                             "pdsh -R exec -f 1 contacts %r where the expansion has %r (position %d; %d vs %d hosts)" %
                             (show(a), show(b), i, len(contacted), len(e2)),
                             dict(case, position=i, impl_name=show(a), expected_name=show(b), path="exec"))


def exact_line(length, tag=b"h"):
    """a well-formed expression of exactly `length` bytes: comma-separated plain names of ~60 bytes (few hosts per
    KiB: the hosts are really contacted), the last one as long as needed"""
    names, n, i = [], 0, 0
    while True:
        nm = tag + b"%03d" % i + b"q" * 52 + b"%02d" % (i % 100)
        if n + len(nm) + 1 + 3 > length:
            break
        names.append(nm)
        n += len(nm) + 1
        i += 1
    last = length - n
    names.append(tag + b"z" * (last - 1) if last >= 1 else b"")
    s = b",".join(names)
    assert len(s) == length, (len(s), length)
    return s


def gen_xcases(rng, n):
    """(w, x, note): -w W -x X where X names hosts of W's expansion in ANOTHER spelling than W does (a name a range
    generated, typed as a plain word; plain words, typed as a range) -- an expression denotes the same hosts
    wherever it is accepted"""
    pinned = [(b"[8-12]", b"11", "bare-range/plain"), (b"[08-10]", b"[09-10]", "bare-range/range"),
              (b"8,9,10", b"9", "plain/plain"), (b"8,9,10,11", b"[9-10]", "plain/range"),
              (b"7,a[1-3],[5-6]", b"7,5", "mixed"), (b"n[1-4]", b"n[2-3]", "range/range"),
              (b"a[1-3],a[2-4]", b"a2", "repeats"), (b"x[1-2]-[0-1],b,x1-1", b"x1-[1-2],b", "two-bracket"),
              (b"foo1,foo01,foo001", b"foo01", "padding"), (b"[1-3]0,[9-11]", b"20,10", "numeric-suffix"),
              (b"42,[40-44],042", b"42", "numeric-dup"), (b"0,[0-1],00", b"0", "zero"),
              (b"n335544330[1-2]", b"n3355443301", "bigsuffix-one-bracket"),
              (b"n[33554433]0[1-2]", b"n3355443301", "bigsuffix-two-bracket"),
              # exclusions are applied in reverse order of the command line: the poisoning name comes LATER in -x and
              # is parsed FIRST; the name that has to match inside a range record of -w comes after it
              (b"foo[1-5]", b"foo3,job20240929102030123456789", "after-erange-name"),
              (b"foo[1-5]", b"job20240929102030123456789,foo3", "before-erange-name"),
              (b"foo[1-5],job20240929102030123456789", b"foo[2-3]", "erange-name-in-w"),
              (b"99999999999999999999999,[8-12]", b"[9-10]", "erange-numeric-in-w"),
              (b"foo[1-5]-ib", b"w[0000000000000000000000042,1]-x,foo[00-02,1,3,5]-ib", "wide-first-then-mixed-widths")]
    out = list(pinned)
    gen = WFGen(rng, cli=True, max_hosts=25, near_max=False)
    tries = 0
    while len(out) < len(pinned) + n and tries < 40 * n:
        tries += 1
        words, s = gen.expr()
        e2 = expand2(words)
        if not (2 <= len(e2) <= 40) or len(s) > 600 or any(len(h) > 100 or b"#" in h for h in e2) or b"#" in s:
            continue
        style = rng.random()
        if style < 0.6:
            pick = sorted(set(rng.sample(range(len(e2)), rng.randrange(1, max(2, len(e2) // 2 + 1)))))
            x = b",".join(e2[i] for i in pick)
            note = "names-as-plain-words"
        else:
            w = rng.choice(words)
            x = render_word_py(w)
            note = "one-word-of-W"
        if x[:1] in (b"-", b"^", b"/") or not x:
            continue
        out.append((s, x, note))
    return out


def render_word_py(w):
    from vlib.hostlist import render_word
    return render_word(w)


def gen_filecases(rng, n, linebuf):
    """(lines, note): the text of a WCOLL / ^file -- one expression per line; pinned: lines whose length is an exact
    multiple of the reader's piece size (fgets(buf, LINEBUFSIZE)) minus the newline, and their neighbours"""
    out = [([b"a[1-3]", b"  b7 c8,d9", b"", b"[5-6]x"], "small"),
           ([b"n[01-03]-[0-1]", b"12", b"foo1,foo01"], "two-bracket+numeric"),
           # state left over from the previous LINE (each line is one hostlist_push in the same process)
           ([b"job20240929102030123456789", b"b[1-3]", b"n[08-11]"], "line-after-erange-name"),
           ([b"b[1,5-7,9,11-12]", b"a[1-3]", b"w[0000000000000000000000042,1]-x", b"foo[00-02,1,3,5]-ib"], "line-after-bracket")]
    step = max(8, linebuf - 1)
    lens = []
    for k in (1, 2):
        for d in (-1, 0, 1):
            lens.append((k * step - 1 + d, "line=%d*(LINEBUFSIZE-1)-1%+d" % (k, d)))
    for ln, note in lens:
        out.append(([exact_line(ln, b"h"), b"t[1-2]", b"u9"], note))
    out.append(([exact_line(step - 1, b"h"), exact_line(step - 1, b"k"), b"v1"], "two-exact-lines"))
    gen = WFGen(rng, cli=True, max_hosts=12, near_max=False)
    tries = 0
    while len(out) < 11 + n and tries < 40 * n:
        tries += 1
        lines = []
        for _ in range(rng.randrange(1, 5)):
            _, s = gen.expr()
            if b"#" in s or len(s) > 300:
                s = b"w%d" % rng.randrange(100)
            lines.append(rng.choice([b"", b"", b" ", b"\t"]) + s + rng.choice([b"", b"", b" "]))
        out.append((lines, "generated"))
    return out


def context_check(ctx, hl, dist, cov, only=None):
    """the same expressions in the OTHER places that accept them (the property says -w/-x/WCOLL files):
    * -w W -x X: the hosts X denotes are exactly the ones missing from W's expansion;
    * -w ^FILE / WCOLL=FILE: the targets are the expansions of the lines, in order.
    Expected lists come from the string-level Lean spec (expand₂ of each text); pdsh is observed through -Q and,
    where the listing is cut, through the hosts actually contacted."""
    rng = ctx.rng
    cli = Cli(ctx)
    if not cli.pdsh:
        return
    fdir = os.path.join(ctx.scratch, "wcollfiles")
    os.makedirs(fdir, exist_ok=True)
    if only is not None:
        xcases = [(unhx(only["w_hex"]), unhx(only["x_hex"]), "replay")] if only["origin"] == "ctx-x" else []
        fcases = [([unhx(l) for l in only["lines_hex"]], "replay")] if only["origin"] != "ctx-x" else []
    else:
        xcases = gen_xcases(rng, 10 if ctx.quick() else 400)
        fcases = gen_filecases(rng, 6 if ctx.quick() else 200, cli.linebuf())
    dist["ctx-x"] = {}
    dist["ctx-file"] = {}
    # every text through the spec in one batch
    texts = []
    for w, x, _ in xcases:
        texts += [w, x]
    for lines, _ in fcases:
        texts += [l.strip(b" \t") for l in lines]
    spec = dict(zip(texts, hl.spec(texts))) if texts else {}

    def e2(t):
        v = parse_spec(spec[t])
        if not v["ok"] or v["note64"] or v["hosts2"] is None or v.get("more1"):
            return None
        return v["hosts2"]

    for w, x, note in xcases:
        ew, ex = e2(w), e2(x)
        if ew is None or ex is None:
            continue
        gone = set(ex)
        exp = [h for h in ew if h not in gone]
        case = {"origin": "ctx-x", "w": w.decode("latin1"), "x": x.decode("latin1"), "w_hex": hx(w), "x_hex": hx(x),
                "note": note}
        dist["ctx-x"][note] = dist["ctx-x"].get(note, 0) + 1
        cov["evaluations"] += 1
        if not exp:
            cls, hosts, trunc = cli.query_args(["-w", w.decode("latin1"), "-x", x.decode("latin1")])
            if cls != "nohosts":
                ctx.offender("ctx-x-mismatch", "pdsh -w %r -x %r: every host is excluded, pdsh says %s %s" %
                             (w[:80], x[:80], cls, (hosts or [])[:5]), dict(case, pdsh=cls))
            continue
        cls, hosts, trunc = cli.query_args(["-w", w.decode("latin1"), "-x", x.decode("latin1")])
        if cls != "ok":
            ctx.offender("ctx-x-" + cls, "pdsh -Q -w %r -x %r: %s" % (w[:80], x[:80], cls), dict(case, pdsh=cls))
            continue
        if trunc:
            ccls, hosts = cli.contact_args(["-w", w.decode("latin1"), "-x", x.decode("latin1")])
            if ccls != "ok":
                ctx.offender("ctx-x-" + ccls, "pdsh -R exec -w %r -x %r: %s" % (w[:80], x[:80], ccls), dict(case, pdsh=ccls))
                continue
        if hosts != exp:
            i, a, b = first_diff(hosts, exp)
            # narrow class: nothing wanted is missing, and every host that should be gone but is still there was named
            # in -x by a PLAIN WORD whose digit tail exceeds MAX_HOST_SUFFIX (2^25) while the working collective holds
            # it in a range record (second bracket of a two-bracket word): hostname_create() never splits such a tail
            kept = [h for h in hosts if h in gone]
            big = (1 << 25)
            sig = "ctx-x-mismatch"
            if [h for h in hosts if h not in gone] == exp and kept and \
               all((tail_value(h) or 0) > big for h in kept) and w.count(b"[") >= 2:
                sig = "ctx-x-mismatch:bigsuffix+two-bracket"
            ctx.offender(sig, "pdsh -w %r -x %r targets %r where (expansion of -w) minus (expansion of -x) "
                         "has %r (position %d; %d vs %d hosts)" % (w[:80], x[:80], show(a), show(b), i, len(hosts), len(exp)),
                         dict(case, position=i, impl_name=show(a), expected_name=show(b)))
    for k, (lines, note) in enumerate(fcases):
        exps = [e2(l.strip(b" \t")) for l in lines]
        if any(e is None for e in exps):
            continue
        exp = [h for e in exps for h in e]
        if not exp:
            continue
        path = os.path.join(fdir, "f%d" % k)
        with open(path, "wb") as f:
            f.write(b"".join(l + b"\n" for l in lines))
        case = {"origin": "ctx-file", "lines": [l[:80].decode("latin1") + ("..(%d bytes)" % len(l) if len(l) > 80 else "")
                                               for l in lines],
                "lines_hex": [hx(l) for l in lines], "note": note}
        dist["ctx-file"][note.split("=")[0]] = dist["ctx-file"].get(note.split("=")[0], 0) + 1
        for how in (("-w", "^" + path), None):
            args, env = ([how[0], how[1]], None) if how else ([], {"WCOLL": path})
            cov["evaluations"] += 1
            where = "-w ^FILE" if how else "WCOLL=FILE"
            cls, hosts, trunc = cli.query_args(args, env_extra=env)
            if cls != "ok":
                ctx.offender("ctx-file-" + cls, "pdsh -Q %s (%s): %s" % (where, note, cls), dict(case, how=where, pdsh=cls))
                continue
            if trunc:
                ccls, hosts = cli.contact_args(args, env_extra=env)
                if ccls != "ok":
                    ctx.offender("ctx-file-" + ccls, "pdsh -R exec %s (%s): %s" % (where, note, ccls),
                                 dict(case, how=where, pdsh=ccls))
                    continue
            if hosts != exp:
                i, a, b = first_diff(hosts, exp)
                ctx.offender("ctx-file-mismatch", "pdsh %s (%s) targets %r where the expansion of the file's lines has %r "
                             "(position %d; %d vs %d hosts)" % (where, note, show(a), show(b), i, len(hosts), len(exp)),
                             dict(case, how=where, position=i, impl_name=show(a), expected_name=show(b)))


def load_corpus():
    d = os.path.join(VERIF_CORPUS, "C01")
    out = []
    if os.path.isdir(d):
        for f in sorted(os.listdir(d)):
            for l in open(os.path.join(d, f), "rb"):
                l = l.rstrip(b"\n")
                if l and not l.startswith(b"#"):
                    out.append(l)
    return out
