"""C19  dshbak regroups output losslessly; its host headers mean what pdsh means.

proof:          lean/PdshVerif/Props/C19.lean (model of scripts/dshbak refines Dshbak/Spec.lean; the
                compressed header denotes exactly its group under the small expander)
correspondence: real `perl scripts/dshbak [-c | -d DIR]` (from /repo's working tree, several
                PERL_HASH_SEEDs) vs `pdshmodel dshbak model` on generated interleavings of labelled
                lines: blocks compared as a set, header texts compared modulo the order of the suffix
                groups (Perl hash order), the model's expansion of every header compared with the real
                `pdsh -Q -w HEADER` of the scratch build
oracle:         `pdshmodel dshbak spec` (Dshbak/Spec.lean) applied to the REAL output, each real header
                replaced by what the real pdsh expands it to
"""
import json
import os
import re
import subprocess
from concurrent.futures import ThreadPoolExecutor

from vlib.common import hexs

LEVEL = "proof"
PROPS = "PdshVerif.Props.C19"
MANIFEST = dict(
    engine="dshbak",
    technique="Lean 4 proof (model of the Perl script refines the regrouping spec; compressed header denotes "
              "its group) + differential correspondence of scripts/dshbak and `pdsh -Q -w HEADER` against the "
              "compiled model",
    text="Theorems in lean/PdshVerif/Props/C19.lean about a hand-written model of scripts/dshbak (line matcher, "
         "per-tag lists, -c grouping, header compression) for all inputs and every Perl hash order; the real "
         "script is run on generated interleavings and compared block by block with the model, every real header "
         "is expanded by the real pdsh and compared with the group, and the real output is judged by the "
         "specification, which yields the failing input as replay.",
    design_ref="DESIGN.md section 5 C19",
    note="Lean 4.33 kernel; axioms propext/Classical.choice/Quot.sound at most (audited per theorem every run); "
         "Perl semantics (regex engine, stable merge sort, hash iteration, IV arithmetic) are modelled and tied "
         "to the script only by differential execution; hostlist.c is NOT modelled here: header meaning is "
         "decided by the real `pdsh -Q` of a scratch build and mirrored by a small expander for the emitted "
         "sub-language; harness, generators, perl trusted")
DIV = "----------------"
NAMECH = "abcdefghijklmnopqrstuvwxyz0123456789.-_"


# ------------------------------------------------------------------ generators
def num_reps(rng, v):
    """one or several ways of writing v: natural, zero padded to 2..4"""
    nat = str(v)
    reps = [nat]
    for w in (2, 3, 4):
        if w > len(nat):
            reps.append(nat.zfill(w))
    k = rng.choices([1, 2, 3], [70, 22, 8])[0]
    return rng.sample(reps, min(k, len(reps)))


def gen_hosts(rng, stream):
    """a host-name set inside HostDom (chars a-z0-9._-, first char alphanumeric)"""
    hosts = set()
    nfam = rng.choices([1, 2, 3], [55, 35, 10])[0]
    for _ in range(nfam):
        fam = rng.choices(["pad", "numonly", "nodigit", "fixedpad"], [50, 15, 15, 20])[0]
        suffix = rng.choice(["", "", "", "-ib", ".dom", "x", "-", "_e0x"])
        if fam == "nodigit":
            for _ in range(rng.randrange(1, 4)):
                hosts.add(rng.choice(["foo", "bar", "login", "a-b", "x", "mgmt.site"]))
            continue
        prefix = "" if fam == "numonly" else rng.choice(["n", "node", "r2d", "c-", "x.y", "a1b", "n", "rack3n"])
        if fam == "numonly" and rng.random() < 0.4:
            hosts.add("0")          # the name `0` (Perl: the only non-empty string that is false)
        lo = rng.choice([0, 0, 1, 7, 8, 9, 95, 97, 98, 99, 998, rng.randrange(0, 1200),
                         rng.choice([10 ** 9, 10 ** 13 + 5, 99999, 999999999999])])
        span = rng.randrange(1, 8)
        width = rng.choice([2, 3, 4]) if fam == "fixedpad" else None
        for v in range(lo, lo + span):
            if rng.random() < 0.2:
                continue
            if width:
                reps = [str(v).zfill(width)]
            else:
                reps = num_reps(rng, v)
            for r in reps:
                hosts.add(prefix + r + suffix)
    if stream == "emptystem":
        s = rng.choice(["foo", "x", "-ib", "ab"])
        s = s if s[0].isalnum() else "q" + s
        hosts.add(s)
        for d in rng.sample(["0", "1", "2", "00", "01", "10"], rng.randrange(1, 4)):
            hosts.add(d + s)
    hosts = [h for h in hosts if h and h != DIV and (h[0].isalnum())]
    rng.shuffle(hosts)
    hosts = hosts[:14]
    if not hosts:
        hosts = ["n1"]
    return hosts


LINEPOOL = ["", "ok", "x y", " lead", "a: b", "::", "----", "tail ", "\tt", "0", "up 3 days", "e\xe9", "cr\r",
            "done", "1", "  ", "load: 0.1", "-", DIV]


def gen_case(rng, stream):
    mode = rng.choices(["c", "n", "d"], [60, 25, 15])[0]
    if stream == "emptystem":
        mode = "c"
    hosts = gen_hosts(rng, stream)
    if stream == "odd":
        # outside HostDom: correspondence with the model only (no pdsh expansion, no oracle on headers)
        mode = rng.choice(["c", "n"])
        hosts = list({rng.choice(["a:b", ":", ":x", "[1]", "a,b", "n[1-2]", "@", "x@y1", "-lead", ".dot", "^f", "a]", "1[", "n1,"])
                      for _ in range(rng.randrange(1, 5))} | set(hosts[:3]))
    nb = rng.choices([1, 2, 3, 4], [35, 35, 20, 10])[0]
    pool = [l for l in LINEPOOL if not (l == DIV and mode != "d")]
    templates = []
    for _ in range(nb):
        templates.append([rng.choice(pool) for _ in range(rng.choices([1, 2, 3, 5], [45, 30, 20, 5])[0])])
    per_host = {}
    for h in hosts:
        if rng.random() < 0.12:
            per_host[h] = [rng.choice(pool) for _ in range(rng.randrange(1, 4))]
        else:
            per_host[h] = list(rng.choice(templates))
    # interleave, keeping each host's own order
    cursors = {h: 0 for h in hosts}
    recs = []
    live = [h for h in hosts]
    while live:
        h = rng.choice(live)
        recs.append((h, per_host[h][cursors[h]]))
        cursors[h] += 1
        if cursors[h] == len(per_host[h]):
            live.remove(h)
    fancy = rng.random() < 0.3
    out = bytearray()
    noise = rng.random() < 0.2
    for (h, b) in recs:
        if noise and rng.random() < 0.15:
            out += rng.choice(["", "no label here", "   ", "word", "\t"]).encode("latin-1") + b"\n"
        lead = rng.choice(["", " ", "\t", "  "]) if fancy else ""
        mid = rng.choice(["", " ", "\t ", "\x0b"]) if fancy else ""
        sp = " " if (b.startswith(" ") or not fancy or rng.random() < 0.6) else ""
        out += (lead + h + mid + ":" + sp + b + "\n").encode("latin-1")
    if stream == "unterminated":
        out = out[:-1]
    case = {"stream": stream, "mode": mode, "recs": recs, "input": bytes(out),
            "hash_seed": rng.choice([0, 1, 2, 7, 12345, rng.randrange(1 << 30)])}
    if rng.random() < 0.12:
        split_into_files(case, [rng.randrange(0, 1000) for _ in range(3)], rng.random() < 0.7, rng.random() < 0.2)
    return case


def split_into_files(case, cuts, unterminate, empty_file):
    """`dshbak out1 out2 ...`: the same lines given as two to four FILE ARGUMENTS; an earlier file may end without its
    newline (pdsh writes the unterminated tail of remote output like that) — a line is a line all the same"""
    lines = case["input"].split(b"\n")
    tail = lines.pop()
    lines = [l + b"\n" for l in lines] + ([tail] if tail else [])
    if len(lines) < 2:
        return
    at = sorted({1 + c % (len(lines) - 1) for c in cuts})
    files, prev = [], 0
    for a in at + [len(lines)]:
        files.append(b"".join(lines[prev:a]))
        prev = a
    if unterminate:
        files = [f[:-1] if (i < len(files) - 1 and i % 2 == 0 and f.endswith(b"\n") and not f.endswith(b"\n\n") and f != b"\n") else f
                 for i, f in enumerate(files)]
    if empty_file:
        files.insert(1, b"")
    case["files"] = files


def subset_cases(universe, body="x"):
    """thorough: every non-empty subset of a small universe of names, all with the same output, -c"""
    out = []
    n = len(universe)
    for mask in range(1, 1 << n):
        hosts = [universe[i] for i in range(n) if mask >> i & 1]
        recs = [(h, body) for h in hosts]
        inp = "".join("%s: %s\n" % r for r in recs).encode()
        stream = "plain"
        digitfree = [h for h in hosts if not any(c.isdigit() for c in h)]
        if any(o != s and o.endswith(s) and o[:len(o) - len(s)].isdigit() for s in digitfree for o in hosts):
            stream = "emptystem"
        out.append({"stream": stream, "mode": "c", "recs": recs, "input": inp, "hash_seed": mask % 5})
    return out


# ------------------------------------------------------------------ pinned cases: run FIRST in every run, no randomness
def pinned_cases():
    """the classes every quick run must cover, enumerated: label shapes (dots, digits, dashes, zero padding, 09->10 and
    099->100 bridges, mixed widths, numeric-only names, name 0, hosts that differ only in the suffix, several prefixes
    under one suffix), body shapes (empty, differing only in trailing blanks / CR / one line anywhere, prefix of one
    another, starting with a colon, holding `: `, very long), an unterminated final line, blanks around the label —
    each in report, -c and -d mode under two hash seeds"""
    out = []

    def rr(per_host):
        """round-robin interleaving that keeps every host's own order"""
        recs, i = [], 0
        hosts = list(per_host)
        while any(i < len(per_host[h]) for h in hosts):
            for h in hosts:
                if i < len(per_host[h]):
                    recs.append((h, per_host[h][i]))
            i += 1
        return recs

    def add(tag, per_host, modes="cnd", stream="plain", fmt="%s: %s\n", unterminated=False):
        recs = rr(per_host)
        inp = "".join(fmt % r for r in recs).encode("latin-1")
        if unterminated:
            inp = inp[:-1]
        for m in modes:
            for seed in (0, 12345):
                out.append({"stream": "unterminated" if unterminated else stream, "mode": m, "recs": recs, "input": inp,
                            "hash_seed": seed, "pin": tag})

    same = lambda hosts, body=("up",): {h: list(body) for h in hosts}
    # labels
    add("labels:dots-dashes-digits", same(["n1.dom", "n2.dom", "a-1", "a-2", "r2d2", "r2d3", "10.0.0.1", "10.0.0.2", "x.y_z-1"]))
    add("labels:bridge-09-10", same(["n08", "n09", "n10", "n11", "n7"]))
    add("labels:bridge-099-100", same(["n098", "n099", "n100", "n101", "n0998", "n0999", "n1000", "n1001"]))
    add("labels:mixed-widths", same(["n1", "n01", "n001", "n2", "n02", "n002", "n3", "n010", "n10"]))
    add("labels:numeric-only", same(["007", "008", "009", "010", "0", "1", "2", "00"]))
    add("labels:suffix-only-differs", same(["n1-ib", "n1-eth", "n2-ib", "n2-eth", "n1", "n2", "n1-", "n2-"]))
    add("labels:two-prefixes-one-suffix", same(["ca1-ib", "cb1-ib", "ca2-ib", "cb2-ib", "cb3-ib", "gw1-ib", "ca1"]))
    add("labels:two-prefixes-no-suffix", same(["ca1", "cb1", "ca2", "cb2", "login"]))
    add("labels:digits-inside-prefix", same(["r2d1", "r2d2", "r3d1", "r3d2", "a1b01x", "a1b02x"]))
    add("labels:digit-free", same(["foo", "bar", "login", "a-b"]))
    add("labels:long", same(["h" * 300 + "1", "h" * 300 + "2"]), modes="cn")       # (NAME_MAX: not as file names)
    add("labels:case-and-underscore", same(["N1", "n1", "N2", "n2", "_x1", "_x2"]))
    add("labels:big-numbers", same(["n999999999999998", "n999999999999999", "n1000000000000000", "m18446744073709551613"]))
    # bodies: what must NOT be merged, and what must
    add("bodies:trailing-blank-differs", {"a1": ["x"], "a2": ["x "], "a3": ["x\t"], "a4": ["x"], "a5": ["x  "]})
    add("bodies:empty-vs-blank", {"a1": [""], "a2": [" "], "a3": [""], "a4": ["", ""], "a5": []} | {"a5": ["  "]})
    add("bodies:cr-differs", {"a1": ["x\r"], "a2": ["x"], "a3": ["x\r"], "a4": ["\r"], "a5": [""]})
    add("bodies:same-last-line", {"a1": ["one", "done"], "a2": ["two", "done"], "a3": ["one", "done"], "a4": ["", "done"]})
    add("bodies:same-first-line", {"a1": ["hdr", "1"], "a2": ["hdr", "2"], "a3": ["hdr", "1"]})
    add("bodies:middle-differs", {"a1": ["a", "b", "c"], "a2": ["a", "B", "c"], "a3": ["a", "b", "c"], "a4": ["a", "", "c"]})
    add("bodies:prefix-of-another", {"a1": ["a", "b"], "a2": ["a", "b", "c"], "a3": ["a"], "a4": ["a", "b"], "a5": ["a", "b", ""]})
    add("bodies:permuted-lines", {"a1": ["a", "b"], "a2": ["b", "a"], "a3": ["a", "b"]})
    add("bodies:repeated-lines", {"a1": ["a", "a"], "a2": ["a"], "a3": ["a", "a", "a"], "a4": ["a", "a"]})
    add("bodies:leading-colon", {"n1": ["::1 localhost", ":wq"], "n2": [" : note", ": ${X:=1}"], "n3": ["::1 localhost", ":wq"],
                                  "n4": [":", "::"]})
    add("bodies:colon-blank-inside", {"n1": ["eth0: flags=1", "k: v: w"], "n2": ["eth0: flags=1", "k: v: w"], "n3": ["a :b", "n9: x"]})
    add("bodies:label-like", {"n1": ["n2: x"], "n2": ["x"], "n3": ["n2: x"]})
    add("bodies:very-long", {"n1": ["y" * 100000, "z"], "n2": ["y" * 100000, "z"], "n3": ["y" * 99999, "z"]})
    add("bodies:many-lines", {"n1": [str(i) for i in range(300)], "n2": [str(i) for i in range(300)],
                              "n3": [str(i) for i in range(299)] + ["x"]})
    add("bodies:binary", {"n1": ["\x01\x7f\xff\xe9"], "n2": ["\x01\x7f\xff\xe9"], "n3": ["\x01\x7f\xff\xe8"]})
    add("bodies:divider-look-alike", {"n1": ["---------------"], "n2": ["-----------------"], "n3": ["- - -"]})
    # the line format
    add("format:no-blank-after-colon", {"n1": ["x", "y"], "n2": ["x", "y"]}, fmt="%s:%s\n")
    add("format:blanks-around-label", {"n1": ["x"], "n2": ["x"], "n3": ["y"]}, fmt="  %s \t: %s\n")
    add("format:two-blanks-after-colon", {"n1": [" x"], "n2": [" x"], "n3": ["x"]}, fmt="%s: %s\n")
    add("format:crlf", {"n1": ["x\r", "y\r"], "n2": ["x\r", "y\r"], "n3": ["x\r", "z\r"]})
    add("format:unterminated-last", {"n1": ["x", "y"], "n2": ["x", "y"], "n3": ["x", "tail"]}, unterminated=True)
    add("format:unterminated-only-line", {"n1": ["x"]}, unterminated=True)
    add("format:one-host-one-line", {"n1": ["x"]})
    # the input as FILE ARGUMENTS: every cut of a small input into 2 and 3 files, the earlier files with and without
    # their final newline; an empty file among them; a single file argument
    recs = [("n1", "a"), ("n2", "a"), ("n1", "b"), ("n2", "b"), ("n3", "z")]
    lines = [("%s: %s\n" % r).encode() for r in recs]
    cuts = [[i] for i in range(1, len(lines))] + [[1, 3], [2, 4], [2, 3]]
    for cut in cuts:
        for unterm in (True, False):
            files, prev = [], 0
            for a in cut + [len(lines)]:
                files.append(b"".join(lines[prev:a]))
                prev = a
            if unterm:
                files = [f[:-1] if i < len(files) - 1 else f for i, f in enumerate(files)]
            for m in "cnd":
                out.append({"stream": "plain", "mode": m, "recs": recs, "input": b"".join(lines), "hash_seed": 0,
                            "files": files, "pin": "files:cut%s:%s" % ("-".join(map(str, cut)), "unterminated" if unterm else "terminated")})
    for m in "cnd":
        out.append({"stream": "plain", "mode": m, "recs": recs, "input": b"".join(lines), "hash_seed": 0,
                    "files": [b"".join(lines[:2])[:-1], b"", b"".join(lines[2:])], "pin": "files:empty-file-between"})
        out.append({"stream": "plain", "mode": m, "recs": recs, "input": b"".join(lines), "hash_seed": 0,
                    "files": [b"".join(lines)], "pin": "files:single"})
        out.append({"stream": "unterminated", "mode": m, "recs": recs, "input": b"".join(lines)[:-1], "hash_seed": 0,
                    "files": [b"".join(lines[:3])[:-1], b"".join(lines[3:])[:-1]], "pin": "files:all-unterminated"})
    return out


DLABELS = ["x", "./x", "a/b", "../esc", ".", "..", "x/", "a//b", ".hid", "..two", "y", "/x", "sub/z", "sub", "x/../y",
           "sub/../x", "sub/./z"]


def option_cases(ctx, script, judge, cov, dist):
    """the option block (-h, -c, -d DIR, -f in every combination x DIR an existing directory / missing / a plain file /
    named `0`) against `Dshbak/Options.lean: plan`, the per-file output against the specification, and -d with labels
    that are not plain file names (F19-DIRLABEL)"""
    import shutil
    work = os.path.join(ctx.scratch, "dshbak-opt")
    shutil.rmtree(work, ignore_errors=True)
    os.makedirs(work)
    recs = [("n1", "a"), ("n2", "a"), ("n10", "b"), ("n1", "c"), ("n2", "c")]
    inp = "".join("%s: %s\n" % r for r in recs).encode()
    lines_of = {}
    for t, b in recs:
        lines_of.setdefault(t, []).append(b)
    env = {"PATH": "/usr/bin:/bin", "PERL_HASH_SEED": "0", "PERL_PERTURB_KEYS": "0"}

    def prepare(cd, dname, state):
        os.makedirs(cd)
        if dname is not None:
            tgt = os.path.join(cd, dname) if dname else None
            if tgt and state == "dir":
                os.makedirs(tgt)
            elif tgt and state == "notdir":
                open(tgt, "w").close()

    def observe(cd, argv, data, dname, attempt=0):
        try:
            p = subprocess.run(["perl", script] + argv, input=data, stdout=subprocess.PIPE, stderr=subprocess.PIPE, env=env,
                               cwd=cd, timeout=120)
        except subprocess.TimeoutExpired:
            if attempt == 0:
                return observe(cd, argv, data, dname, attempt=1)
            return {"rc": "timeout", "plan": "timeout", "files": {}, "err": "", "out": ""}
        err = p.stderr.decode("latin-1")
        out = p.stdout.decode("latin-1")
        files = {}
        for r, ds, fs in os.walk(cd):
            for f in fs:
                fp = os.path.join(r, f)
                files[os.path.relpath(fp, cd)] = open(fp, "rb").read().decode("latin-1")
        return {"rc": p.returncode, "err": err[-300:], "out": out, "files": files}

    # ---- the model's default is the script since 8474bb4 (`defined $opt_d`); probe for the older truth test (F19-DIRZERO, a
    # `fixed` finding: `-d 0` is then reported as a VIOLATION).  Is F19-DIRLABEL (open) repaired?  (probed)
    cd = os.path.join(work, "probe0")
    prepare(cd, "0", "dir")
    r0 = observe(cd, ["-d", "0"], inp, "0")
    fix_d0 = 1 if any(k.startswith("0/") for k in r0["files"]) else 0
    cd = os.path.join(work, "probe1")
    prepare(cd, "D", "dir")
    r1 = observe(cd, ["-d", "D"], b"a/b: x\nz: y\n", "D")
    fix_label = r1["rc"] not in (0, "timeout") and not r1["files"]
    dist["script_form"] += ("+DIRZERO-repaired" if fix_d0 else "") + ("+DIRLABEL-repaired" if fix_label else "")
    # ---- the option matrix
    k = 0
    olines, ocases = [], []
    for flags in ("", "c", "h", "f", "cf", "ch", "hf", "chf"):
        for dname, state in ((None, "dir"), ("out", "dir"), ("out", "missing"), ("out", "notdir"), ("new/deep", "missing"),
                             ("0", "dir"), ("0", "missing"), ("", "notdir"), ("00", "dir"), ("0.0", "missing")):
            for order in (0, 1):
                argv = ["-" + f for f in flags]
                if dname is not None:
                    argv = (argv + ["-d", dname]) if order == 0 else (["-d", dname] + argv)
                elif order == 1:
                    continue
                cd = os.path.join(work, "o%d" % k)
                k += 1
                prepare(cd, dname, state)
                ocases.append((flags, dname, state, argv, cd))
                olines.append("o %s %s %s %s\n" % ("d" if fix_d0 else "t", flags or "-", "~" if dname is None else (hx(dname) if dname else "-"),
                                                   state))
    answers = ctx.model("dshbak", "".join(olines), args=["model"])
    dist["option_plans"] = {}
    for (flags, dname, state, argv, cd), want in zip(ocases, answers):
        r = observe(cd, argv, inp, dname)
        cov["evaluations"] += 1
        blocks, _ = parse_report(r["out"])
        infiles = {kf[len(dname) + 1:]: v for kf, v in r["files"].items() if dname and kf.startswith(dname + "/")}
        if r["rc"] == "timeout":
            got = "timeout"
        elif r["rc"] == 0 and "Usage:" in r["err"] and not r["out"]:
            got = "usage"
        elif r["rc"] == 1 and "Fatal" in r["err"] and not r["out"]:
            got = "fatal"
        elif r["rc"] == 0 and infiles and not r["out"]:
            got = "perfile%d" % (0 if state == "dir" else 1)
        elif r["rc"] == 0 and len(blocks) == 2:
            got = "coalesced"
        elif r["rc"] == 0 and len(blocks) == 3:
            got = "report"
        else:
            got = "other(rc=%s)" % r["rc"]
        dist["option_plans"][got] = dist["option_plans"].get(got, 0) + 1
        case = {"argv": argv, "dir_state": state, "input_text": inp.decode(), "cmd": "perl scripts/dshbak %s < input" % " ".join(argv)}
        if got != want:
            ctx.disagreement("dshbak option block vs Dshbak/Options.lean", "argv %r (DIR %s): real %s, model %s; stderr %r" %
                             (argv, state, got, want, r["err"][-120:]), case)
        # ---- oracle (what the property text says, independent of the model)
        wants_files = dname is not None and "h" not in flags and "c" not in flags and (state == "dir" or ("f" in flags and state == "missing"))
        if got in ("usage", "fatal", "timeout") or got.startswith("other"):
            if got == "timeout" or got.startswith("other"):
                ctx.offender("options:garbled", "argv %r: %s %r" % (argv, got, r["err"][-150:]), {"case": case})
            elif r["files"] and any(v for kf, v in r["files"].items()) and got == "fatal":
                ctx.offender("options:refused-after-writing", "argv %r: exit 1 but files were written: %r" %
                             (argv, sorted(r["files"])[:5]), {"case": case})
            continue
        if "c" in flags and got.startswith("perfile"):
            # -c was asked for and is silently dropped: nothing is merged, files are written instead
            ctx.offender("options:-c-ignored", "argv %r: -c given, but the per-file output ran (%s)" % (argv, sorted(r["files"])[:4]),
                         {"case": case})
        if wants_files:
            want_files = {t: "".join(l + "\n" for l in ls) for t, ls in lines_of.items()}
            if infiles != want_files:
                sig = "per-file:-d-ignored(name-is-false-in-perl)" if (dname in ("0", "") and not infiles) else "per-file:files"
                ctx.offender(sig, "argv %r: -d %r given, expected one file per host %r, found %r (stdout %d bytes)" %
                             (argv, dname, sorted(want_files), sorted(r["files"]), len(r["out"])), {"case": case})
        elif got == "report" or got == "coalesced":
            got_blocks = {h: b for h, b in blocks}
            if got == "report" and got_blocks != lines_of:
                ctx.offender("regroup:report", "argv %r: report %r" % (argv, blocks[:4]), {"case": case})
            if got == "coalesced" and got_blocks != {"n[1-2]": ["a", "c"], "n10": ["b"]}:
                ctx.offender("regroup:coalesced", "argv %r: report %r" % (argv, blocks[:4]), {"case": case})
            if "c" in flags and got != "coalesced":
                ctx.offender("options:-c-ignored", "argv %r: %s" % (argv, got), {"case": case})
    # ---- -d with labels that are not plain file names
    import itertools
    combos = [list(c) for c in itertools.combinations(DLABELS, 2)] + [DLABELS]
    fl = ctx.model("dshbak", "f %s\n" % ",".join(hx(t) for t in DLABELS), args=["model"])[0]
    plain = {t for t, b in zip(DLABELS, fl) if b == "1"}
    dist["dlabel"] = {"cases": 0, "all-plain": 0, "refused-up-front": 0, "delivered": 0, "violations": 0}
    tree_cases, tree_lines = [], []
    rep_bits = int(judge.repaired)
    for ci, labels in enumerate(combos):
        for hseed in (0, 7):
            cd = os.path.join(work, "l%d_%d" % (ci, hseed))
            os.makedirs(os.path.join(cd, "P", "D", "sub"))       # (DIR holds a sub-directory `sub`)
            if "y" in labels:                                    # (and a file of an earlier run: `>` truncates it)
                with open(os.path.join(cd, "P", "D", "y"), "w") as fh:
                    fh.write("stale line of an earlier run\n" * 3)
            lrecs = [(t, "line-%d-%s" % (i, j)) for j in ("a", "b") for i, t in enumerate(labels)]
            data = "".join("%s: %s\n" % r for r in lrecs).encode()
            env["PERL_HASH_SEED"] = str(hseed)
            r = observe(os.path.join(cd, "P"), ["-d", "D"], data, "D")
            cov["evaluations"] += 1
            dist["dlabel"]["cases"] += 1
            want = {t: "line-%d-a\nline-%d-b\n" % (i, i) for i, t in enumerate(labels)}
            case = {"mode": "d", "labels": labels, "hash_seed": hseed, "input_text": data.decode(),
                    "cmd": "mkdir -p P/D && cd P && PERL_HASH_SEED=%d perl scripts/dshbak -d D < input" % hseed}
            allplain = all(t in plain for t in labels)
            dist["dlabel"]["all-plain"] += allplain
            # what got where: real file (normalised path relative to P) -> content
            got = {os.path.normpath(kf): v for kf, v in r["files"].items()}
            if allplain or not fix_label:
                # the order of `keys %lines` is Perl's: ask the same perl, same hash seed, same insertion order, and - like the
                # script's `my %lines = &process_lines ()` - through a hash built in a sub and copied on return
                ko = subprocess.run(["perl", "-e", "sub f { my %l = (); push(@{$l{$_}}, 1) for @ARGV; return %l; } my %m = &f (); print join(\"\\n\", keys %m), \"\\n\";"] +
                                    labels, stdout=subprocess.PIPE, env=env).stdout.decode("latin-1").split("\n")[:-1]
                tree_cases.append((labels, hseed, r["rc"], got, case, ko))
                init = ("%s=%s" % (hx("P/D/y"), ",".join([hx("stale line of an earlier run")] * 3))) if "y" in labels else "."
                tree_lines.append("w %d %s %s %s %s %s %s\n" % (rep_bits, hx("D"), hx("P"), ",".join(hx(x) for x in ("P", "P/D", "P/D/sub")),
                                                              ",".join(hx(k) for k in ko), hx(data.decode("latin-1")), init))
            bad = None
            if r["rc"] == 0:
                # every label must have a file of its own, inside D, holding its lines
                place = {t: os.path.normpath(os.path.join("D", t)) for t in labels}
                if len(set(place.values())) < len(labels):
                    twice = sorted(t for t in labels if list(place.values()).count(place[t]) > 1)
                    bad = ("shared-file", "labels %r are written to one file: the lines of all but one are lost, exit 0" % twice)
                elif any(not p.startswith("D" + os.sep) for p in place.values()):
                    bad = ("outside-DIR", "label %r is written outside DIR" % [t for t in labels if not place[t].startswith("D" + os.sep)])
                elif any(got.get(place[t]) != want[t] for t in labels):
                    bad = ("lost", "files %r do not hold their labels' lines" % sorted(got))
                else:
                    dist["dlabel"]["delivered"] += 1
            elif r["rc"] == 1 and "Fatal" in r["err"]:
                if got:
                    bad = ("aborted-midway", "exit 1 (%s) after %d of %d files were written" % (r["err"].strip()[-80:], len(got), len(labels)))
                else:
                    dist["dlabel"]["refused-up-front"] += 1
            else:
                bad = ("crash", "rc=%s %r" % (r["rc"], r["err"][-100:]))
            if "sub" in labels:
                # DIR already holds a DIRECTORY of that name: the open fails (EISDIR) and the script says so with exit 1 - an
                # I/O error outside the property's domain, not a lost line; model correspondence only (tree model below)
                bad = None
                dist["dlabel"]["label-names-existing-directory(model only)"] = \
                    dist["dlabel"].get("label-names-existing-directory(model only)", 0) + 1
            if bad:
                dist["dlabel"]["violations"] += 1
                if allplain:
                    ctx.offender("per-file:" + bad[0], bad[1], {"case": case, "files": sorted(got)})
                else:
                    ctx.offender("per-file:label-is-a-path:" + bad[0], bad[1], {"case": case, "files": sorted(got)})
            # correspondence: plain labels -> one file per label (Props/C19 per_file_spec); a repaired script refuses others
            if allplain and "sub" not in labels and (r["rc"] != 0 or got != {os.path.join("D", t): want[t] for t in labels}):
                ctx.disagreement("dshbak -d vs model (plain labels)", "labels %r: rc=%s files %r" % (labels, r["rc"], sorted(got)), case)
            if not allplain and fix_label and (r["rc"] != 1 or got):
                ctx.disagreement("dshbak -d vs model (label check)", "labels %r: rc=%s files %r" % (labels, r["rc"], sorted(got)), case)
    # ---- correspondence with the directory-tree model (Dshbak/DirTree.lean `runWrites`): the exit status and EVERY file
    # the script leaves behind (which labels share a file and whose lines survive, what lands outside DIR, where the
    # run ends), for plain and for path labels alike
    dist["dlabel"]["tree_model_cases"] = len(tree_cases)
    if tree_lines:
        answers = ctx.model("dshbak", "".join(tree_lines), args=["model"])
        for (labels, hseed, rc, got, case, ko), ans in zip(tree_cases, answers):
            st, _, fl = ans.partition(" ")
            want = {}
            if fl and fl != ".":
                for e in fl.split(";"):
                    n, _, ls = e.partition("=")
                    node = bytes.fromhex(n).decode("latin-1")
                    want[os.path.relpath(node, "P")] = "".join(
                        ("" if x == "-" else bytes.fromhex(x).decode("latin-1")) + "\n" for x in ([] if ls == "~" else ls.split(",")))
            wrc = {"ok": 0, "fatal": 1}.get(st)
            if wrc != rc or want != got:
                ctx.disagreement("dshbak -d vs Dshbak/DirTree.lean", "labels %r (keys %r): real rc=%s files %r, model %s files %r" %
                                 (labels, ko, rc, sorted(got.items())[:6], st, sorted(want.items())[:6]), case)
    shutil.rmtree(work, ignore_errors=True)


# ------------------------------------------------------------------ running the real things
def run_dshbak(script, case, workdir, idx, attempt=0):
    env = {"PATH": "/usr/bin:/bin", "PERL_HASH_SEED": str(case["hash_seed"]), "PERL_PERTURB_KEYS": "0"}
    cmd = ["perl", script]
    ddir = None
    if case["mode"] == "c":
        cmd.append("-c")
    elif case["mode"] == "d":
        ddir = os.path.join(workdir, "d%d" % idx)
        os.makedirs(ddir, exist_ok=True)
        for f in os.listdir(ddir):
            os.unlink(os.path.join(ddir, f))
        cmd += ["-d", ddir]
    data = case["input"]
    if case.get("files") is not None:
        data = b""
        for k, fb in enumerate(case["files"]):
            fp = os.path.join(workdir, "in%d_%d" % (idx, k))
            with open(fp, "wb") as fh:
                fh.write(fb)
            cmd.append(fp)
    try:
        p = subprocess.run(cmd, input=data, stdout=subprocess.PIPE, stderr=subprocess.PIPE, env=env, timeout=120)
    except subprocess.TimeoutExpired:
        if attempt == 0:            # a timeout alone (a loaded machine) is tried once more before it is reported
            return run_dshbak(script, case, workdir, idx, attempt=1)
        return {"rc": "timeout", "blocks": [], "err": ""}
    res = {"rc": p.returncode, "err": p.stderr.decode("latin-1")[-300:], "blocks": []}
    if case["mode"] == "d":
        for f in sorted(os.listdir(ddir)):
            data = open(os.path.join(ddir, f), "rb").read().decode("latin-1")
            lines = data.split("\n")
            tail = lines.pop()
            if tail != "":
                lines.append(tail + "<NO-NEWLINE>")
            res["blocks"].append((os.fsencode(f).decode("latin-1") if isinstance(f, str) else f, lines))
    else:
        res["blocks"], res["parse_error"] = parse_report(p.stdout.decode("latin-1"))
    return res


def parse_report(text):
    """(header, [body lines]) blocks of a dshbak report; bodies never contain the divider (generator)"""
    lines = text.split("\n")
    tail = lines.pop()
    blocks = []
    i = 0
    perr = None
    if tail != "":
        lines.append(tail + "<NO-NEWLINE>")
    while i < len(lines):
        if lines[i] == DIV and i + 2 < len(lines) + 0 and lines[i + 2] == DIV:
            blocks.append((lines[i + 1], []))
            i += 3
        elif blocks:
            blocks[-1][1].append(lines[i])
            i += 1
        else:
            perr = "output does not start with a header"
            i += 1
    return blocks, perr


def run_pdsh_Q(pdsh, header, attempt=0):
    """hosts the real pdsh expands HEADER to, or ('refused', message)"""
    try:
        p = subprocess.run([pdsh, "-Q", "-w", header], stdout=subprocess.PIPE, stderr=subprocess.PIPE,
                           env={"PATH": "/usr/bin:/bin"}, timeout=120)
    except subprocess.TimeoutExpired:
        if attempt == 0:
            return run_pdsh_Q(pdsh, header, attempt=1)
        return ("refused", "timeout")
    if p.returncode != 0:
        return ("refused", p.stderr.decode("latin-1")[-200:].strip())
    out = p.stdout.decode("latin-1").split("\n")
    while out and out[-1] == "":
        out.pop()
    last = out[-1] if out else ""
    if last.endswith("[truncated]") or len(last) > 900:
        # -Q prints through a 1024-byte buffer.  For longer lists first ask for the compressed form (-q) and expand
        # that with the small expander; only if that does not fit either let pdsh act on the list
        try:
            q = subprocess.run([pdsh, "-q", "-w", header], stdout=subprocess.PIPE, stderr=subprocess.PIPE,
                               env={"PATH": "/usr/bin:/bin"}, timeout=60)
            ql = [l for l in q.stdout.decode("latin-1").split("\n") if l][-1:] or [""]
            if q.returncode == 0 and ql[0] and "[truncated]" not in ql[0] and len(ql[0]) < 900:
                return ("ok", expand_ranged(ql[0]))
        except (subprocess.TimeoutExpired, ValueError):
            pass
        try:
            p = subprocess.run([pdsh, "-R", "exec", "-N", "-f", "64", "-w", header, "echo", "%h"],
                               stdout=subprocess.PIPE, stderr=subprocess.PIPE, env={"PATH": "/usr/bin:/bin"},
                               timeout=900)
        except subprocess.TimeoutExpired:
            return ("refused", "timeout")
        if p.returncode != 0:
            return ("refused", p.stderr.decode("latin-1")[-200:].strip())
        return ("ok", p.stdout.decode("latin-1").split())
    return ("ok", [h for h in last.split(",")] if last else [])


def expand_ranged(e):
    """small expander for pdsh's own compressed output `pre[a-b,c]suf,...` (width = width of the lower bound)"""
    toks, cur, lvl = [], "", 0
    for ch in e:
        if ch == "," and lvl == 0:
            toks.append(cur)
            cur = ""
        else:
            lvl += (ch == "[") - (ch == "]")
            cur += ch
    toks.append(cur)
    hosts = []
    for tok in toks:
        if "[" in tok:
            pre, rest = tok.split("[", 1)
            rng, suf = rest.split("]", 1)
            for item in rng.split(","):
                if "-" in item:
                    a, b = item.split("-", 1)
                    hosts += [pre + str(v).zfill(len(a)) + suf for v in range(int(a), int(b) + 1)]
                else:
                    hosts.append(pre + item + suf)
        else:
            hosts.append(tok)
    return hosts


def lat(s):
    return s.encode("latin-1")


def hx(s):
    return hexs(lat(s))


def hxl(l):
    return ",".join(hx(x) for x in l) if l else "~"


def model_line(case, repaired, lim="0"):
    hexin = hexs(case["input"]) if case.get("files") is None else "+".join((hexs(f) if f else "-") for f in case["files"])
    return "%s %d %s %s\n" % ("c" if case["mode"] == "c" else "n", int(repaired), lim, hexin)


def parse_model(line, mode):
    def un(s):
        return "" if s == "-" else bytes.fromhex(s).decode("latin-1")

    def unl(s):
        return [] if s == "~" else [un(x) for x in s.split(",")]
    if line == ".":
        return []
    out = []
    for b in line.split(";"):
        f = b.split("=")
        if mode == "c":
            out.append({"groups": unl(f[0]), "tags": unl(f[1]), "lines": unl(f[2]), "hosts": unl(f[3])})
        else:
            out.append({"tag": un(f[0]), "lines": unl(f[1])})
    return out


def header_is_perm_of(header, groups):
    """the real header = the model's suffix-group texts joined by ',' in SOME order (Perl hash order)"""
    def rec(rest, left):
        if not left:
            return rest == ""
        for i, g in enumerate(left):
            if rest == g and len(left) == 1:
                return True
            if rest.startswith(g + ",") and len(left) > 1:
                if rec(rest[len(g) + 1:], left[:i] + left[i + 1:]):
                    return True
        return False
    return rec(header, list(groups))


def sort_key(tag):
    m = re.search(r"([0-9]*)$", tag)
    return int(m.group(1)) if m.group(1) else 0


def has_empty_stem_clash(tags):
    digitfree = [h for h in tags if not any(c.isdigit() for c in h)]
    return any(o != s and o.endswith(s) and o[:len(o) - len(s)].isdigit() for s in digitfree for o in tags)


def longest_run(hosts_expanded_model):
    return len(hosts_expanded_model)


# ------------------------------------------------------------------ judging one batch of cases
class Judge:
    def __init__(self, ctx, script, pdsh, repaired, lim="0"):
        self.ctx, self.script, self.pdsh, self.repaired, self.lim = ctx, script, pdsh, repaired, lim
        self.workdir = os.path.join(ctx.scratch, "dshbak-d")
        os.makedirs(self.workdir, exist_ok=True)
        self.pdsh_cache = {}
        self.launches = 0

    def expand(self, headers):
        todo = [h for h in set(headers) if h not in self.pdsh_cache]
        with ThreadPoolExecutor(max_workers=8) as ex:
            for h, r in zip(todo, ex.map(lambda h: run_pdsh_Q(self.pdsh, h), todo)):
                self.pdsh_cache[h] = r
        self.launches += len(todo)

    def judge(self, cases, use_model=True):
        """returns per case a dict(real, model, oracle, verdicts=[(kind, signature, what)])"""
        ctx = self.ctx
        with ThreadPoolExecutor(max_workers=8) as ex:
            reals = list(ex.map(lambda ic: run_dshbak(self.script, ic[1], self.workdir, ic[0]), enumerate(cases)))
        self.launches += len(cases)
        headers = [b[0] for c, r in zip(cases, reals) if c["mode"] == "c" and c["stream"] != "odd" for b in r["blocks"]]
        self.expand(headers)
        models = [None] * len(cases)
        if use_model:
            mlines = ctx.model("dshbak", "".join(model_line(c, self.repaired, self.lim) for c in cases), args=["model"])
            models = [parse_model(l, c["mode"]) for l, c in zip(mlines, cases)]
        # oracle input: real blocks, -c headers replaced by the real pdsh's expansion
        def spec_line(c, r, recs_list):
            recs = ",".join("%s:%s" % (hx(t), hx(b)) for t, b in recs_list) or "~"
            bl = []
            for (h, lines) in r["blocks"]:
                if c["mode"] == "c":
                    st, hosts = self.pdsh_cache.get(h, ("refused", "not run"))
                    bl.append("%s=%s" % (hxl(hosts if st == "ok" else []), hxl(lines)))
                else:
                    bl.append("%s=%s" % (hx(h), hxl(lines)))
            return "%s %s | %s\n" % ("c" if c["mode"] == "c" else "n", recs, ";".join(bl) or ".")
        # the Lean specification's executable form is quadratic (list membership): inputs with thousands of hosts are
        # judged by the same clauses written with sets (py_spec); on all other inputs both are run and must agree
        huge = [len(c["recs"]) > 3000 for c in cases]
        small_lines = ctx.model("dshbak", "".join(spec_line(c, r, c["recs"]) for c, r, hg in zip(cases, reals, huge)
                                                  if not hg), args=["spec"])
        it = iter(small_lines)
        slines = []
        for c, r, hg in zip(cases, reals, huge):
            py = self.py_spec(c, r)
            if hg:
                slines.append(py)
            else:
                ls = next(it)
                if (ls == "ok") != (py == "ok"):
                    ctx.disagreement("Dshbak/Spec.lean vs its set-based transcription", "lean `%s` python `%s`" % (ls, py),
                                     case_json(c))
                slines.append(ls)
        # D21 classification: is the ONLY deviation the missing final (unterminated) record?
        again = [i for i, (c, s) in enumerate(zip(cases, slines)) if c["stream"] == "unterminated" and s != "ok"]
        only_last = {}
        if again:
            tl = ctx.model("dshbak", "".join(spec_line(cases[i], reals[i], cases[i]["recs"][:-1]) for i in again),
                           args=["spec"])
            only_last = {i: (t == "ok") for i, t in zip(again, tl)}
        out = []
        for i, (c, r, m, s) in enumerate(zip(cases, reals, models, slines)):
            out.append(self.verdicts(c, r, m, s, only_last.get(i, False)))
        return out

    def py_spec(self, c, r):
        """Spec.explainNormal / Spec.explainCoalesced clause by clause, with dictionaries"""
        lines_of = {}
        for t, b in c["recs"]:
            lines_of.setdefault(t, []).append(b)
        if c["mode"] != "c":
            heads = [h for h, _ in r["blocks"]]
            if len(set(heads)) != len(heads):
                return "bad a label has two blocks"
            if set(lines_of) - set(heads):
                return "bad a label of the input has no block"
            if set(heads) - set(lines_of):
                return "bad a block for a label that is not in the input"
            if any(lines_of[h] != l for h, l in r["blocks"]):
                return "bad a block does not hold exactly its label's lines in order"
            return "ok"
        blocks = []
        for h, lines in r["blocks"]:
            st, hosts = self.pdsh_cache.get(h, ("refused", "not run"))
            blocks.append((hosts if st == "ok" else [], lines))
        flat = [t for hs, _ in blocks for t in hs]
        if len(set(flat)) != len(flat):
            return "bad a host is under two headers (or twice under one)"
        if set(lines_of) - set(flat):
            return "bad a host of the input is under no header"
        if set(flat) - set(lines_of):
            return "bad a header names a host that is not in the input"
        if any(lines_of[t] != lines for hs, lines in blocks for t in hs):
            return "bad a host is under a header whose body is not its output"
        if any(not hs for hs, _ in blocks):
            return "bad a header without hosts"
        if len({tuple(l) for _, l in blocks}) != len(blocks):
            return "bad the same body is printed twice"
        return "ok"

    def verdicts(self, c, r, m, s, only_last_missing=False):
        v = []
        res = {"real": r, "model": m, "oracle": s, "verdicts": v}
        if r["rc"] != 0:
            v.append(("offender", "crash", "dshbak exits %s: %s" % (r["rc"], r["err"])))
            return res
        if r.get("parse_error"):
            v.append(("offender", "garbled-report", r["parse_error"]))
        # ---- oracle (not for names outside HostDom)
        if c["stream"] != "odd":
            refused = []
            if c["mode"] == "c":
                for (h, lines) in r["blocks"]:
                    st, info = self.pdsh_cache.get(h, ("refused", "not run"))
                    if st != "ok":
                        refused.append((h, info))
            if refused:
                h, info = refused[0]
                group = None
                for mb in (m or []):
                    if header_is_perm_of(h, mb["groups"]):
                        group = mb["tags"]
                # (a header the model does not know is reported as a disagreement below; classify by the input)
                tags = group if group is not None else sorted({t for t, _ in c["recs"]})
                if has_empty_stem_clash(tags):
                    sig = "header-refused:empty-stem"
                elif "Too many hosts" in info and len(tags) > 16384:
                    sig = "header-refused:too-many-hosts-in-range"
                elif max([seg.count(",") + 1 for seg in re.findall(r"\[([^\]]*)\]", h)] or [0]) > 10240:
                    sig = "header-refused:too-many-ranges"
                else:
                    sig = "header-refused"
                v.append(("offender", sig, "pdsh refuses the header `%s` dshbak printed: %s" % (h[:200], info)))
            elif s != "ok":
                sig = "regroup:" + s[4:].replace(" ", "-")
                if c["stream"] == "unterminated" and only_last_missing:
                    sig = "unterminated-final-line"
                v.append(("offender", sig, "dshbak%s output violates the specification: %s" %
                          ({"c": " -c", "d": " -d", "n": ""}[c["mode"]], s)))
        # ---- correspondence with the model
        if m is not None:
            if c["mode"] != "c":
                real = sorted((h, tuple(l)) for h, l in r["blocks"])
                mod = sorted((b["tag"], tuple(b["lines"])) for b in m)
                if real != mod:
                    v.append(("disagreement", "blocks", "real %r model %r" % (real[:6], mod[:6])))
                elif c["mode"] == "n":
                    ks = [sort_key(h) for h, _ in r["blocks"]]
                    if ks != sorted(ks) or ks != [sort_key(b["tag"]) for b in m]:
                        v.append(("disagreement", "block order (sortn)", "real %r" % [h for h, _ in r["blocks"]][:12]))
            else:
                rb = {tuple(l): h for h, l in r["blocks"]}
                mb = {tuple(b["lines"]): b for b in m}
                if len(rb) != len(r["blocks"]) or sorted(rb) != sorted(mb):
                    v.append(("disagreement", "coalesced bodies", "real %r model %r" %
                              (sorted(rb)[:4], sorted(mb)[:4])))
                else:
                    for body, h in rb.items():
                        b = mb[body]
                        if not header_is_perm_of(h, b["groups"]):
                            v.append(("disagreement", "header text", "real `%s` model groups %r for tags %r" %
                                      (h[:300], b["groups"][:8], b["tags"][:20])))
                            break
                        st, hosts = self.pdsh_cache.get(h, ("skip", None))
                        if c["stream"] != "odd" and st == "ok" and sorted(hosts) != sorted(b["hosts"]):
                            v.append(("disagreement", "small expander vs pdsh -Q",
                                      "header `%s`: pdsh %r expander %r" % (h[:300], hosts[:12], b["hosts"][:12])))
                            break
        return res


BRANCHES = [
    # process_lines regex
    "line:ignored(no tag)", "line:blanks-before-tag", "line:blanks-before-colon", "line:no-blank-after-colon",
    "line:empty-body", "line:body-with-colon", "line:last-without-newline",
    "input:file-arguments", "input:earlier-file-unterminated", "input:empty-file-argument",
    # output functions
    "mode:report", "mode:-c", "mode:-d", "-c:hosts-merged", "-c:singleton-header", "-c:several-blocks",
    # compress / compress_inner / comp
    "hdr:digit-free-name", "hdr:plain-name-with-number", "hdr:bracket-list", "hdr:range a-b", "hdr:padded-range",
    "hdr:bridge(padded lo, wider hi)", "hdr:mixed padding classes in one bracket", "hdr:several-suffix-groups",
    "hdr:several-prefixes", "hdr:suffix-after-number", "hdr:numeric-only-name", "hdr:name-0", "hdr:digits-inside-prefix",
    "hdr:same number in two paddings", "hdr:range-limit-split(LONGRUN)", "hdr:several-brackets-one-prefix(MANYRANGES)",
]


def branches_of(c, r):
    b = set()
    raw = c["input"].decode("latin-1")
    lines = raw.split("\n")
    if lines and lines[-1] != "":
        b.add("line:last-without-newline")
    tags = {t for t, _ in c["recs"]}
    if c.get("files") is not None:
        b.add("input:file-arguments")
        if any(f and not f.endswith(b"\n") for f in c["files"][:-1]):
            b.add("input:earlier-file-unterminated")
        if any(not f for f in c["files"]):
            b.add("input:empty-file-argument")
    for l in lines:
        if l == "" and l is lines[-1]:
            continue
        m = re.match(r"^(\s*)(\S+?)(\s*):( ?)(.*)$", l, re.S)
        if not m:
            b.add("line:ignored(no tag)")
            continue
        if m.group(1):
            b.add("line:blanks-before-tag")
        if m.group(3):
            b.add("line:blanks-before-colon")
        if not m.group(4):
            b.add("line:no-blank-after-colon")
        if m.group(5) == "":
            b.add("line:empty-body")
        if ":" in m.group(5):
            b.add("line:body-with-colon")
    b.add({"n": "mode:report", "c": "mode:-c", "d": "mode:-d"}[c["mode"]])
    if c["mode"] == "c" and r["rc"] == 0:
        if len(r["blocks"]) > 1:
            b.add("-c:several-blocks")
        for h, _ in r["blocks"]:
            words = expand_top(h)
            b.add("-c:hosts-merged" if (len(words) > 1 or "[" in h) else "-c:singleton-header")
            sufs, pres = set(), {}
            for w in words:
                if "[" in w:
                    pre, rest = w.split("[", 1)
                    body, suf = rest.split("]", 1)
                    items = body.split(",")
                    b.add("hdr:bracket-list" if len(items) > 1 else "hdr:range a-b")
                    if any("-" in it for it in items):
                        b.add("hdr:range a-b")
                    widths = set()
                    for it in items:
                        lo, _, hi = it.partition("-")
                        if len(lo) > 1 and lo.startswith("0"):
                            widths.add(len(lo))
                            if hi:
                                b.add("hdr:padded-range")
                                if len(hi) > len(lo) or not hi.startswith("0") and len(hi) == len(lo) and hi[0] != "0" and lo[0] == "0" and int(hi) >= 10 ** (len(lo) - 1):
                                    b.add("hdr:bridge(padded lo, wider hi)")
                        else:
                            widths.add(1)
                    if len(widths) > 1:
                        b.add("hdr:mixed padding classes in one bracket")
                    vals = [int(it.split("-")[0]) for it in items if it.split("-")[0].isdigit()]
                    if len(vals) != len(set(vals)):
                        b.add("hdr:same number in two paddings")
                    if pre == "":
                        b.add("hdr:numeric-only-name")
                    pres[(pre, suf)] = pres.get((pre, suf), 0) + 1
                else:
                    pre, suf = w, ""
                    if not any(ch.isdigit() for ch in w):
                        b.add("hdr:digit-free-name")
                    else:
                        b.add("hdr:plain-name-with-number")
                        if w.isdigit():
                            b.add("hdr:numeric-only-name")
                    suf = re.search(r"([^0-9]*)$", w).group(1) if any(ch.isdigit() for ch in w) else w
                if suf and any(ch.isdigit() for ch in w):
                    b.add("hdr:suffix-after-number")
                sufs.add(suf if any(ch.isdigit() for ch in w) else None)
                if re.search(r"[0-9][^0-9\[\]]+[0-9\[]", pre + "["):
                    b.add("hdr:digits-inside-prefix")
            if len({x for x in sufs if x is not None}) > 1:
                b.add("hdr:several-suffix-groups")
            if len(words) > 1 and len({x for x in sufs if x is not None}) <= 1 and sum(1 for w in words if any(ch.isdigit() for ch in w)) > 1:
                b.add("hdr:several-prefixes")
            if any(v > 1 for v in pres.values()):
                b.add("hdr:several-brackets-one-prefix(MANYRANGES)")
    if "0" in tags:
        b.add("hdr:name-0")
    return b


def expand_top(h):
    """the comma separated words of a header (commas inside brackets do not split)"""
    out, cur, lvl = [], "", 0
    for ch in h:
        if ch == "," and lvl == 0:
            out.append(cur)
            cur = ""
        else:
            lvl += (ch == "[") - (ch == "]")
            cur += ch
    out.append(cur)
    return out


def nontrivial(c, r):
    hosts = {t for t, _ in c["recs"]}
    if len(hosts) < 2:
        return False
    if c["mode"] == "c":
        return any("[" in h for h, _ in r["blocks"])
    return True


def case_json(c):
    j = {"stream": c["stream"], "mode": c["mode"], "hash_seed": c["hash_seed"],
         "input_hex": c["input"].hex(), "input_text": c["input"].decode("latin-1"),
         "records": [[t, b] for t, b in c["recs"]],
         "cmd": "PERL_HASH_SEED=%d perl scripts/dshbak%s < input" %
                (c["hash_seed"], {"c": " -c", "d": " -d DIR", "n": ""}[c["mode"]])}
    if c.get("files") is not None:
        j["files_hex"] = [f.hex() for f in c["files"]]
        j["files_text"] = [f.decode("latin-1") for f in c["files"]]
        j["cmd"] = "PERL_HASH_SEED=%d perl scripts/dshbak%s FILE1 FILE2 ...   (the files of files_text, in order)" % \
            (c["hash_seed"], {"c": " -c", "d": " -d DIR", "n": ""}[c["mode"]])
    if c.get("pin"):
        j["pin"] = c["pin"]
    return j


def case_from_json(j):
    if "input_hex" not in j and "odd_hosts" in j:
        n = int(j["odd_hosts"])
        return {"stream": "plain", "mode": "c", "hash_seed": 5, "recs": [("n%d" % i, "x") for i in range(1, 2 * n, 2)],
                "input": "".join("n%d: x\n" % i for i in range(1, 2 * n, 2)).encode()}
    if "input_hex" not in j and "hosts" in j:        # the long-run case is stored by its size only
        n = int(j["hosts"])
        return {"stream": "plain", "mode": "c", "hash_seed": 3, "recs": [("n%d" % i, "x") for i in range(1, n + 1)],
                "input": "".join("n%d: x\n" % i for i in range(1, n + 1)).encode()}
    c = {"stream": j["stream"], "mode": j["mode"], "hash_seed": j["hash_seed"],
         "input": bytes.fromhex(j["input_hex"]), "recs": [(t, b) for t, b in j["records"]]}
    if "files_hex" in j:
        c["files"] = [bytes.fromhex(x) for x in j["files_hex"]]
    return c


def shrink(judge, c, sig, budget=40):
    """drop whole hosts, then single records, while the same offender signature persists"""
    def bad(cand):
        res = judge.judge([cand], use_model=False)[0]
        return any(k == "offender" and s == sig for k, s, _ in res["verdicts"])

    def rebuild(recs, unterminated):
        inp = "".join("%s: %s\n" % r for r in recs).encode("latin-1")
        if unterminated:
            inp = inp[:-1]
        return dict(c, recs=recs, input=inp)
    if c.get("files") is not None:
        return c            # (file arguments: the cut points are part of the case)
    cur = rebuild(c["recs"], c["stream"] == "unterminated")
    if not bad(cur):
        return c
    n = 1
    for h in sorted({t for t, _ in cur["recs"]}):
        if n >= budget:
            break
        cand_recs = [r for r in cur["recs"] if r[0] != h]
        if not cand_recs:
            continue
        cand = rebuild(cand_recs, c["stream"] == "unterminated")
        n += 1
        if bad(cand):
            cur = cand
    i = 0
    while i < len(cur["recs"]) and n < budget:
        cand_recs = cur["recs"][:i] + cur["recs"][i + 1:]
        if cand_recs:
            cand = rebuild(cand_recs, c["stream"] == "unterminated")
            n += 1
            if bad(cand):
                cur = cand
                continue
        i += 1
    return cur


# ------------------------------------------------------------------ the check
def gen_nat(name):
    """a constant of the tree under test, as regenerated into lean/PdshVerif/Gen/Hostlist.lean on this run"""
    path = os.path.join(os.path.dirname(os.path.dirname(os.path.abspath(__file__))), "lean", "PdshVerif", "Gen", "Hostlist.lean")
    m = re.search(r"def %s : Nat := (\d+)" % name, open(path).read())
    return int(m.group(1)) if m else None


def volume_cases(ctx, judge, cov, dist):
    """PER-HOST VOLUME: one host with very many lines (around 4096, 8192, 65536) next to small ones, in every mode —
    every line must arrive, in order, once (-d: in the host's file)"""
    dist["volume"] = {}
    for nlines in (4095, 4096, 4097, 8200, 66000):
        for mode in (("d", "n", "c") if nlines == 4096 else ("d",)):
            big = [("n1", "L%d" % i) for i in range(nlines)]
            recs = [("n2", "first")] + big[:nlines // 2] + [("n2", "mid"), ("n3", "first")] + big[nlines // 2:] + [("n3", "mid")]
            c = {"stream": "plain", "mode": mode, "recs": recs, "hash_seed": 0, "pin": "volume:%d" % nlines,
                 "input": "".join("%s: %s\n" % r for r in recs).encode()}
            res = judge.judge([c], use_model=(nlines <= 4097))[0]
            cov["evaluations"] += 1
            dist["volume"]["%d/%s" % (nlines, mode)] = "ok" if not res["verdicts"] else res["verdicts"][0][1]
            for kind, sig, what in res["verdicts"]:
                if kind == "offender":
                    ctx.offender(sig, what, {"case": case_json(c), "oracle": res["oracle"]})
                else:
                    ctx.disagreement("dshbak model vs scripts/dshbak: " + sig, what[:300], {"volume": nlines, "mode": mode})


def run(ctx):
    rng = ctx.rng
    ctx.gen_consts(["hostlist"])            # MAX_RANGE / MAX_RANGES of the tree under test (hostlist.c)
    ctx.lean_build([PROPS, "pdshmodel"])
    ctx.audit(PROPS)
    cov = {"evaluations": 0, "distinct_nontrivial": 0, "samples": [],
           "rule": "PINNED FIRST (pinned_cases, no randomness): label classes (dots/dashes/digits, 09->10 and 099->100 bridges, mixed "
                   "widths, numeric-only, suffix-only differences, several prefixes under one suffix, digit-free, long, 15-20 digit "
                   "numbers) and body classes (trailing blank / CR / one line anywhere differs, prefix of another, permuted, repeated, "
                   "leading colon, `: ` inside, label-like, 100 kB lines, 300 lines, binary, divider look-alikes) and line formats (no "
                   "blank after the colon, blanks around the label, CRLF, unterminated last line) each in report/-c/-d x 2 hash seeds; "
                   "OPTIONS: every subset of -c -h -f x -d absent / an existing directory / missing / a plain file / new/deep / `0` / "
                   "`` / `00` / `0.0`, both option orders, against Dshbak/Options.lean `plan` and the per-file specification; -d with "
                   "every pair of 11 labels of which 7 are paths (./x, a/b, ../esc, ., .., x/, a//b) x 2 hash seeds.  THEN "
                   "cases = interleavings of labelled lines `host: body` from generated host-name sets (prefix+number "
                   "with mixed zero padding around 9/10, 99/100, 999/1000, numeric-only names, name 0, suffixes after "
                   "the number, digits inside prefixes, digit-free names), 1-4 shared body templates (empty lines, "
                   "leading blanks, colons), optional blanks around the label, noise lines without a label, modes "
                   "report/-c/-d, several PERL_HASH_SEEDs; separate streams: final line without newline, names with "
                   "an empty stem next to a numeric stem, names outside [a-z0-9._-] (model correspondence only); "
                   "thorough adds every subset of three 10-name universes and a 16385-host run; non-trivial = at least "
                   "two hosts and (for -c) a bracketed header was printed; distinct = distinct (mode, input bytes)"}
    repo = ctx.repo_build()
    if repo:
        script = os.path.join(repo, "scripts", "dshbak")
        pdsh = os.path.join(repo, "src", "pdsh", "pdsh")
        # which form of the script is this?  (D21 repaired or not): decided on the real script, so that the
        # model mirrors either form; the ORACLE never depends on it
        p = subprocess.run(["perl", script], input=b"a: x\na: y", stdout=subprocess.PIPE, stderr=subprocess.PIPE)
        repaired = 1 if b"y" in p.stdout else 0
        p = subprocess.run(["perl", script, "-c"], input=b"foo: x\n1foo: x\n", stdout=subprocess.PIPE,
                           stderr=subprocess.PIPE)
        if b"[-1]foo" not in p.stdout:
            repaired += 2       # digit-free names are no longer given to comp (F19-EMPTYSTEM repaired)
        # F19-LONGRUN repaired?  the length of the first range element of a 16400-host run is the limit
        p = subprocess.run(["perl", script, "-c"], input="".join("n%d: x\n" % i for i in range(1, 16401)).encode(),
                           stdout=subprocess.PIPE, stderr=subprocess.PIPE)
        m = re.search(rb"^n\[1-(\d+)([,\]])", p.stdout, re.M)
        lim = int(m.group(1)) if (m and m.group(2) == b",") else 0
        # F19-MANYRANGES repaired?  the number of elements in the first bracket of a 10300-element header
        p = subprocess.run(["perl", script, "-c"], input="".join("n%d: x\n" % i for i in range(1, 20600, 2)).encode(),
                           stdout=subprocess.PIPE, stderr=subprocess.PIPE)
        m = re.search(rb"^n\[([0-9,]*)\](.?)", p.stdout, re.M)
        mr = (m.group(1).count(b",") + 1) if (m and m.group(2) == b",") else 0
        limits = "%d/%d" % (lim, mr)
        judge = Judge(ctx, script, pdsh, repaired, limits)
        if ctx.replay:
            j = json.load(open(ctx.replay))
            jc = j["case"]["case"] if "case" in j.get("case", {}) else j["case"]
            if "argv" in jc or "labels" in jc:
                cases = []              # an option / -d label case: that (small, fixed) part is run as a whole
                option_cases(ctx, script, judge, cov, {"script_form": ""})
            else:
                cases = [case_from_json(jc)]
        else:
            n = 1500 if ctx.quick() else 15000
            cases = load_corpus() + pinned_cases()
            for i in range(n):
                stream = rng.choices(["plain", "unterminated", "emptystem", "odd"], [80, 6, 7, 7])[0]
                cases.append(gen_case(rng, stream))
            if not ctx.quick():
                cases += subset_cases(["n8", "n08", "n9", "n09", "n10", "n010", "n11", "n99", "n099", "n100"])
                cases += subset_cases(["0", "00", "1", "01", "9", "10", "0x", "1x", "x", "00x"])
                cases += subset_cases(["a1-ib", "a2-ib", "a02-ib", "a3", "a4", "b1a3", "b1a4", "a", "b-ib", "a03-ib"])
        dist = {"modes": {}, "streams": {}, "hosts_per_case": {}, "headers_expanded_by_pdsh": 0,
                "bracketed_headers": 0, "process_launches": 0, "branches": {b: 0 for b in BRANCHES}, "script_form": {0: "unchanged", 1: "D21-repaired", 2: "EMPTYSTEM-repaired",
                                                         3: "D21+EMPTYSTEM-repaired"}[repaired] +
                               ("+LONGRUN-limit-%d" % lim if lim else "") +
                               ("+MANYRANGES-limit-%d" % mr if mr else "")}
        distinct = set()
        nshrunk = 0
        CH = 400
        for start in range(0, len(cases), CH):
            chunk = cases[start:start + CH]
            results = judge.judge(chunk)
            for c, res in zip(chunk, results):
                cov["evaluations"] += 1
                dist["modes"][c["mode"]] = dist["modes"].get(c["mode"], 0) + 1
                dist["streams"][c["stream"]] = dist["streams"].get(c["stream"], 0) + 1
                if c.get("pin"):
                    pk = c["pin"].split(":")[0]
                    dist.setdefault("pinned_classes", {})[pk] = dist.setdefault("pinned_classes", {}).get(pk, 0) + 1
                nh = len({t for t, _ in c["recs"]})
                dist["hosts_per_case"][str(min(nh, 15))] = dist["hosts_per_case"].get(str(min(nh, 15)), 0) + 1
                r = res["real"]
                if c["stream"] != "odd":
                    for tag in branches_of(c, r):
                        dist["branches"][tag] = dist["branches"].get(tag, 0) + 1
                if c["mode"] == "c":
                    dist["bracketed_headers"] += sum(1 for h, _ in r["blocks"] if "[" in h)
                if nontrivial(c, r):
                    distinct.add((c["mode"], c["input"]))
                if len(cov["samples"]) < 3 and nontrivial(c, r) and len(c["input"]) < 200 and c["mode"] == "c":
                    cov["samples"].append({"case": case_json(c), "real_blocks": r["blocks"], "oracle": res["oracle"]})
                for kind, sig, what in res["verdicts"]:
                    if kind == "offender":
                        small = c
                        if nshrunk < 4 and not ctx.replay:
                            known = any(f["property"] == ctx.prop and f.get("status") == "open" and
                                        re.fullmatch(f["signature"], sig) for f in ctx.findings.get("findings", []))
                            if not known:
                                nshrunk += 1
                                small = shrink(judge, c, sig)
                                if small is not c:
                                    res = judge.judge([small], use_model=False)[0]
                        ctx.offender(sig, what, {"case": case_json(small), "real": res["real"]["blocks"][:20],
                                                 "oracle": res["oracle"]})
                    else:
                        ctx.disagreement("dshbak model vs scripts/dshbak: " + sig, what, case_json(c))
        if not ctx.replay:
            option_cases(ctx, script, judge, cov, dist)
            volume_cases(ctx, judge, cov, dist)
        # THE TWO SITES MUST AGREE: dshbak cuts a header into ranges of at most `lim` hosts and brackets of at most `mr`
        # elements; the parser of THIS tree accepts MAX_RANGE / MAX_RANGES (regenerated from hostlist.c on this run).
        # Wherever dshbak's limit is missing or larger than the parser's, the smallest group that needs it is run on
        # the real pair (the header dshbak prints for MAX+1 goes to the real pdsh)
        if not ctx.replay:
            g_range, g_ranges = gen_nat("MAX_RANGE"), gen_nat("MAX_RANGES")
            dist["limits"] = {"dshbak_range": lim, "dshbak_elements_per_bracket": mr, "hostlist.c MAX_RANGE": g_range,
                              "hostlist.c MAX_RANGES": g_ranges}
            extra = []
            if g_ranges and (mr == 0 or mr > g_ranges) and g_ranges + 1 != 10241:
                n = g_ranges + 1
                extra.append(({"mode": "c", "input": "n1: x, n3: x, .. (%d odd numbers, identical bodies)" % n, "odd_hosts": n},
                              [("n%d" % i, "x") for i in range(1, 2 * n, 2)], 5))
            if g_range and (lim == 0 or lim > g_range) and g_range + 1 != 16385:
                n = g_range + 1
                extra.append(({"mode": "c", "input": "n1: x .. n%d: x (one line per host, identical bodies)" % n, "hosts": n},
                              [("n%d" % i, "x") for i in range(1, n + 1)], 3))
            for cj, recs2, hseed in extra:
                lc = {"stream": "plain", "mode": "c", "recs": recs2, "hash_seed": hseed,
                      "input": "".join("%s: x\n" % t for t, _ in recs2).encode()}
                res = judge.judge([lc], use_model=False)[0]
                cov["evaluations"] += 1
                dist["streams"]["limit-mismatch"] = dist["streams"].get("limit-mismatch", 0) + 1
                for kind, sig, what in res["verdicts"]:
                    if kind == "offender":
                        ctx.offender(sig, what[:300] + " [dshbak limits %s/%s, hostlist.c MAX_RANGE %s MAX_RANGES %s]" %
                                     (lim, mr, g_range, g_ranges), {"case": cj, "real": [b[0][:120] for b in res["real"]["blocks"]][:2]})
        # F19-LONGRUN on the real pair (cheap), the model on it only in the thorough tier
        if not ctx.replay:
            for nrun in ([16385] if ctx.quick() else [16384, 16385]):
                recs = [("n%d" % i, "x") for i in range(1, nrun + 1)]
                lc = {"stream": "plain", "mode": "c", "recs": recs, "hash_seed": 3,
                      "input": "".join("n%d: x\n" % i for i in range(1, nrun + 1)).encode()}
                res = judge.judge([lc], use_model=(nrun == 16385 and not ctx.quick()))[0]
                # quick tier: the header model alone (compress of the one group) against the real header
                if ctx.quick() and res["real"]["rc"] == 0 and len(res["real"]["blocks"]) == 1:
                    hdr = res["real"]["blocks"][0][0]
                    ml = ctx.model("dshbak", "h %d %s %s\n" % (repaired, limits, ",".join(hx(t) for t, _ in recs)),
                                   args=["model"])[0]
                    groups = [bytes.fromhex(x).decode("latin-1") for x in ml.split("=")[0].split(",")]
                    if not header_is_perm_of(hdr, groups):
                        ctx.disagreement("dshbak header model vs scripts/dshbak (long run)",
                                         "real `%s` model %r" % (hdr[:200], groups[:4]), {"longrun": nrun})
                    st, hosts = judge.pdsh_cache.get(hdr, ("skip", None))
                    if st == "ok" and len(hosts) != int(ml.split("=")[1]):
                        ctx.disagreement("small expander vs pdsh (long run)", "pdsh %d hosts, model %s" %
                                         (len(hosts), ml.split("=")[1]), {"longrun": nrun})
                cov["evaluations"] += 1
                if any("," in b[0] for b in res["real"]["blocks"]):
                    dist["branches"]["hdr:range-limit-split(LONGRUN)"] += 1
                dist["streams"]["longrun"] = dist["streams"].get("longrun", 0) + 1
                for kind, sig, what in res["verdicts"]:
                    if kind == "offender":
                        ctx.offender(sig, what, {"case": {"mode": "c", "input": "n1: x .. n%d: x (one line per host, "
                                                          "identical bodies)" % nrun, "hosts": nrun},
                                                 "real": [b[0] for b in res["real"]["blocks"]][:3]})
                    else:
                        ctx.disagreement("dshbak model vs scripts/dshbak: " + sig, what, {"longrun": nrun})
        # F19-MANYRANGES: more than 10240 range elements under one prefix (hostlist.c MAX_RANGES)
        if not ctx.replay:
            for nr in ((10241,) if ctx.quick() else (10240, 10241)):
                recs = [("n%d" % i, "x") for i in range(1, 2 * nr, 2)]
                lc = {"stream": "plain", "mode": "c", "recs": recs, "hash_seed": 5,
                      "input": "".join("%s: x\n" % t for t, _ in recs).encode()}
                if ctx.quick() and mr > 0:
                    # repaired script, quick tier: the accepted header would have to be expanded by 10241 forks;
                    # compare the header text with the model here, the pdsh expansion is done in the thorough tier
                    res = {"real": run_dshbak(script, lc, judge.workdir, 0), "verdicts": []}
                else:
                    res = judge.judge([lc], use_model=False)[0]
                if res["real"]["rc"] == 0 and len(res["real"]["blocks"]) == 1:
                    hdr = res["real"]["blocks"][0][0]
                    ml = ctx.model("dshbak", "h %d %s %s\n" % (repaired, limits, ",".join(hx(t) for t, _ in recs)),
                                   args=["model"])[0]
                    groups = [bytes.fromhex(x).decode("latin-1") for x in ml.split("=")[0].split(",")]
                    if not header_is_perm_of(hdr, groups):
                        ctx.disagreement("dshbak header model vs scripts/dshbak (many ranges)",
                                         "real `%s...` model `%s...`" % (hdr[:80], groups[0][:80]), {"manyranges": nr})
                cov["evaluations"] += 1
                if any("],n[" in b[0] or re.search(r"\],n\d", b[0]) for b in res["real"]["blocks"]):
                    dist["branches"]["hdr:several-brackets-one-prefix(MANYRANGES)"] += 1
                dist["streams"]["manyranges"] = dist["streams"].get("manyranges", 0) + 1
                for kind, sig, what in res["verdicts"]:
                    if kind == "offender":
                        ctx.offender(sig, what[:300], {"case": {"mode": "c", "input": "n1: x, n3: x, .. n%d: x (%d odd numbers, "
                                                                "identical bodies)" % (2 * nr - 1, nr), "odd_hosts": nr},
                                                       "real": [b[0][:120] for b in res["real"]["blocks"]][:2]})
        dist["branches_never_hit"] = sorted(b for b, n in dist["branches"].items() if n == 0)
        dist["headers_expanded_by_pdsh"] = len(judge.pdsh_cache)
        dist["process_launches"] = judge.launches
        cov["distinct_nontrivial"] = len(distinct)
        cov["distribution"] = dist
        cov["traces_validated_against_impl"] = cov["evaluations"]
    return ctx.finish(
        LEVEL, cov,
        assumptions=["host names over [a-z0-9._-] starting with a letter or digit; numeric parts of at most 15 digits "
                     "(Perl IV arithmetic exact)",
                     "Perl's sort is stable (merge sort) and `keys` returns every key once, in an arbitrary order",
                     "report bodies never consist of the 16-dash divider line (otherwise the report is ambiguous by design)",
                     "the meaning of a header is what the real `pdsh -Q -w HEADER` of the scratch build prints"],
        trusted_base=["Lean 4.33 kernel", "axioms: propext, Classical.choice, Quot.sound at most (audited per theorem)",
                      "hand-written model Dshbak/Model.lean tied to scripts/dshbak by differential execution",
                      "perl 5 interpreter, the scratch build of pdsh (hostlist.c is not modelled here)",
                      "checks/c19.py generators and report parser, vlib/"],
        checker_cmd="lake build PdshVerif.Props.C19 && #print axioms on every theorem of Props/C19.lean")


def load_corpus():
    d = os.path.join(os.path.dirname(os.path.dirname(os.path.abspath(__file__))), "corpus", "C19")
    out = []
    if os.path.isdir(d):
        for f in sorted(os.listdir(d)):
            if f.endswith(".json"):
                out.append(case_from_json(json.load(open(os.path.join(d, f)))))
    return out
