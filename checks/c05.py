"""C05  Each host's output is relayed complete, in order, exactly once.

proof:          lean/PdshVerif/Props/C05.lean (relay model over the FIFO specification of the buffer:
                for every stream in the domain and EVERY chunking the bytes written are the labelled
                stream; no descriptor write ever overwrites)
correspondence: harness/relay_harness.c = unmodified dsh.c/err.c/cbuf.c driven in-process over scripted
                non-blocking pipes, every stdio call recorded, vs `pdshmodel relay index|fifo`
oracle:         real code's stdio calls vs `pdshmodel relay spec` (Relay/Spec.lean: flatten = render)
scheduler:      the unmodified dsh.c under the controlled scheduler (vlib/relay_sched.py): 2-6 targets with
                scripted stdout+stderr, adversarial schedules at every stdio call; per stream the stripped
                concatenation of the wrapped fputs calls = the scripted bytes, exactly once
xpoll:          the REAL src/common/xpoll.c over a scripted poll(2) vs `pdshmodel relay xpoll` (Relay/XPoll.lean:
                validation, revents cleared, translation both ways, errno/rv/timeout handed through); under the
                scheduler every poll return of every worker: which handlers read next and IN WHICH ORDER
                (`XPoll.loopIter`: stdout's before stderr's, EINTR retried by the loop)
supporting:     real pdsh -R exec runs with scripted writers (kernel fragmentation, real threads)
The procedure is shared with C06: vlib/relay.py:run_check.
"""
from vlib import relay

LEVEL = "proof"
PROPS = "PdshVerif.Props.C05"
MANIFEST = dict(
    engine="relay",
    technique="Lean 4 proof (invariant over all read scripts: no newline survives _flush_lines, hence no "
              "descriptor write overwrites; relay model over the FIFO spec of cbuf) + differential correspondence "
              "of the unmodified dsh.c/err.c/cbuf.c (in-process, scripted pipes, fputs interposed) against the "
              "compiled model + real pdsh -R exec runs",
    text="Theorems in lean/PdshVerif/Props/C05.lean: for every byte string in the domain and every way of cutting "
         "it into arrivals, the stdio calls of the relay model concatenate to the labelled stream and stripping the "
         "labels gives back the input.  The same model (and its index-level twin over the C13 cbuf model) is "
         "executed call by call against the real _do_output/_flush_lines/_flush_output/_extract_rc/_verr on "
         "generated streams x chunkings x label options; the policy-free specification decides the property on "
         "the real code's stdio calls.",
    design_ref="DESIGN.md section 5 C05",
    note="Lean 4.33 kernel; axioms propext/Classical.choice/Quot.sound at most; theorems are stated for the relay over "
         "the FIFO specification plus cbuf.c's request/growth policy AND, through the proved simulation "
         "Relay/IndexSim.lean (on C13's refinement lemmas), for the relay over the index-level model of cbuf.c that "
         "is executed against the real code; "
         "the poll/read loop of _rsh_thread is a transition system over both descriptors (any poll order, short reads, EAGAIN, EINTR) with its own theorems; the constants the proof needs (cbuf_create arguments, CBUF_CHUNK, tail buffer) enter through decidable side conditions proved for the regenerated values; kernel delivery and threads are exercised by the scheduler part and real runs; -S/-k streams (marker) "
         "are outside the domain (C08)")


def run(ctx):
    return relay.run_check(ctx, "C05", PROPS, LEVEL)
