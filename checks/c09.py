"""C09  Each host gets the right user, transport, rank and the verbatim command.

proof:          lean/PdshVerif/Props/C09.lean
correspondence: (a) the unmodified pipecmd.c in harness/fmt_harness.c (guard page behind the argument
                    bytes, ASan/UBSan)                                   vs `pdshmodel rcmd model <variant>`
                (b) the real `pdsh -R exec ... argdump ARGS` (argv seen by the helper, in hex)   vs the same
                (c) the real pdsh under the preload shim with fake transports that log
                    (type, host, user, rank, command)                    vs `pdshmodel rcmd model` (`reg` lines:
                    registry model fed by an independent expander; `regcli` lines: the same run computed from
                    the command line alone by C02's model of opt.c + hostlist.c composed with the registry model)
                (d) the real `pdsh -R rsh` against a scripted rsh peer on loopback (request bytes, back-connection
                    to the announced stderr port, reserved ports held busy by the check)   vs `writes` lines
                (e) sshcmd.c compiled per run with a fake ssh first in PATH               vs `ssh` lines
                (f) the unmodified xrcmd.c in harness/xrcmd_harness.c with a scripted network (busy ports, connect
                    results, sleep, xpoll, accept, peer's reply), every call on its sockets   vs `xr` lines
oracle:         the same observations vs `pdshmodel rcmd spec` (token grammar / first annotated word /
                defaults chain / rank = position / four NUL-terminated fields / Exec/XrcmdSpec.lean `meets`);
                the command text must arrive verbatim
"""
import itertools
import json
import re
import os
import pwd
import subprocess
import time

from vlib import preload
from vlib.common import HARNESS
from vlib.preload import hx, unhx
from vlib.seqrun import run_batch

LEVEL = "proof"
PROPS = "PdshVerif.Props.C09"
MANIFEST = dict(
    engine="preload",
    technique="Lean 4 proof (C char loop with explicit memory refines a token grammar; first-wins registry refines "
              "'first annotated word'; rsh request round-trip) + differential correspondence on three levels "
              "(in-process pipecmd.c, real pdsh -R exec with an argv-dumping helper, real pdsh with fake transports "
              "under an LD_PRELOAD shim)",
    text="Theorems in lean/PdshVerif/Props/C09.lean about Exec/Format.lean and Opt/Rcmd.lean; the models are run "
         "against the real code on all argument strings over {%,h,u,n,x,a} up to a length bound plus random byte "
         "strings and argument vectors, and on generated command lines mixing plain / user@ / type:user@ words over "
         "overlapping host sets with -l, -R, PDSH_RCMD_TYPE and -x; every observation is also judged by the "
         "specification (Exec/Spec.lean, Opt/RcmdSpec.lean).",
    design_ref="DESIGN.md section 5 C09, section 6 D10 D11 F09-2BR, appendix A.2 A.4",
    note="Lean 4.33 kernel; axioms propext/Classical.choice/Quot.sound at most; hand-written models tied to "
         "pipecmd.c/opt.c/rcmd.c/dsh.c/xrcmd.c by differential execution of code built from /repo's working tree; host "
         "expansion (hostlist.c) is a parameter of the registry model, supplied twice per case: by an independent "
         "Python expander and by C02's Lean model of opt.c + hostlist.c (composed run, must agree); the rsh wire "
         "request is exercised against a scripted peer on the first free group of loopback addresses "
         "127.9.17.1-4 / 127.19.X.1-4 port 514 (skipped with a note only if none can be bound), xrcmd's connection "
         "set-up additionally in-process with a scripted network")

ALPHA = "%hunxa"
SAN_ENV = dict(os.environ, ASAN_OPTIONS="detect_leaks=0:handle_segv=0:allow_user_segv_handler=1")


# ------------------------------------------------------------------------------------- spec helpers (python side
# only decides which known-finding class an offender belongs to; the verdict itself comes from the Lean spec)

def ends_unpaired(a):
    """a: bytes; True when the greedy tokenisation ends in a lone '%'"""
    i = 0
    while i < len(a):
        if a[i] == 0x25:
            if i + 1 >= len(a):
                return True
            i += 2
        else:
            i += 1
    return False


def cstr(mem):
    k = mem.find(b"\0")
    return None if k < 0 else mem[:k]


def bh(b):
    return b.hex() if b else "-"


# ------------------------------------------------------------------------------------- (a) in-process

def fmt_cases(ctx, rng):
    maxlen = 5 if ctx.quick() else 6
    cases = []
    envs = [(b"hh", b"uu", 7), (b"node-12", b"root", 0), (b"a%h", b"%u%", 10), (b"", b"", 2147483647)]
    for n in range(0, maxlen + 1):
        for t in itertools.product(ALPHA, repeat=n):
            s = "".join(t).encode()
            h, u, r = envs[0]
            cases.append("fmt %s %s %d %s" % (bh(h), bh(u), r, bh(s + b"\0")))
            if n <= 4:
                # the same argument followed by more memory (as argv strings are in a real process)
                cases.append("fmt %s %s %d %s" % (bh(h), bh(u), r, bh(s + b"\0yz%h\0")))
            if n <= 3:
                for h, u, r in envs[1:]:
                    cases.append("fmt %s %s %d %s" % (bh(h), bh(u), r, bh(s + b"\0")))
    # the result string grows in steps (xstring.c XFGETS_CHUNKSIZE = 32; rank text in a 64-byte buffer): every token
    # kind placed so that its replacement ends before, on and behind a step, with short and with long host / user
    longenv = (b"H" * 40, b"U" * 33, 2147483647)
    for base in (32, 64, 96, 128, 256, 1024, 4096):
        for k in range(base - 9, base + 2):
            for tok in (b"%h", b"%u", b"%n", b"%%", b"%x", b"%", b"%%h"):
                for h, u, r in (envs[1], longenv):
                    if (h, u, r) == longenv and base > 256:
                        continue
                    cases.append("fmt %s %s %d %s" % (bh(h), bh(u), r, bh(b"a" * k + tok + (b"" if tok == b"%" else b"zz") + b"\0")))
    nrand = 4000 if ctx.quick() else 40000
    for _ in range(nrand):
        n = rng.choice([0, 1, 2, 3, 5, 8, 13, 40, 200])
        s = bytes(rng.choice(b"%%%%hunx%a /-.\x01\x7f\x80\xff") if rng.random() < 0.8 else rng.randrange(1, 256)
                  for _ in range(n))
        h, u, r = rng.choice(envs)
        r = rng.choice([r, 0, 9, 10, 99, 100, 123456])
        tail = rng.choice([b"\0", b"\0", b"\0next%\0", b"", b"\0%", b"\0%h\0\0"])
        cases.append("fmt %s %s %d %s" % (bh(h), bh(u), r, bh(s + tail)))
    nargs = 2000 if ctx.quick() else 20000
    pieces = [b"", b"a", b"%h", b"%", b"x%", b"%%", b"%%%", b"%u-%n", b"%x%y", b"--opt=%h", b"a b", b"%%h", b"%h%u%n%%"]
    for _ in range(nargs):
        k = rng.choice([0, 1, 2, 2, 3, 3, 4, 6])
        argv = [rng.choice(pieces) if rng.random() < 0.7 else
                bytes(rng.choice(b"%%hunxa") for _ in range(rng.randrange(0, 6))) for _ in range(k)]
        h, u, r = rng.choice(envs[:3])
        tail = rng.choice([b"", b"", b"E=1\0", b"%h\0", b"Z\0Y%\0"])
        cases.append("args %s %s %d %s %s %s" % (bh(h), bh(u), r, bh(b"helper"), bh(tail),
                                                 " ".join(bh(a) for a in argv)))
    return cases


def fmt_signature(line):
    """known-finding class of an offending fmt/args line (from the INPUT only)"""
    w = line.split()
    if w[0] == "fmt":
        a = cstr(bytes.fromhex(w[4]) if w[4] != "-" else b"")
        if a == b"":
            return "fmt:empty-arg"
        if a is not None and ends_unpaired(a):
            return "fmt:trailing-percent"
        return "fmt:mismatch"
    argv = [bytes.fromhex(x) if x != "-" else b"" for x in w[6:]]
    why = set()
    if any(a == b"" for a in argv):
        why.add("empty-arg")
    if any(ends_unpaired(a) for a in argv):
        why.add("trailing-percent")
    return "args:" + ("+".join(sorted(why)) if why else "mismatch")


def has_pct(line):
    w = line.split()
    fields = [w[4]] if w[0] == "fmt" else w[6:]
    return any(f != "-" and b"%" in bytes.fromhex(f) for f in fields)


def fmt_branches(line, b):
    """which token kinds of the substitution an input line exercises (coverage report only)"""
    def hit(k):
        b[k] = b.get(k, 0) + 1
    w = line.split()
    if w[0] == "fmt":
        mem = bytes.fromhex(w[4]) if w[4] != "-" else b""
        a = cstr(mem)
        if a is None:
            hit("fmt:no terminator in the readable memory")
            return
        args = [a]
        if len(mem) > len(a) + 1:
            hit("fmt:memory behind the terminator")
    else:
        args = [bytes.fromhex(x) if x != "-" else b"" for x in w[6:]]
        hit("args:%d arguments" % min(len(args), 4))
    for a in args:
        if a == b"":
            hit("token:empty argument")
        i, lit = 0, False
        while i < len(a):
            if a[i] == 0x25:
                if i + 1 >= len(a):
                    hit("token:lone trailing %")
                    break
                hit({0x68: "token:%h", 0x75: "token:%u", 0x6e: "token:%n", 0x25: "token:%%"}.get(a[i + 1], "token:unknown %x"))
                i += 2
            else:
                lit = True
                i += 1
        if lit:
            hit("token:literal text")
        if b"%%h" in a or b"%%u" in a or b"%%n" in a:
            hit("token:%% directly before h/u/n")


def reg_branches(c, m, s, b):
    """which branches of the word splitter / registry / defaults chain a registry case exercises"""
    def hit(k):
        b[k] = b.get(k, 0) + 1
    for w in c["words"]:
        if w.count("[") >= 2:
            hit("word:two bracket pairs")
        if "::" in w:
            hit("word:'::' (no type)")
        if "@" in w and ":" in w and w.index(":") > w.index("@"):
            hit("word:':' behind '@' (malformed)")
        elif "@" in w and ":" in w:
            hit("word:type:user@hosts")
        elif "@" in w:
            hit("word:user@hosts")
        elif ":" in w:
            hit("word:type:hosts")
        else:
            hit("word:plain")
        if "," in w:
            hit("word:comma inside brackets")
    hit("default transport from " + ("-R" if c["R"] is not None else "PDSH_RCMD_TYPE" if c["envtype"] is not None else "rank list"))
    if c["R"] is not None and c["envtype"] is not None:
        hit("-R over PDSH_RCMD_TYPE")
    if c["l"] is not None:
        hit("-l given")
    if c["argv"].count("-l") > 1:
        hit("-l given twice")
    if c["argv"].count("-w") > 1:
        hit("several -w")
    if m == "fatal":
        hit("run refused (malformed word / unknown module)")
    elif any(x.startswith("~|") for x in m.split()[1:]):
        hit("host without any transport (cancelled)")


def exec_view(ans):
    """what execvp sees of an `ok A0 A1 ...` answer: the array up to the first NULL"""
    out = []
    for x in ans.split()[1:]:
        if x == "null":
            break
        out.append(x)
    return out


def detect_variant(exe):
    probe = ["fmt 68 75 0 2500", "fmt 68 75 0 00"]
    (ans, crash), = run_batch([exe], [probe], env=SAN_ENV)
    if crash is not None or len(ans) != 2:
        return None
    d10 = ans[0] == "ok 25"
    d11 = ans[1] == "ok -"
    return {(False, False): "unchanged", (True, False): "d10", (False, True): "d11", (True, True): "repaired"}[(d10, d11)]


def part_a(ctx, cov, dist, rng, only=None):
    exes = []
    for name, asrt in (("assert+asan", True), ("shipped(NDEBUG)+asan", False)):
        exe = os.path.join(ctx.scratch, "fmt_" + ("dbg" if asrt else "rel"))
        if ctx.cc(exe, [os.path.join(HARNESS, "fmt_harness.c")], san=True, assertions=asrt):
            exes.append((exe, name))
    if len(exes) != 2:
        return None
    variant = detect_variant(exes[0][0])
    if variant is None:
        ctx.disagreement("fmt harness", "variant probe failed")
        return None
    dist["variant"] = variant
    if variant != "unchanged":
        ctx.log("pipecmd_format_arg behaves as the repaired variant `%s`: the model runs with that switch" % variant)
    cases = fmt_cases(ctx, rng) if only is None else list(only)
    if not cases:
        return variant
    text = "".join(c + "\n" for c in cases)
    mlines = ctx.model("rcmd", text, args=["model", variant])
    slines = ctx.model("rcmd", text, args=["spec"])
    seen = set()
    for exe, name in exes:
        (ans, crash), = run_batch([exe], [cases], env=SAN_ENV, timeout=1200)
        if crash is not None:
            k = len(ans)
            ctx.offender("crash", "pipecmd.c aborts (sanitizer/fault outside the guard) in flavour %s on `%s`: %s" % (
                name, cases[k] if k < len(cases) else "?", crash[-500:]), {"flavour": name, "line": cases[k] if k < len(cases) else None})
            continue
        for c, a, m, s in zip(cases, ans, mlines, slines):
            cov["evaluations"] += 1
            dist["fmt" if c.startswith("fmt") else "args"] += 1
            if exe == exes[0][0]:
                fmt_branches(c, dist["branches"])
            if a != m:
                ctx.disagreement("format model vs pipecmd.c (%s)" % name, "`%s`: impl `%s` model `%s`" % (c[:200], a[:200], m[:200]),
                                 {"line": c})
            if s == "nodomain":
                dist["nodomain"] += 1
                continue
            if c.startswith("fmt"):
                good = a == s
            else:
                good = a.startswith("ok") and exec_view(a) == s.split()[1:]
            if has_pct(c):
                seen.add(c)
            if not good:
                sig = fmt_signature(c)
                dist["offenders"][sig] = dist["offenders"].get(sig, 0) + 1
                ctx.offender(sig, "exec argument substitution differs from the specification on `%s`: helper would see `%s`, "
                                  "specified `%s`" % (c[:160], a[:160], s[:160]),
                             {"flavour": name, "line": c, "impl": a, "spec": s})
    cov["distinct_nontrivial"] += len(seen)
    k = next((i for i, c in enumerate(cases) if c.startswith("args") and has_pct(c)), 0)
    cov["samples"].append({"line": cases[k], "model": mlines[k], "spec": slines[k]})
    return variant


# ------------------------------------------------------------------------------------- host expressions

def expand_first(expr):
    """names hostlist_create yields for a word: only the FIRST bracket pair is expanded"""
    if expr == "":
        return []                   # hostlist_push(""): nothing is pushed
    i = expr.find("[")
    if i < 0:
        return [expr]
    j = expr.find("]", i)
    pre, body, suf = expr[:i], expr[i + 1:j], expr[j + 1:]
    out = []
    for part in body.split(","):
        if "-" in part:
            lo, hi = part.split("-")
            w = len(lo)
            out += ["%s%0*d%s" % (pre, w, k, suf) for k in range(int(lo), int(hi) + 1)]
        else:
            out.append(pre + part + suf)
    return out


def expand_full(expr):
    out = []
    for n in expand_first(expr):
        out += expand_full(n) if "[" in n else [n]
    return out


def split_top(arg):
    """list_split(","): commas inside brackets do not split; empty pieces dropped"""
    out, cur, lvl = [], "", 0
    for ch in arg:
        if ch == "," and lvl == 0:
            if cur:
                out.append(cur)
            cur = ""
            continue
        if ch == "[":
            lvl += 1
        elif ch == "]":
            lvl -= 1
        cur += ch
    if cur:
        out.append(cur)
    return out


HOSTEXPRS = ["h1", "h2", "h3", "h4", "n[1-4]", "n[2-6]", "n[3-5,8]", "h[01-03]", "h[1-2]", "node7", "n5", "h02", "k[9-11]"]
TWO_BR = ["f[1-2]-[0-1]", "g[0-1]x[2-3]"]
USERS = ["u1", "u2", "bob", "root", "x_y"]


def gen_hostexpr(rng):
    """host expressions over a few stems and a small set of numbers, so that names that are string prefixes
    of one another (n1/n10/n100, web/web1, a/ab/a1), zero-padded twins (n1/n01) and overlapping ranges are
    the normal case rather than an accident"""
    base = rng.choice(["n", "n", "h", "k", "web", "a", "ab"])
    nums = ["1", "2", "3", "9", "10", "11", "12", "100", "01", "02"]
    r = rng.random()
    if r < 0.15 and base in ("web", "a", "ab"):
        return base
    if r < 0.5:
        return base + rng.choice(nums)
    if r < 0.78:
        lo = rng.choice([1, 1, 2, 9, 10, 99])
        return "%s[%d-%d]" % (base, lo, lo + rng.randrange(0, 3))
    if r < 0.92:
        return "%s[%s]" % (base, ",".join(rng.sample(["1", "2", "10", "11", "3-4", "10-12", "100", "01"], rng.choice([2, 3]))))
    return "%s[%s]" % (base, rng.choice(["01-03", "08-10", "1-2"]))


def gen_reg_case(rng, transports):
    c = {"loaded": None, "argv": [], "env": {}, "words": [], "excl": [], "l": None, "R": None, "envtype": None}
    extra = rng.sample(["r04", "r06", "r07", "r08"], rng.choice([0, 1, 1, 2, 3]))
    c["loaded_ids"] = ["r01", "r02", "r03"] + extra
    names = [transports[i] for i in c["loaded_ids"]]
    nwords = rng.choice([1, 2, 2, 3, 3, 4, 5])
    wargs = []
    cur = []
    bad = rng.random() < 0.06
    for k in range(nwords):
        r0 = rng.random()
        he = rng.choice(TWO_BR) if r0 < 0.04 else (rng.choice(HOSTEXPRS) if r0 < 0.3 else gen_hostexpr(rng))
        r = rng.random()
        if r < 0.35:
            w = he
        elif r < 0.6:
            w = rng.choice(USERS) + "@" + he
        elif r < 0.8:
            w = rng.choice(names[:3] + names) + ":" + rng.choice(USERS) + "@" + he
        else:
            w = rng.choice(names) + ":" + he
        if bad and k == nwords - 1:
            w = rng.choice(["u1@t1:" + he, "nosuch:" + he, "nosuch:u1@" + he, ":" + he, "t1:u1@u2@" + he, "t1::" + he])
        cur.append(w)
        if rng.random() < 0.5:
            wargs.append(cur)
            cur = []
    if cur:
        wargs.append(cur)
    argv = []
    opts = []
    for ws in wargs:
        opts.append(["-w", ",".join(ws)])
        c["words"] += ws
    # exclusions: only hosts that occur exactly once in the list (so that C02's duplicate-exclusion defect and
    # its repair agree), never from two-bracket words
    allhosts = []
    for w in c["words"]:
        allhosts += expand_full(hostpart(w))
    once = [h for h in allhosts if allhosts.count(h) == 1 and "-" not in h and "x" not in h]
    if once and rng.random() < 0.4:
        c["excl"] = rng.sample(once, min(len(once), rng.choice([1, 1, 2])))
        opts.append(["-x", ",".join(c["excl"])])
    if rng.random() < 0.4:
        c["l"] = rng.choice(USERS)
        opts.append(["-l", c["l"]])
        if rng.random() < 0.15:
            c["l"] = rng.choice(USERS)
            opts.append(["-l", c["l"]])
    if rng.random() < 0.45:
        c["R"] = rng.choice(names) if rng.random() > 0.04 else "nosuch"
        opts.append(["-R", c["R"]])
        if rng.random() < 0.3:
            # a second -R: the default changes while the words are read (the last one counts)
            opts.append(["-R", rng.choice(names)])
    if rng.random() < 0.35:
        c["envtype"] = rng.choice(names) if rng.random() > 0.04 else "nosuch"
    rng.shuffle(opts)
    # word order on the command line = order of the -w options after shuffling
    c["words"] = []
    for o in opts:
        if o[0] == "-w":
            c["words"] += split_top(o[1])
        elif o[0] == "-l":
            c["l"] = o[1]           # the last one on the command line counts
        elif o[0] == "-R":
            c["R"] = o[1]
        argv += o
    c["cmd"] = rng.choice([["true"], ["echo", "a  b", "%h"], ["sh", "-c", "x;y"], ["c", "", "d"], ["uname", "-a"]])
    c["argv"] = argv + c["cmd"]
    return c


def pinned_reg_cases(transports):
    """run first in every run, whatever the seed: the classes of the property text, each one systematically --
    overlapping words in every order (as one -w and as several), a host named twice, names that are string
    prefixes of one another, zero-padded look-alikes, two-bracket words, every source of the default transport
    (-R, PDSH_RCMD_TYPE, each member of the rank list alone and against every other), -l against user@, and the
    rank after exclusion of the first / a middle / the last host"""
    out = []
    t1, t2, t3 = transports["r01"], transports["r02"], transports["r03"]

    def mk(wargs, excl=(), l=None, R=None, envtype=None, loaded=("r01", "r02", "r03", "r07"), cmd=("true",), ls=None,
           pre_R=None, mid_R=None, pre_l=None):
        """pre_R / pre_l: a -R / -l BEFORE the first -w; mid_R: a -R between the first and the second -w; R / l: behind
        the last -w.  The LAST -R / -l of the command line is the one that counts, wherever the words stand"""
        lastR = R if R is not None else (mid_R if mid_R is not None else pre_R)
        lastl = l if (l is not None or ls) else pre_l
        c = {"loaded": None, "env": {}, "excl": list(excl), "l": lastl, "R": lastR, "envtype": envtype,
             "loaded_ids": list(loaded), "words": [], "cmd": list(cmd), "pinned": True}
        argv = []
        if pre_R is not None:
            argv += ["-R", pre_R]
        if pre_l is not None:
            argv += ["-l", pre_l]
        for k_, ws in enumerate(wargs):
            argv += ["-w", ",".join(ws)]
            c["words"] += split_top(",".join(ws))
            if k_ == 0 and mid_R is not None:
                argv += ["-R", mid_R]
        if excl:
            argv += ["-x", ",".join(excl)]
        for x in (ls if ls is not None else ([l] if l is not None else [])):
            argv += ["-l", x]
        if R is not None:
            argv += ["-R", R]
        c["argv"] = argv + c["cmd"]
        out.append(c)
    # 1. first word wins, overlapping host sets, every order
    ov = ["u1@n[1-3]", t2 + ":u2@n[2-4]", t3 + ":n[3-5]", "bob@n3", "n[1-5]"]
    for k in (2, 3):
        for perm in itertools.permutations(ov, k):
            mk([list(perm)], l="root")
    for perm in itertools.permutations(ov[:4], 3):
        mk([[w] for w in perm])
    for perm in itertools.permutations(ov[:4]):
        mk([list(perm[:2]), list(perm[2:])], R=t1)
    # 2. one host named twice by the same word / by a plain word first
    mk([["u1@n1", "n1", "u2@n1"]])
    mk([["n1", "u2@n1", t2 + ":n1"]])
    mk([["u1@n[1-2]", "u2@n[1-2]", "n[1-2]"]])
    # 3. names that are string prefixes of one another
    pre = ["alice@n1", "n10", "bob@n100"]
    for perm in itertools.permutations(pre):
        mk([list(perm)])
    for a, b in itertools.permutations(["n1", "n10", "n100", "n1x", "web", "web1"], 2):
        if a.startswith(b) or b.startswith(a):
            mk([["alice@" + a, b]], l="zed")
            mk([[t2 + ":" + a, t3 + ":bob@" + b]])
    for one in ("n1", "n10", "n100"):
        mk([["u2@" + one, "u1@n[1-10]", "n100"]])
        mk([["u1@n[9-11]", "u2@" + one, "n100", "n1"]])
    # 4. zero-padded look-alikes are different hosts
    for ws in (["u1@n01", "u2@n1"], ["u2@n1", "u1@n01"], ["u1@n[01-03]", "u2@n[1-3]"], ["u2@n[1-3]", "u1@n[01-03]"],
               ["u1@n001", "n01", "bob@n1"], ["u1@n[08-10]", "u2@n[8-10]"], ["u1@n10", "u2@n[08-10]", "bob@n[8-10]"]):
        mk([ws])
    # 5. two-bracket words
    for ws in (["u9@f[1-2]-[0-1]"], [t2 + ":f[1-2]-[0-1]", "u1@f1-0"], ["u1@f1-0", t2 + ":bob@f[1-2]-[0-1]"],
               ["u1@g[0-1]x[2-3]", "u2@g0x2", "g1x3"], ["g1x3", "u2@g[0-1]x[2-3]"]):
        mk([ws])
    # 6. where the default transport comes from
    rank_ids = {"mrsh": "r08", "rsh": "r06", "ssh": "r04", "exec": "r07"}
    for a, b in itertools.combinations(sorted(rank_ids), 2):
        mk([["h1", "u1@h2"]], loaded=("r01", "r02", "r03", rank_ids[a], rank_ids[b]))
    for a in sorted(rank_ids):
        mk([["h1", t2 + ":h2"]], loaded=("r01", "r02", "r03", rank_ids[a]))
    mk([["h1", t2 + ":h2"]], loaded=("r01", "r02", "r03"))              # nothing of the rank list loaded
    mk([["h1", "h2"]], loaded=("r01", "r02", "r03"))
    for R in (None, t2, "nosuch"):
        for ev in (None, t3, "nosuch"):
            mk([["h1", t1 + ":h2", "u1@h3"]], R=R, envtype=ev, loaded=("r01", "r02", "r03", "r04", "r06", "r08"))
    # 7. -l against user@
    mk([["u1@h1", "h2", t2 + ":h3", t2 + ":u2@h4"]], l="bob")
    mk([["u1@h1", "h2"]], ls=["bob", "x_y"], l="x_y")
    mk([["u1@h1", "h2"]])
    # 7b. user names at the limit opt.c enforces (login_name_max_len, generated): the longest legal name arrives
    #     whole, one byte more refuses the run -- from -l and from user@
    m = re.search(r"def MO_LOGIN_NAME_MAX : Nat := (\d+)", open(os.path.join(os.path.dirname(HARNESS), "lean", "PdshVerif", "Gen",
                                                                         "Modopt.lean")).read())
    lim = int(m.group(1)) if m else 256
    for n_ in (1, 8, 9, 16, 17, 31, 32, 33, lim - 1, lim, lim + 1, lim + 40):
        mk([["h1", "u1@h2"]], l="L" * n_)
        mk([["W" * n_ + "@h1", "h2"]], l="bob")
        mk([[t2 + ":" + "V" * n_ + "@h1", "u1@h1"]])
        # every -l is tested as it is read: one beyond the limit refuses the run although a later -l replaces it
        mk([["h1", "u1@h2"]], ls=["L" * n_, "bob"], l="bob")
        mk([["h1", "u1@h2"]], pre_l="L" * n_, l="bob")
    # 8. rank = position in the list that is left after the exclusions
    six = ["n1", "n2", "n3", "n4", "n5", "n6"]
    for ex in (["n1"], ["n6"], ["n3"], ["n2", "n4"], ["n1", "n2", "n3"], ["n1", "n6"], ["n5", "n6"]):
        mk([["n[1-6]"]], excl=ex, cmd=("echo", "%n"))
        mk([["u1@n[1-3]", t2 + ":n[4-6]"]], excl=ex, l="bob")
        mk([["n[1-2]"], ["u2@n[3-4]", "n[5-6]"]], excl=ex)
    mk([["u1@n[1-3]", "n[5-6]"]], excl=["n1"])
    mk([["k[9-11]", "u1@h[01-03]"]], excl=["k10", "h02"])
    # 9. degenerate annotations: empty user, empty type, '::', annotation without hosts, '@' and ':' in odd places
    for ws in (["@h1", "h2"], [t2 + ":@h1", "h1"], [":h1", "h2"], [t1 + "::h1"], ["u1@h1:x", "h2"], ["h1", "u1@"], ["h1", t2 + ":"],
               ["u1@u2@h1", "u2@h1"], [t2 + ":" + t3 + ":h1"], ["h1@", "h2"], ["u1@:h1"], [t1 + ":u1@h1:2", "h1:2"]):
        mk([ws], l="bob")
    # 10. the defaults are read AFTER the whole command line: a word is registered with what IT says, never with (or
    #     without, because it "repeats") the default in effect when it is read.  A typed / user@ word that repeats the
    #     default of that moment (-R / -l before it, PDSH_RCMD_TYPE), then a default that changes (-R / -l behind it, or
    #     between two -w) or a later word that names the same host differently
    for d0, other in ((t1, t3), (t2, t1)):
        for how in ("R-before", "env", "env+R-before"):
            pre = d0 if "R-before" in how else None
            ev = (d0 if how == "env" else other) if "env" in how else None
            for ws in ([[d0 + ":h1", "h2"]], [[d0 + ":u1@h1", other + ":h1", "h2"]], [[d0 + ":h[1-2]"], [other + ":u2@h[2-3]"]],
                       [["u1@h1", d0 + ":h1"], [other + ":h1", "h2"]], [[d0 + ":h1"], [d0 + ":u2@h1", other + ":h2"]]):
                for after in (None, other, d0):
                    mk(ws, pre_R=pre, envtype=ev, R=after)
                if len(ws) == 2:
                    mk(ws, pre_R=pre, envtype=ev, mid_R=other)
                    mk(ws, pre_R=pre, envtype=ev, mid_R=other, R=d0)
    for ws in ([["bob@h1", "h2"]], [["bob@h1"], ["u1@h1", "h2"]], [[t2 + ":bob@h[1-2]"], ["h2", "u2@h3"]]):
        mk(ws, pre_l="bob")
        mk(ws, pre_l="bob", l="u1")
        mk(ws, pre_l="u1", l="bob")
    # more targets than one batch of threads (fanout 32): the rank is still the position in the list
    mk([["n[1-40]"]], excl=["n7"])
    mk([["u1@n[1-20]", t2 + ":n[15-45]"]], l="bob")
    mk([["h[001-070]"]], excl=["h033", "h001"], cmd=("echo", "%n"))
    return out


def hostpart(w):
    """independent reading of [type:][user@]hosts, only used to GENERATE exclusions and targets"""
    if "@" in w:
        return w.split("@", 1)[1]
    if ":" in w and not w.split(":", 1)[1].startswith(":"):
        return w.split(":", 1)[1]
    return w


def earlier_ls(c):
    """the -l options of the command line before the last one (every option of a registry case takes an argument)"""
    av = c["argv"][:len(c["argv"]) - len(c["cmd"])]
    ls = [av[i + 1] for i in range(0, len(av) - 1, 2) if av[i] == "-l"]
    return " ls=" + "+".join(hx(x) for x in ls[:-1]) if len(ls) > 1 else ""


def reg_line(c, transports, luser):
    names = [transports[i] for i in c["loaded_ids"]]
    targets = []
    wtoks = []
    for w in c["words"]:
        hp = hostpart(w)
        try:
            first, full = expand_first(hp), expand_full(hp)
        except ValueError:
            first, full = [hp], [hp]
        targets += full
        wtoks.append("W=%s/%s/%s" % (hx(w), "+".join(hx(x) for x in first), "+".join(hx(x) for x in full)))
    for h in c["excl"]:
        if h in targets:
            targets.remove(h)
    opt = lambda v: "~" if v is None else hx(v)
    return "reg loaded=%s env=%s R=%s l=%s%s luser=%s T=%s %s" % (
        "+".join(hx(n) for n in names), opt(c["envtype"]), opt(c["R"]), opt(c["l"]), earlier_ls(c), hx(luser),
        "+".join(hx(t) for t in targets), " ".join(wtoks)), targets


def regcli_line(c, transports, luser):
    """the command line itself for the composed model (Driver/RcmdDrv.lean `regcli`): every -w / -x optarg as typed,
    in order; the target list and the names each word registers are computed by C02's model of opt.c + hostlist.c"""
    names = [transports[i] for i in c["loaded_ids"]]
    opt = lambda v: "~" if v is None else hx(v)
    evs = []
    av = c["argv"][:len(c["argv"]) - len(c["cmd"])]
    for i in range(0, len(av) - 1):
        if av[i] == "-w":
            evs.append("E=w:" + hx(av[i + 1]))
        elif av[i] == "-x":
            evs.append("E=x:" + hx(av[i + 1]))
    return "regcli loaded=%s env=%s R=%s l=%s%s luser=%s %s" % (
        "+".join(hx(n) for n in names), opt(c["envtype"]), opt(c["R"]), opt(c["l"]), earlier_ls(c), hx(luser), " ".join(evs))


def part_c(ctx, cov, dist, rng, repo, only=None):
    pool = preload.Pool(ctx)
    exe = os.path.join(repo, "src/pdsh/pdsh")
    if not (pool.build() and preload.check_imports(ctx, exe)):
        return
    transports = {d.id: d.name for d in pool.descs if d.rcmd}
    luser = pwd.getpwuid(1000).pw_name
    # which form of hostlist_register_rcmd is this?  (F09-2BR repaired = the registered names are expanded
    # like the target list: `u9@f[1-2]-[0-1]` makes f1-0 a u9 host)
    margs = ["model", "unchanged"]
    pr = preload.run_pdsh(pool, exe, ["-R", "t1", "-w", "u9@f[1-2]-[0-1]", "true"], moddir_env=pool.dir,
                          fake_dir=pool.dir, dirlist=["r01.so"], argv0=exe)
    plog = [l.split() for l in pr["log"] if l.startswith("rcmd ")]
    if plog and all(w[5] == hx("u9") for w in plog):
        margs.append("reexpand")
        ctx.log("hostlist_register_rcmd re-expands the names (F09-2BR repaired): model runs as `reexpand`")
    dist["reg_variant"] = " ".join(margs)
    n = 1600 if ctx.quick() else 20000
    recs = []
    pinned = pinned_reg_cases(transports) if only is None else []
    dist["reg_pinned"] = len(pinned)
    for c in (itertools.chain(pinned, (gen_reg_case(rng, transports) for _ in range(n))) if only is None else only):
        files = [pool.by_id[i].file for i in c["loaded_ids"]]
        rng.shuffle(files)
        extra_env = {"PDSH_RCMD_TYPE": c["envtype"]} if c["envtype"] is not None else {}
        r = preload.run_pdsh(pool, exe, c["argv"], moddir_env=pool.dir, fake_dir=pool.dir, dirlist=files,
                             extra_env=extra_env, argv0=exe)
        if r["rc"] not in (0, 1):
            # abnormal end (signal): an observable -- but only when it can be shown again; a one-off that does not
            # come back in 5 more runs of the same command line is counted and logged, not reported for C09
            again = [preload.run_pdsh(pool, exe, c["argv"], moddir_env=pool.dir, fake_dir=pool.dir, dirlist=files,
                                      extra_env=extra_env, argv0=exe) for _ in range(5)]
            bad = [x for x in again if x["rc"] not in (0, 1)]
            if not bad:
                dist["transient_abnormal_exit"] = dist.get("transient_abnormal_exit", 0) + 1
                cov.setdefault("transient", []).append({"argv": c["argv"], "rc": r["rc"], "PDSH_RCMD_TYPE": c["envtype"]})
                ctx.log("pdsh ended with status %s once on %s and not in 5 re-runs: counted, not reported" % (r["rc"], c["argv"]))
                r = again[0]
        line, targets = reg_line(c, transports, luser)
        recs.append((c, r, line, targets))
    text = "".join(l + "\n" for _, _, l, _ in recs)
    ml = ctx.model("rcmd", text, args=margs)
    sl = ctx.model("rcmd", text, args=["spec"])
    # end to end: the same runs computed from the command line alone (only when the code registers the re-expanded
    # names, which is what the composed model mirrors)
    cl = ctx.model("rcmd", "".join(regcli_line(c, transports, luser) + "\n" for c, _, _, _ in recs), args=margs) \
        if "reexpand" in margs else [None] * len(recs)
    dist["reg_cli_composed"] = 0
    distinct = set()
    for (c, r, line, targets), m, s, cm in zip(recs, ml, sl, cl):
        cov["evaluations"] += 1
        dist["reg"] += 1
        if cm is not None:
            dist["reg_cli_composed"] += 1
            if cm != m:
                ctx.disagreement("registry model fed by the check's expander vs composed with C02's hostlist model",
                                 "from the expander `%s`, from the command line `%s`" % (m[:300], cm[:300]), {"gen": c})
        reg_branches(c, m, s, dist["branches"])
        log = [l.split() for l in r["log"] if l.startswith("rcmd ")]
        log.sort(key=lambda w: int(w[6]))
        obs = "ok" + "".join(" %s|%s|%s|%s" % (hx(w[2]), w[3], w[5], w[6]) for w in log)
        case = {"argv": c["argv"], "PDSH_RCMD_TYPE": c["envtype"], "loaded": [transports[i] for i in c["loaded_ids"]],
                "words": c["words"], "targets": targets}
        if r["rc"] not in (0, 1):
            ctx.offender("crash", "pdsh ends with status %s" % r["rc"], {"case": case, "gen": c, "stderr": r["err"][-600:]})
            continue
        if r["rc"] == 1 and not log:
            obs = "fatal"
            dist["reg_fatal"] += 1
        if m.startswith("ok") and any(x.startswith("~|") for x in m.split()[1:]):
            # hosts without any module are cancelled: no connection, hence no log line
            m_cmp = "ok" + "".join(" " + x for x in m.split()[1:] if not x.startswith("~|"))
        else:
            m_cmp = m
        if obs != m_cmp and not (m_cmp == "ok" and not log):
            ctx.disagreement("registry model vs pdsh", "impl `%s` model `%s`" % (obs[:300], m[:300]), {"gen": c})
        # the command text reaches the transport verbatim (argv joined by single blanks), local user as is
        want_cmd = hx(" ".join(c["cmd"]))
        for w in log:
            if w[7] != want_cmd or w[4] != hx(luser):
                ctx.offender("reg:command-text", "transport %s got command `%s` / local user `%s`, expected `%s` / `%s`" % (
                    w[2], unhx(w[7]), unhx(w[4]), " ".join(c["cmd"]), luser), {"case": case, "gen": c, "log": w})
                break
        if s == "nodomain":
            dist["reg_nodomain"] += 1
            continue
        key = (tuple(c["words"]), c["l"], c["R"], c["envtype"], tuple(c["excl"]))
        # coverage: two targets, one name a proper string prefix of the other, that must be contacted differently
        want = {}
        for x in s.split()[1:]:
            t_, h_, u_, _ = x.split("|")
            want[unhx(h_)] = (t_, u_)
        hs = sorted(want)
        if any(a != b and b.startswith(a) and want[a] != want[b] for a in hs for b in hs):
            dist["reg_prefix_pair_differs"] = dist.get("reg_prefix_pair_differs", 0) + 1
        if len(set(targets)) < len(targets):
            dist["reg_repeated_host"] = dist.get("reg_repeated_host", 0) + 1
        if c["excl"]:
            dist["reg_excluded"] = dist.get("reg_excluded", 0) + 1
        annotated = sum(1 for w in c["words"] if "@" in w or ":" in w)
        if annotated >= 1 and len(set(targets)) < len(targets) or annotated >= 2:
            distinct.add(key)
        if len(cov["samples"]) < 5 and annotated >= 2 and len(targets) <= 6:
            cov["samples"].append({"case": case, "observed": obs, "spec": s})
        if obs != s and not (s == "ok" and not log):
            # the known-finding class exists only in the code that registers first-level names
            two = "reexpand" not in margs and any(w.count("[") >= 2 and ("@" in w or ":" in w) for w in c["words"])
            sig = "reg:two-bracket-annotated" if two else "reg:mismatch"
            dist["offenders"][sig] = dist["offenders"].get(sig, 0) + 1
            ctx.offender(sig, "connections differ from the specification: observed `%s`, specified `%s` (type|host|user|rank)" % (
                " ".join("|".join(unhx(y) if k < 3 else y for k, y in enumerate(x.split("|"))) for x in obs.split()[1:]),
                " ".join("|".join(unhx(y) if k < 3 else y for k, y in enumerate(x.split("|"))) for x in s.split()[1:])),
                {"case": case, "gen": c})
    cov["distinct_nontrivial"] += len(distinct)


# ------------------------------------------------------------------------------------- (b) real pdsh -R exec

def part_b(ctx, cov, dist, rng, repo, variant, only=None):
    helper = os.path.join(ctx.scratch, "argdump")
    p = subprocess.run(["gcc", "-O1", "-o", helper, os.path.join(HARNESS, "argdump.c")], stderr=subprocess.PIPE)
    if p.returncode != 0:
        ctx.disagreement("harness build argdump", p.stderr.decode()[-500:])
        return
    exe = os.path.join(repo, "src/pdsh/pdsh")
    n = 350 if ctx.quick() else 4000
    pieces = ["", "a", "%h", "%", "x%", "%%", "%%%", "%u-%n", "%x%y", "--opt=%h", "a b", "%%h", "%h%u%n%%", "-n", "%n%"]
    env = {"PATH": "/usr/bin:/bin", "ZV": "q%h"}
    envblock = b"".join(("%s=%s" % kv).encode() + b"\0" for kv in env.items())
    lines, mlines, recs = [], [], []
    def gen():
        hosts = rng.sample(["h1", "h2", "h3", "n7", "zz"], rng.choice([1, 2, 3]))
        user = rng.choice([None, "u1", "bob"])
        k = rng.choice([0, 1, 2, 2, 3, 4])
        args = [rng.choice(pieces) if rng.random() < 0.75 else "".join(rng.choice(ALPHA) for _ in range(rng.randrange(0, 6)))
                for _ in range(k)]
        g = {"hosts": hosts, "user": user, "args": args}
        if rng.random() < 0.12:
            # interactive mode: no command words, the command line comes from stdin and goes to `sh -c`
            g["stdin"] = " ".join(rng.choice(["a", "%h", "%u-%n", "x%%y", "%x", "b7", "%h%n"]) for _ in range(rng.randrange(0, 4)))
            g["args"] = []
        return g
    def pinned():
        """every run: each %-sequence alone, at the start, in the middle, at the end, doubled and as two arguments;
        arguments whose result crosses the growth steps of the result string"""
        out = []
        toks = ["%h", "%u", "%n", "%%", "%x", "%", "", "%%h", "%h%u", "%%%", "%%%%", "%n%", "%hh", "%%u%%"]
        for t in toks:
            for args in ([t], ["x" + t], [t + "y"], ["x" + t + "y"], [t + t], [t, t], ["a", t, "b"]):
                out.append({"hosts": ["h1", "n7"], "user": "bob", "args": args, "pinned": True})
        for base in (32, 64, 1024, 4096):
            for k in (base - 3, base - 2, base - 1, base):
                out.append({"hosts": ["zz"], "user": None, "args": ["a" * k + "%h%n", "%u" + "b" * k + "%"], "pinned": True})
        for line in ("", "a", "%h", "%u-%n x%%y", "%x %", "b7 %h%n  c"):
            out.append({"hosts": ["h2", "h3"], "user": "u1", "args": [], "stdin": line, "pinned": True})
        return out
    for g in (itertools.chain(pinned(), (gen() for _ in range(n))) if only is None else only):
        hosts, user, args = g["hosts"], g["user"], g["args"]
        inter = g.get("stdin")
        argv = ["-R", "exec", "-w", ",".join(hosts)] + (["-l", user] if user else []) + ([] if inter is not None else [helper] + args)
        try:
            q = subprocess.run([exe] + argv, env=env, stdout=subprocess.PIPE, stderr=subprocess.PIPE,
                               input=((helper + " " + inter + "\n").encode() if inter is not None else b""),
                               timeout=30, cwd=ctx.scratch)
            rc, out = q.returncode, q.stdout.decode("latin-1")
        except subprocess.TimeoutExpired:
            ctx.offender("timeout", "pdsh -R exec does not finish", {"argv": argv, "gen": g})
            continue
        got = {}
        for l in out.splitlines():
            if ": argv " in l:
                h, rest = l.split(": argv ", 1)
                got[h.split("> ")[-1]] = rest.split()[1:]      # interactive mode prints its prompt in front
        for rank, h in enumerate(hosts):
            if inter is not None:
                cmdline = (helper + " " + inter).strip()
                line = "args %s %s %d %s %s %s" % (hx(h), hx(user or "root"), rank, hx("sh"), "-",
                                                   " ".join(hx(a) for a in ["-c", cmdline]))
                mline = "execv %s %s %d %s %s" % (hx(h), hx(user or "root"), rank, "-", hx(cmdline))
            else:
                line = "args %s %s %d %s %s %s" % (hx(h), hx(user or "root"), rank, hx("argdump"), bh(envblock),
                                                   " ".join(hx(a) for a in args))
                mline = "execv %s %s %d %s %s %s" % (hx(h), hx(user or "root"), rank, bh(envblock),
                                                     hx(" ".join([helper] + args)), " ".join(hx(a) for a in [helper] + args))
            lines.append(line)
            mlines.append(mline)
            recs.append((argv, h, got.get(h), g))
    text = "".join(l + "\n" for l in lines)
    ml = ctx.model("rcmd", "".join(l + "\n" for l in mlines), args=["model", variant])
    sl = ctx.model("rcmd", text, args=["spec"])
    for line, (argv, h, got, g), m, s in zip(lines, recs, ml, sl):
        cov["evaluations"] += 1
        dist["cli"] += 1
        case = {"argv": argv, "host": h, "gen": g}
        if got is None:
            ctx.offender("cli:no-output", "helper produced no argv line for host %s" % h, case)
            continue
        if m == "ub":
            # reading past the environment block would be needed: not predicted
            continue
        if g.get("stdin") is not None:
            # execvp ("sh", {"sh", "-c", LINE}): the helper sees LINE cut at blanks by the shell
            dist["cli_interactive"] = dist.get("cli_interactive", 0) + 1
            mv, sv = m.split()[2:], s.split()[1:]
            if len(mv) != 3 or mv[:2] != [hx("sh"), hx("-c")] or [hx(x) for x in unhx(mv[2]).split()] != got:
                ctx.disagreement("exec model vs pdsh -R exec (interactive)", "helper saw `%s`, model `%s`" % (got, m), case)
            if len(sv) != 3 or [hx(x) for x in unhx(sv[2]).split()] != got:
                ctx.offender("cli:interactive", "interactive -R exec: the helper sees %s, the specified `sh -c` line is %r" % (
                    [unhx(x) for x in got], unhx(sv[2]) if len(sv) == 3 else s), case)
            continue
        if got != m.split()[2:] or m.split()[1] != hx(helper):
            ctx.disagreement("exec model vs pdsh -R exec", "helper saw `%s`, model `%s`" % (got, m), case)
        if got != s.split()[1:]:
            sig = fmt_signature(line).replace("args:", "cli:")
            dist["offenders"][sig] = dist["offenders"].get(sig, 0) + 1
            ctx.offender(sig, "the helper run through -R exec sees argv %s, specified %s" % (
                [unhx(x) for x in got], [unhx(x) for x in s.split()[1:]]), case)


# ------------------------------------------------------------------------------------- (d) rsh wire request

PEER_PREFIX = "127.9.17."                      # canonical spelling in generated cases and replay files
PEER_ADDRS = [PEER_PREFIX + "%d" % i for i in range(1, 5)]


class RshPeer:
    """scripted rsh server: records the bytes received before its first reply, connects back to the
    announced stderr port from a reserved port, answers "\\0", sends one line, closes.

    Port 514 is fixed by the protocol, so two runs of this check at the same time (sweeps, several agents)
    cannot both listen on the same loopback address: every run takes the first FREE group of four
    addresses 127.19.X.1-4 (all of 127/8 is loopback); cases and replay files spell the canonical
    127.9.17.N, `tr` maps them to the addresses of this run."""

    def __init__(self):
        import socket
        import threading
        self.got = []
        self.lock = threading.Lock()
        self.socks = []
        last = None
        for attempt in range(120):
            prefix = PEER_PREFIX if attempt == 0 else "127.19.%d." % ((os.getpid() * 7 + attempt * 13) % 250 + 2)
            socks = []
            try:
                for i in range(1, 5):
                    s = socket.socket()
                    s.setsockopt(socket.SOL_SOCKET, socket.SO_REUSEADDR, 1)
                    socks.append(s)
                    s.bind((prefix + str(i), 514))
                    s.listen(16)
            except OSError as e:
                last = e
                for s in socks:
                    s.close()
                continue
            self.prefix = prefix
            self.socks = socks
            break
        else:
            raise last
        for i, s in enumerate(self.socks):
            threading.Thread(target=self.accept_loop, args=(s, prefix + str(i + 1)), daemon=True).start()

    def tr(self, x):
        """canonical 127.9.17.N -> this run's address (strings, lists and dict keys)"""
        if isinstance(x, str):
            return x.replace(PEER_PREFIX, self.prefix)
        if isinstance(x, list):
            return [self.tr(y) for y in x]
        if isinstance(x, dict):
            return {self.tr(k): v for k, v in x.items()}
        return x

    def accept_loop(self, s, addr):
        import threading
        while True:
            try:
                c, peer = s.accept()
            except OSError:
                return
            threading.Thread(target=self.handle, args=(c, peer, addr), daemon=True).start()

    def handle(self, c, peer, addr):
        import socket
        c.settimeout(10)
        data = b""
        back = None
        backok = None
        try:
            while data.count(b"\0") < 1:
                b = c.recv(1)
                if not b:
                    break
                data += b
            port = data.split(b"\0")[0]
            if port.isdigit():
                backok = False
                for lp in range(1023, 511, -1):
                    try:
                        back = socket.socket()
                        back.bind((addr, lp))
                        back.connect((peer[0], int(port)))
                        backok = True
                        break
                    except OSError:
                        back.close()
                        back = None
            if backok is False:
                # pdsh sits in xpoll until its listening socket or this one becomes readable: nothing more will
                # come; what was received so far is the observation
                c.settimeout(0.5)
            while data.count(b"\0") < 4:
                b = c.recv(65536)
                if not b:
                    break
                data += b
            with self.lock:
                self.got.append((addr, peer[1], data, backok))
            if data.count(b"\0") < 4:
                return
            c.sendall(b"\0")
            c.sendall(b"ok\n")
        except OSError:
            with self.lock:
                self.got.append((addr, peer[1], data, backok))
        finally:
            if back:
                # the side that closes first keeps its local port in TIME_WAIT for a minute; here that would be a
                # RESERVED port (the source of the back-connection), and pdsh's rresvport(), which binds without
                # SO_REUSEADDR, finds "all ports in use" after some 500 runs.  RST instead of FIN: no TIME_WAIT.
                import struct
                try:
                    back.setsockopt(socket.SOL_SOCKET, socket.SO_LINGER, struct.pack("ii", 1, 0))
                except OSError:
                    pass
                back.close()
            c.close()

    def take(self):
        with self.lock:
            g, self.got = self.got, []
        return g

    def close(self):
        for s in self.socks:
            s.close()


def reserved_ports_in_use():
    """how many of the ports 512..1023 are the local port of some TCP socket (any state, TIME_WAIT included)"""
    ports = set()
    try:
        for line in open("/proc/net/tcp").read().splitlines()[1:]:
            f = line.split()
            p_ = int(f[1].split(":")[1], 16)
            if 512 <= p_ <= 1023 and p_ != 514:
                ports.add(p_)
    except (OSError, ValueError, IndexError):
        pass
    return len(ports)


def part_d(ctx, cov, dist, rng, repo, only=None):
    try:
        peer = RshPeer()
    except OSError as e:
        dist["rsh"] = "skipped: cannot listen on %s:514 (%s)" % (PEER_ADDRS[0], e)
        ctx.log("rsh wire part skipped: %s" % e)
        return
    exe = os.path.join(repo, "src/pdsh/pdsh")
    luser = pwd.getpwuid(os.getuid()).pw_name
    n = 60 if ctx.quick() else 500
    dist["rsh"] = 0
    recs, slow = [], 0
    try:
        def gen():
            addrs = rng.sample(PEER_ADDRS, rng.choice([1, 2, 3]))
            words, want = [], {}
            for a in addrs:
                if rng.random() < 0.4:
                    u = rng.choice(USERS)
                    words.append(u + "@" + a)
                    want[a] = u
                else:
                    words.append(a)
                    want[a] = None
            l = rng.choice([None, None, "bob", "u2"])
            cmd = rng.choice([["true"], ["echo", "a  b", "%h%%"], ["sh", "-c", "x;y  z"], ["uname", "-a", "%"], ["c", "", "d"]])
            if rng.random() < 0.45:
                # long commands: the whole request (port, users, command) straddles the usual buffer sizes
                total = rng.choice([1020, 1024, 2040, 2047, 2048, 2049, 2060, 4095, 4096, 4097, 8191, 8192, 8193,
                                    20000, 65000]) + rng.randrange(-3, 4)
                base = len(" ".join(cmd)) + 1
                pad = max(1, total - base - 16)
                cmd = cmd + [("y" * (pad - 1)) + "Z"]
            return {"addrs": addrs, "words": words, "want": want, "l": l, "cmd": cmd}

        def sweep():
            """one request for EVERY value of  strlen(luser)+1+strlen(ruser)+1+strlen(cmd)  in a window around each
            buffer size c = LINEBUFSIZE (generated from dsh.h of the tree under test), 256, 512, 1024, 4096, 8192,
            65536.  With the local user as remote user the window is [c-14, c+18+2*(len(luser)-4)]: it contains
            c +-8 for each of the totals a maintainer might compare with a buffer size -- the three strings with
            or without the last NUL, the command alone, the whole request including the port field; with a longer
            remote user [c-8, c+8]"""
            m = re.search(r"def LINEBUFSIZE : Nat := (\d+)", open(os.path.join(os.path.dirname(HARNESS), "lean", "PdshVerif", "Gen",
                                                                          "Dsh.lean")).read())
            lbs = int(m.group(1)) if m else 2048
            dist["rsh_linebufsize"] = lbs
            out = []
            for ruser in (None, "a_longer_remote_user"):
                ru = ruser or luser
                for c in sorted({lbs, 256, 512, 1024, 4096, 8192, 65536}):
                    lo, hi = (c - 14, c + 8 + len(luser) + len(ru) + 2) if ruser is None else (c - 8, c + 8)
                    for s_ in range(lo, hi + 1):
                        k = s_ - len(luser) - len(ru) - 2
                        out.append({"addrs": [PEER_ADDRS[0]], "words": [PEER_ADDRS[0]], "want": {PEER_ADDRS[0]: None}, "l": ruser,
                                    "cmd": ["e " + "y" * (k - 3) + "Z"], "sweep": s_})
            return out

        def pinned():
            """run first in every run: (1) the reserved port directly below the primary socket's port is busy (this
            check holds every even port of 960..1022 while pdsh runs), so rresvport() has to move on and the port
            announced in the request must be the one it really got; (2) remote users of every legal shape, from -l
            and from user@"""
            out = []
            a1, a2, a3 = PEER_ADDRS[:3]
            for words, l, cmd in (([a1], None, ["true"]), ([a1, "bob@" + a2, a3], "u2", ["echo", "a  b", "%h%%"]),
                                  ([a2], None, ["e", "y" * 2100]), (["x_y@" + a3, a1], None, ["sh", "-c", "x;y  z"])):
                want = {w.split("@")[-1]: (w.split("@")[0] if "@" in w else None) for w in words}
                out.append({"addrs": [w.split("@")[-1] for w in words], "words": words, "want": want, "l": l, "cmd": cmd,
                            "busy": True})
            shapes = ["a", "x_y", "u-1", "u.v", "U9", "9lives", "svc$", "_", "a" * 31, "b" * 32, "c" * 33, "d" * 64, "e" * 255,
                      "root", luser]
            for i, u in enumerate(shapes):
                if i % 2:
                    out.append({"addrs": [a1, a2], "words": [u + "@" + a1, a2], "want": {a1: u, a2: None}, "l": None,
                                "cmd": ["id"], "shape": True})
                else:
                    out.append({"addrs": [a1, a2], "words": [a1, "bob@" + a2], "want": {a1: None, a2: "bob"}, "l": u,
                                "cmd": ["id"], "shape": True})
            return out

        def hold_ports(ports):
            import socket
            held = []
            for p_ in ports:
                s_ = socket.socket()
                try:
                    s_.bind(("0.0.0.0", p_))           # bound, not listening: a connection attempt is refused
                    held.append(s_)
                except OSError:
                    s_.close()                         # somebody else has it: busy all the same
            return held
        import itertools as _it
        for g in (_it.chain(pinned(), sweep(), (gen() for _ in range(n))) if only is None else only):
            if slow >= 3:
                break
            g = dict(g, addrs=peer.tr(g["addrs"]), words=peer.tr(g["words"]), want=peer.tr(g["want"]))
            addrs, words, want, l, cmd = g["addrs"], g["words"], g["want"], g["l"], g["cmd"]
            argv = ["-R", "rsh", "-w", ",".join(words)] + (["-l", l] if l else []) + cmd
            q, got = None, []
            timeouts = 0
            for attempt in range(6):
                held = hold_ports(range(1022, 958, -2)) if g.get("busy") else []
                try:
                    q = subprocess.run([exe] + argv, env={"PATH": "/usr/bin:/bin"}, stdout=subprocess.PIPE,
                                       stderr=subprocess.PIPE, stdin=subprocess.DEVNULL, timeout=60, cwd=ctx.scratch)
                except subprocess.TimeoutExpired:
                    q = None
                    timeouts += 1
                finally:
                    for s_ in held:
                        s_.close()
                got = peer.take()
                if q is None:
                    if timeouts >= 2:
                        break
                    continue                # a time-out alone is tried once more before it is reported
                # The machine's 512 reserved ports are shared with every other process (other checks running at the
                # same time, their sockets in TIME_WAIT).  When they run out pdsh either says so ("all ports in use",
                # no connection) or -- when only the stderr socket gets none -- silently drops a connection it has
                # just opened.  Both are the environment, not the handshake: if most reserved ports are taken, wait
                # for them and try the case again; an anomaly that shows again with ports to spare is reported.
                odd = b"all ports in use" in q.stderr or len(got) != len(addrs) or \
                    any(data.count(b"\0") < 4 for _, _, data, _ in got)
                if odd and attempt < 5 and reserved_ports_in_use() > 300:
                    dist["rsh_reserved_ports_exhausted_retries"] = dist.get("rsh_reserved_ports_exhausted_retries", 0) + 1
                    for _ in range(16):
                        time.sleep(5)
                        if reserved_ports_in_use() <= 200:
                            break
                    continue
                break
            if q is None:
                ctx.offender("timeout", "pdsh -R rsh against the scripted peer does not finish", {"argv": argv, "gen": g})
                slow += 1
                continue
            if g.get("busy"):
                dist["rsh_busy_port_cases"] = dist.get("rsh_busy_port_cases", 0) + 1
            if g.get("shape"):
                dist["rsh_user_shape_cases"] = dist.get("rsh_user_shape_cases", 0) + 1
            case = {"argv": argv, "gen": g, "rc": q.returncode, "stderr": q.stderr.decode("latin-1")[-300:]}
            recs.append((g, case, got))
            # a broken handshake makes every run wait for time-outs: stop generating after three such runs (the
            # verdicts come from the specification below; this only bounds the time)
            if any(data.count(b"\0") < 4 or backok is False for _, _, data, backok in got) or len(got) < len(addrs):
                slow += 1
        # verdicts, in two batches: what the specification parses out of each received request, and what the
        # model of xrcmd's write order sends for the specified fields
        flat = [(g, case, x) for g, case, got in recs for x in got]
        parsed = ctx.model("rcmd", "".join("parse " + bh(x[2]) + "\n" for _, _, x in flat), args=["spec"]) if flat else []
        wl = []
        for (g, case, (addr, sport, data, backok)), pl in zip(flat, parsed):
            pf = unhx(pl.split()[1]) if pl.startswith("ok ") else ""
            wl.append("writes %s %s %s %s\n" % (pf if pf else "none", hx(luser), hx(g["want"].get(addr) or g["l"] or luser),
                                                hx(" ".join(g["cmd"]))))
        written = ctx.model("rcmd", "".join(wl), args=["model", "unchanged"]) if wl else []
        seen = {}
        for (g, case, (addr, sport, data, backok)), pl, ml in zip(flat, parsed, written):
            cov["evaluations"] += 1
            dist["rsh"] += 1
            pf0 = data.split(b"\0")[0]
            if pf0.isdigit() and int(pf0) != sport - 1:
                # rresvport() had to pass over a busy port between the primary socket's and the stderr socket's
                dist["rsh_stderr_port_not_adjacent"] = dist.get("rsh_stderr_port_not_adjacent", 0) + 1
                if g.get("busy"):
                    dist["rsh_busy_port_effective"] = dist.get("rsh_busy_port_effective", 0) + 1
            seen[(id(case), addr)] = seen.get((id(case), addr), 0) + 1
            if not pl.startswith("ok "):
                ctx.offender("rsh:malformed-request", "the rsh request for %s (%d bytes) is not four NUL-terminated "
                             "fields: %r ... (stderr channel connected: %s)" % (addr, len(data), data[:80], backok),
                             dict(case, request_len=len(data)))
                continue
            pf, lu, ru, cm = [unhx(x) for x in pl.split()[1:]]
            if g.get("sweep") is not None:
                # the total the sweep is about, measured on what the peer really received
                dist.setdefault("rsh_sweep_lengths", {}).setdefault("luser=%d,ruser=%d" % (len(lu), len(ru)), []).append(
                    len(lu) + 1 + len(ru) + 1 + len(cm))
            exp_ru = g["want"].get(addr) or g["l"] or luser
            exp_cmd = " ".join(g["cmd"])
            okport = (pf == "" and backok is None) or (pf.isdigit() and backok is True)
            if not (okport and lu == luser and ru == exp_ru and cm == exp_cmd):
                ctx.offender("rsh:request", "rsh request for %s is (port %r, local %r, remote %r, command %r, stderr "
                                            "channel connected: %s); specified (a listening port, %r, %r, %r)" % (
                    addr, pf, lu, ru, cm[:60] + ("..." if len(cm) > 60 else ""), backok, luser, exp_ru,
                    exp_cmd[:60] + ("..." if len(exp_cmd) > 60 else "")), dict(case, request_len=len(data), command_len=len(cm),
                                                                                expected_command_len=len(exp_cmd)))
            dist.setdefault("rsh_request_len", {})
            bucket = "<=1024" if len(data) <= 1024 else "<=2048" if len(data) <= 2048 else "<=4096" if len(data) <= 4096 \
                else "<=8192" if len(data) <= 8192 else ">8192"
            dist["rsh_request_len"][bucket] = dist["rsh_request_len"].get(bucket, 0) + 1
            # correspondence with the model of xrcmd's write order
            if ml != bh(data):
                ctx.disagreement("rsh request model vs xrcmd", "peer got %s, model %s" % (bh(data)[:400], ml[:400]), case)
        for g, case, got in recs:
            for a in g["addrs"]:
                if seen.get((id(case), a), 0) != 1:
                    ctx.offender("rsh:no-connection", "target %s was contacted %d times through rsh" % (
                        a, seen.get((id(case), a), 0)), case)
    finally:
        peer.close()


# ------------------------------------------------------------------------------------- (f) xrcmd in a scripted world

def xe_part(ctx, cov, dist, rng, exe, lbs):
    """the text of a REFUSAL as xrcmd relays it (Exec/XrcmdErr.lean): replies `verdict text` with the first line ending
    before, on and behind every boundary of the LINEBUFSIZE buffer, with and without a newline, more lines behind it.
    impl vs model, and impl vs the specification: the first line of the server's text, whole when it fits the buffer
    with its "\\n\\0", else a prefix of it that does -- never anything else"""
    texts = []
    for n_ in [0, 1, 2, 17, 200] + list(range(lbs - 6, lbs + 4)) + [lbs + 900, 2 * lbs - 100]:
        n_ = min(n_, 3900)
        body = bytes(rng.choice(b"abcdefghijklmnopqrstuvwxyz :.%/-") for _ in range(n_))
        texts += [body, body + b"\n", body + b"\nsecond line\n", body[:n_ // 2] + b"\n" + body[n_ // 2:]]
    texts += [b"\n", b"\n\n", b"Permission denied.\n", b"x" * 40 + b"\r\n"]
    lines = ["xe " + hx(bytes([rng.choice([1, 1, 2, 255])]) + t) for t in texts]
    lines += ["xe " + hx(b"\0"), "xe -"]
    (ans, crash), = run_batch([exe], [lines], env=SAN_ENV, timeout=300)
    if crash is not None:
        k = len(ans)
        ctx.offender("crash", "xrcmd.c aborts while relaying the server's refusal `%s`: %s" % (lines[k][:100] if k < len(lines) else "?",
                                                                                          crash[-500:]),
                     {"xe": lines[k] if k < len(lines) else None})
        lines = lines[:k]
    ml = ctx.model("rcmd", "".join(l + "\n" for l in lines), args=["model", "unchanged"]) if lines else []
    dist["xe"] = len(lines)
    for l, a, m in zip(lines, ans, ml):
        cov["evaluations"] += 1
        if a != m:
            ctx.disagreement("xrcmd error text vs model", "impl `%s` model `%s`" % (a[:200], m[:200]), {"xe": l})
        rb = bytes.fromhex(l.split()[1]) if l.split()[1] != "-" else b""
        if rb[:1] in (b"", b"\0"):
            if a != "err ~":
                ctx.offender("xr:error-text", "a diagnostic with a server text although the server did not refuse: `%s`" % a[:120], {"xe": l})
            continue
        first = rb[1:].split(b"\n")[0]
        got = None if a in ("err ~",) or not a.startswith("err ") else (b"" if a[4:] == "-" else bytes.fromhex(a[4:]))
        ok = got is not None and got.endswith(b"\n") and first.startswith(got[:-1]) and len(got) + 1 <= lbs and \
            (got[:-1] == first or len(first) + 2 > lbs)
        if not ok:
            dist.setdefault("offenders", {})["xr:error-text"] = dist.get("offenders", {}).get("xr:error-text", 0) + 1
            ctx.offender("xr:error-text", "the server's refusal `%s...` (first line %d bytes) is relayed as `%s...` (%s bytes)" % (
                first[:40], len(first), (got or b"")[:40], "?" if got is None else len(got)), {"xe": l})


def part_f(ctx, cov, dist, rng, only=None):
    """the unmodified xrcmd.c in harness/xrcmd_harness.c: which reserved ports are busy, what every connect() answers,
    whether sleep() is interrupted, what xpoll()/accept() report and what the peer replies are the case; observed:
    every call on xrcmd's sockets in order.  vs `pdshmodel rcmd model` (xr lines, Exec/Xrcmd.lean) and judged by
    `pdshmodel rcmd spec` (xrobs lines, Exec/XrcmdSpec.lean): nothing written before a connect() succeeded; a call
    that returns a socket has written exactly port NUL luser NUL ruser NUL cmd NUL with the port of a socket that is
    listening when the first byte goes out (empty without the stderr channel)"""
    exe = os.path.join(ctx.scratch, "xrcmd_harness")
    if not ctx.cc(exe, [os.path.join(HARNESS, "xrcmd_harness.c")], san=True, assertions=True):
        return
    conns = ["o", "ao", "aao", "ro", "rro", "aro", "rao", "rrrrro", "rrrrrr", "rrrrrro", "x", "ax", "rx", "a" * 12 + "o", "-",
             "arararo", "aaax"]
    busys = ["-", "1022", "1023", "1022,1021,1020", "1023,1022", ",".join(str(x) for x in range(1022, 958, -2)),
             ",".join(str(x) for x in range(513, 1024)), ",".join(str(x) for x in range(512, 1024)),
             ",".join(str(x) for x in range(514, 1024)), "1021", ",".join(str(x) for x in range(1023, 900, -1))]
    accs = ["1000", "512", "1023", "511", "1024", "5000", "0", "~", "65535"]
    replies = ["00", "-", "~", hx("\x01no\n"), hx("\x00A"), hx("\x01" + "e" * 100), hx("\n"), hx("\x01")]
    users = ["root", "a", "x_y", "u" * 32, "svc$"]
    cmds = ["true", "", "echo a  b %h%%", "y" * 2040, "y" * 2048, "y" * 5000, "e " + "z" * 2039]

    def line(errch, lu, ru, cmd, busy, cs, sl, po, acc, reply):
        return "xr %d %s %s %s %s %s %d %d %s %s" % (errch, hx(lu), hx(ru), hx(cmd), busy, cs, sl, po, acc, reply)
    cases = []
    if only is None:
        for errch in (1, 0):
            for cs in conns:
                for busy in busys:
                    cases.append(line(errch, "root", "bob", "true", busy, cs, 1, 1, "1000", "00"))
            for cs in ("ro", "rrro", "rrrrrr"):
                cases.append(line(errch, "root", "bob", "true", "-", cs, 0, 1, "1000", "00"))
            for acc in accs:
                for po in (1, 0):
                    for busy in ("-", "1022"):
                        cases.append(line(errch, "root", "bob", "id", busy, "o", 1, po, acc, "00"))
            for reply in replies:
                for busy in ("-", "1022,1021"):
                    cases.append(line(errch, "root", "bob", "id", busy, "ao", 1, 1, "900", reply))
            for lu in users:
                for ru in users[1:]:
                    cases.append(line(errch, lu, ru, "id", "1022", "o", 1, 1, "1000", "00"))
            for cmd in cmds:
                cases.append(line(errch, "root", "bob", cmd, "1022", "ao", 1, 1, "1000", "00"))
        n = 1500 if ctx.quick() else 20000
        for _ in range(n):
            cs = rng.choice(conns) if rng.random() < 0.6 else "".join(rng.choice("aarrox") for _ in range(rng.randrange(1, 9)))
            busy = rng.choice(busys) if rng.random() < 0.5 else \
                ",".join(str(x) for x in sorted(rng.sample(range(1000, 1024), rng.randrange(0, 12)), reverse=True)) or "-"
            cases.append(line(rng.choice([1, 1, 0]), rng.choice(users), rng.choice(users), rng.choice(cmds), busy, cs,
                              rng.choice([1, 1, 1, 0]), rng.choice([1, 1, 1, 0]), rng.choice(accs + ["1000"] * 6),
                              rng.choice(replies + ["00"] * 8)))
        # the peer refuses with an error text: xrcmd copies it into a LINEBUFSIZE stack buffer up to the first newline.
        # Texts that end before, on and behind the end of that buffer, LAST in the batch (an abort ends the batch)
        m_ = re.search(r"def LINEBUFSIZE : Nat := (\d+)", open(os.path.join(os.path.dirname(HARNESS), "lean", "PdshVerif", "Gen",
                                                                        "Dsh.lean")).read())
        lbs = int(m_.group(1)) if m_ else 2048
        for n_ in (lbs - 4, lbs - 3, lbs - 2, lbs - 1, lbs, lbs + 900):
            cases.append(line(1, "root", "bob", "id", "-", "o", 1, 1, "1000", hx("\x01" + "e" * n_)))
            cases.append(line(0, "root", "bob", "id", "-", "o", 1, 1, "1000", hx("\x01" + "e" * (n_ - 1) + "\n")))
    else:
        cases = list(only)
    # an abort ends a batch: report the case, go on behind it (at most 8 times), so that the cases behind a known
    # finding are still run
    m_ = re.search(r"def LINEBUFSIZE : Nat := (\d+)", open(os.path.join(os.path.dirname(HARNESS), "lean", "PdshVerif", "Gen",
                                                                    "Dsh.lean")).read())
    lbs = int(m_.group(1)) if m_ else 2048
    done_cases, ans, todo = [], [], list(cases)
    for _round in range(8):
        if not todo:
            break
        (a_, crash), = run_batch([exe], [todo], env=SAN_ENV, timeout=600)
        done_cases += todo[:len(a_)]
        ans += a_
        if crash is None:
            todo = []
            break
        k = len(a_)
        sig = "crash"
        if k < len(todo):
            rp = todo[k].split()[10]
            rb = bytes.fromhex(rp) if rp not in ("-", "~") else b""
            text = rb[1:].split(b"\n")[0] + (b"\n" if b"\n" in rb[1:] else b"")
            if rb[:1] not in (b"", b"\0") and len(text) + (0 if text.endswith(b"\n") else 1) + 1 > lbs:
                sig = "xr:error-reply-overflow"      # the known-finding class: decided from the INPUT alone
        dist["offenders"][sig] = dist["offenders"].get(sig, 0) + 1
        ctx.offender(sig, "xrcmd.c aborts (sanitizer report / fault) on `%s`: %s" % (todo[k][:120] if k < len(todo) else "?",
                                                                                    crash[-700:]),
                     {"xr": todo[k] if k < len(todo) else None})
        todo = todo[k + 1:]
    cases = done_cases
    if only is None and not dist.get("offenders", {}).get("xr:error-reply-overflow"):
        xe_part(ctx, cov, dist, rng, exe, lbs)
    ml = ctx.model("rcmd", "".join(c + "\n" for c in cases), args=["model", "unchanged"]) if cases else []
    obs = []
    for c, a in zip(cases, ans):
        w = c.split()
        obs.append("xrobs %s %s %s %s %s" % (w[1], w[2], w[3], w[4], a))
    sl = ctx.model("rcmd", "".join(o + "\n" for o in obs), args=["spec"]) if obs else []
    dist["xr"] = 0
    b = dist.setdefault("xr_branches", {})

    def hit(k):
        b[k] = b.get(k, 0) + 1
    seen = set()
    for c, a, m, s_ in zip(cases, ans, ml, sl):
        cov["evaluations"] += 1
        dist["xr"] += 1
        w = c.split()
        hit("result:" + a.split()[0])
        hit("stderr channel" if w[1] == "1" else "no stderr channel (fd2p NULL)")
        evs = a.split()[1:]
        if any(e.startswith("c") and e.endswith(":a") for e in evs):
            hit("connect: EADDRINUSE, next lower port")
        if any(e.startswith("s") for e in evs):
            hit("connect: ECONNREFUSED, retry after sleep" + ("" if w[7] == "1" else " (interrupted)"))
        if sum(1 for e in evs if e.startswith("s") and e[1:].isdigit()) >= 5:
            hit("connect: refused until the back-off is used up")
        binds = [int(e[1:]) for e in evs if e.startswith("b") and e[1:].isdigit()]
        conn_ok = [int(e[1:].split(":")[0]) for e in evs if e.startswith("c") and e.endswith(":o") and e[1:].split(":")[0].isdigit()]
        lis = [int(e[1:]) for e in evs if e.startswith("l") and e[1:].isdigit()]
        if any(e.startswith("leak") for e in evs):
            hit("a socket left open on return (leak)")
        if conn_ok and lis and lis[0] != conn_ok[0] - 1:
            hit("stderr port not directly below the primary port")
        if not binds:
            hit("no reserved port free at all")
        if conn_ok and w[1] == "1" and not lis:
            hit("no reserved port left for the stderr socket")
        if w[9].isdigit() and not (512 <= int(w[9]) <= 1023) and any(e.startswith("a") for e in evs) and a.startswith("fail"):
            hit("back-connection from a non-reserved port refused")
        if "~" == w[9] and lis:
            hit("accept fails")
        if w[8] == "0" and lis:
            hit("xpoll reports the wrong socket")
        if w[10] != "00" and conn_ok and a.startswith("fail"):
            hit("peer's reply is not a NUL byte")
        if a != m:
            ctx.disagreement("xrcmd model vs xrcmd.c", "`%s`: impl `%s` model `%s`" % (c[:200], a[:300], m[:300]), {"xr": c})
        if conn_ok:
            seen.add(c)
        if s_ != "ok":
            ctx.offender("xr:request", "xrcmd in the scripted world `%s`: the calls `%s` violate the specification of the "
                                       "handshake (%s)" % (" ".join(w[5:]), a[:300], s_), {"xr": c, "impl": a, "model": m})
    cov["distinct_nontrivial"] += len(seen)
    if cases:
        cov["samples"].append({"xr": cases[min(40, len(cases) - 1)], "observed": ans[min(40, len(ans) - 1)] if ans else None})


# ------------------------------------------------------------------------------------- (e) ssh argument vector

def part_e(ctx, cov, dist, rng, repo, variant, only=None):
    """src/modules/sshcmd.c is not built in this configuration: compile it per run from the tree under test into
    its own module directory and give it a fake `ssh` (the argv dumper) first in PATH"""
    from vlib.common import REPO
    pool = preload.Pool(ctx)
    exe = os.path.join(repo, "src/pdsh/pdsh")
    sshdir = os.path.join(ctx.scratch, "sshmods")
    fakebin = os.path.join(ctx.scratch, "fakebin")
    os.makedirs(sshdir, exist_ok=True)
    os.makedirs(fakebin, exist_ok=True)
    os.chmod(ctx.scratch, 0o755)
    p = subprocess.run(["gcc", "-shared", "-fPIC", "-O1", "-w", "-DHAVE_CONFIG_H", "-D_GNU_SOURCE", "-I" + REPO,
                        "-I" + REPO + "/src/pdsh", "-I" + REPO + "/src/common", REPO + "/src/modules/sshcmd.c", "-o",
                        os.path.join(sshdir, "sshcmd.so")], stderr=subprocess.PIPE)
    q = subprocess.run(["gcc", "-O1", "-o", os.path.join(fakebin, "ssh"), os.path.join(HARNESS, "argdump.c")],
                       stderr=subprocess.PIPE)
    if p.returncode != 0 or q.returncode != 0:
        ctx.disagreement("harness build sshcmd.so / fake ssh", (p.stderr + q.stderr).decode()[-600:])
        return
    if not os.path.exists(pool.shim) and not pool.build():
        return
    luser = pwd.getpwuid(1000).pw_name
    n = 150 if ctx.quick() else 1500
    dist["ssh"] = 0
    pieces = ["echo", "it's", "a\\", "back\\\\", "%h", "100%", '"q"', "%%h", "%x", "$(x)", "a b", "-n", "%u@%h", "%", "",
              "x%n", "'", "\\"]
    templates = [None, None, "-x %h", "-l %u -p 22 %h", "-o [a b] %h", "%%h -x", "-x", "-i%u_key %h", "-a  -x   %h",
                 "-l%u", "x%h%h"]
    appends = [None, None, None, "-v", "-o X=%n"]

    def gen():
        hosts = rng.sample(["n1", "n10", "web", "web1"], rng.choice([1, 2]))
        return {"ssh": True, "hosts": hosts, "user": rng.choice([None, "bob", luser]), "args": rng.choice(templates),
                "append": rng.choice(appends),
                "words": [rng.choice(pieces) for _ in range(rng.choice([1, 2, 3, 4]))]}
    # which form of ssh_argv_create is this?  (F09-SSHPCT repaired = `echo %h` reaches ssh as written)
    margs = ["model", variant]
    pr = preload.run_pdsh(pool, exe, ["-R", "ssh", "-w", "n1", "echo", "%h"], moddir_env=sshdir, fake_dir=sshdir,
                          dirlist=["sshcmd.so"], extra_env={"PATH": fakebin + ":/usr/bin:/bin"}, argv0=exe)
    if any(l.split()[-1] == hx("%h") for l in pr["out"].splitlines() if ": argv " in l):
        margs.append("sshesc")
        ctx.log("ssh_argv_create escapes '%' in the command words (F09-SSHPCT repaired): model runs as `sshesc`")
    dist["ssh_variant"] = " ".join(margs)
    lines, recs = [], []
    for g in ((gen() for _ in range(n)) if only is None else only):
        words = g["words"]
        if words[0].startswith("-"):
            words = ["echo"] + words
            g["words"] = words
        argv = ["-R", "ssh", "-w", ",".join(g["hosts"])] + (["-l", g["user"]] if g["user"] else []) + words
        env = {"PATH": fakebin + ":/usr/bin:/bin"}
        if g["args"] is not None:
            env["PDSH_SSH_ARGS"] = g["args"]
        if g["append"] is not None:
            env["PDSH_SSH_ARGS_APPEND"] = g["append"]
        r = preload.run_pdsh(pool, exe, argv, moddir_env=sshdir, fake_dir=sshdir, dirlist=["sshcmd.so"], extra_env=env,
                             argv0=exe)
        got = {}
        for l in r["out"].splitlines():
            if ": argv " in l:
                h, rest = l.split(": argv ", 1)
                got[h] = rest.split()[1:]
        opt = lambda v: "~" if v is None else hx(v)
        for rank, h in enumerate(g["hosts"]):
            lines.append("ssh %s %s %s %d 0 %s %s ~ %s %s" % (hx(h), hx(luser), hx(g["user"] or luser), rank, opt(g["append"]),
                                                            opt(g["args"]), hx(" ".join(words)), " ".join(hx(w) for w in words)))
            recs.append((g, argv, h, got.get(h), r))
    ml = ctx.model("rcmd", "".join(l + "\n" for l in lines), args=margs) if lines else []
    for (g, argv, h, got, r), m in zip(recs, ml):
        cov["evaluations"] += 1
        dist["ssh"] += 1
        case = {"argv": argv, "PDSH_SSH_ARGS": g["args"], "PDSH_SSH_ARGS_APPEND": g["append"], "host": h, "gen": g}
        if got is None:
            ctx.offender("ssh:no-output", "the fake ssh was not started for %s (rc %s): %s" % (h, r["rc"], r["err"][-200:]), case)
            continue
        if m == "ub":
            continue
        if got != m.split()[1:]:
            ctx.disagreement("ssh model vs sshcmd.c", "ssh saw `%s`, model `%s`" % ([unhx(x) for x in got],
                                                                                  [unhx(x) for x in m.split()[1:]]), case)
        # the command text must reach the transport unchanged: the last arguments are the command words
        want = [hx(w) for w in g["words"]]
        if got[-len(want):] != want:
            # the known-finding class exists only in the code that formats the command words as they stand
            esc = "sshesc" not in margs and any(x in w for w in g["words"] for x in ("%h", "%u", "%n", "%%"))
            sig = "ssh:percent-in-command" if esc else "ssh:mismatch"
            dist["offenders"][sig] = dist["offenders"].get(sig, 0) + 1
            ctx.offender(sig, "the command words reach ssh as %s instead of %s" % (
                [unhx(x) for x in got[-len(want):]], g["words"]), case)


def replay_items(ctx):
    """sorts the case(s) of a replay file written by ctx.finish into the four parts of this check:
    (a) protocol lines for the in-process harness, (b) -R exec runs, (c) registry runs, (d) rsh runs"""
    obj = json.load(open(ctx.replay))
    items = []
    if obj.get("kind") == "input":
        items.append(obj["case"])
    else:
        for b in obj.get("broken", []):
            txt = b[2] if len(b) > 2 else ""
            if ":: case=" in txt:
                try:
                    items.append(json.loads(txt.split(":: case=", 1)[1]))
                except ValueError:
                    ctx.log("replay: a recorded case is truncated in %s, skipped" % ctx.replay)
    ra, rb, rc_, rd, re_ = [], [], [], [], []
    for it in items:
        g = it.get("gen")
        if it.get("xr"):
            ra.append(it["xr"])
        elif g and g.get("ssh"):
            re_.append(g)
        elif it.get("line") and it["line"].split()[0] in ("fmt", "args"):
            ra.append(it["line"])
        elif g and "addrs" in g:
            rd.append(g)
        elif g and "loaded_ids" in g:
            rc_.append(g)
        elif g and "hosts" in g:
            rb.append(g)
        elif "argv" in it and "host" in it:
            # older replay files of the -R exec part: rebuild the generator case from the command line
            av = it["argv"]
            k = next((i for i, x in enumerate(av) if x.endswith("/argdump")), None)
            if k is not None:
                rb.append({"hosts": av[av.index("-w") + 1].split(","), "user": av[av.index("-l") + 1] if "-l" in av[:k] else None,
                           "args": av[k + 1:]})
    if not (ra or rb or rc_ or rd or re_):
        ctx.broken.append(("C-BROKEN", "replay", "no replayable case in " + str(ctx.replay)))
    return ra, rb, rc_, rd, re_


def run(ctx):
    rng = ctx.rng
    ctx.gen_consts(["modopt", "dsh", "hostlist"])      # hostlist: the composed model (regcli) runs C02's hostlist model
    ctx.lean_build([PROPS, "pdshmodel"])
    ctx.audit(PROPS)
    cov = {"evaluations": 0, "distinct_nontrivial": 0, "samples": [],
           "rule": "(a) every string over {%,h,u,n,x,a} up to length 4 (quick) / 6 (thorough), alone and followed by more "
                   "memory, under several (host,user,rank) incl. '%' inside host/user, plus random byte strings and "
                   "argument vectors with empty and %-terminated members; (b) pdsh -R exec with an argv-dumping helper; "
                   "(c) command lines mixing plain / user@ / type:user@ / type: words over overlapping host sets "
                   "(several -w, comma lists, ranges, zero padding, rare two-bracket words), -l, -R, PDSH_RCMD_TYPE, -x, "
                   "malformed words, unknown types, with 3-6 fake transports loaded, preceded by ~260 pinned cases "
                   "(every order of overlapping words, prefix-related and zero-padded names, two-bracket words, every "
                   "source of the default transport, user names at the length limit, rank after exclusion); (d) pdsh -R "
                   "rsh against a scripted peer on loopback recording the request bytes: busy reserved ports, user "
                   "shapes, every request length around each buffer size, random; (f) xrcmd.c in a scripted network: "
                   "busy-port sets x connect scripts x accept/poll/reply outcomes; non-trivial = argument containing "
                   "'%' / command line with two annotated words or an annotated word over a repeated host; distinct by text"}
    dist = {"fmt": 0, "args": 0, "cli": 0, "reg": 0, "reg_fatal": 0, "reg_nodomain": 0, "nodomain": 0, "offenders": {},
            "branches": {}}
    if getattr(ctx, "replay", None):
        ra, rb, rc_, rd, re_ = replay_items(ctx)
        cov["rule"] = "replay of %s: exactly the recorded case(s)" % ctx.replay
        rf = [x for x in ra if x.startswith("xr ")]
        ra = [x for x in ra if not x.startswith("xr ")]
        variant = part_a(ctx, cov, dist, rng, only=ra)
        if rf:
            part_f(ctx, cov, dist, rng, only=rf)
        repo = ctx.repo_build() if (rb or rc_ or rd or re_) else None
        if repo is not None and variant is not None:
            if rb:
                part_b(ctx, cov, dist, rng, repo, variant, only=rb)
            if rc_:
                part_c(ctx, cov, dist, rng, repo, only=rc_)
            if rd:
                part_d(ctx, cov, dist, rng, repo, only=rd)
            if re_:
                part_e(ctx, cov, dist, rng, repo, variant, only=re_)
    else:
        variant = part_a(ctx, cov, dist, rng)
        repo = ctx.repo_build()
        if repo is not None and variant is not None:
            for name, f in (("xrcmd scripted", lambda: part_f(ctx, cov, dist, rng)),
                            ("-R exec", lambda: part_b(ctx, cov, dist, rng, repo, variant)),
                            ("registry", lambda: part_c(ctx, cov, dist, rng, repo)),
                            ("rsh wire", lambda: part_d(ctx, cov, dist, rng, repo)),
                            ("ssh argv", lambda: part_e(ctx, cov, dist, rng, repo, variant))):
                t0 = time.time()
                f()
                dist.setdefault("wall_s", {})[name] = round(time.time() - t0, 1)
    cov["distribution"] = dist
    return ctx.finish(
        LEVEL, cov,
        assumptions=["argument strings are NUL-free C strings; what lies behind the terminator is part of the case",
                     "host expansion is supplied by an independent expander (simple names, one bracket pair with "
                     "ranges/lists/zero padding; two-bracket words only to witness F09-2BR) AND by C02's hostlist model",
                     "every -l but the last is within the user-name limit; write(2) on a connected socket succeeds",
                     "rresvport/connect/xpoll/accept are parameters of the xrcmd model (scripted in part (f), the real "
                     "kernel in part (d))",
                     "excluded hosts occur exactly once in the target list (duplicate exclusion is C02's subject)",
                     "rank fits an int; at most 70 targets per run (three batches of threads at the default fanout)"],
        trusted_base=["Lean 4.33 kernel", "axioms: propext, Classical.choice, Quot.sound at most (audited per theorem)",
                      "hand-written models Exec/Format.lean, Opt/Rcmd.lean tied to the code by differential execution",
                      "Gen/Modopt.lean regenerated from /repo (RCMD_RANK_LIST)",
                      "Gen/Dsh.lean (LINEBUFSIZE), Gen/Hostlist.lean (probed variant of hostlist.c for the composed run)",
                      "harness/fmt_harness.c, xrcmd_harness.c, argdump.c, preload_shim.c, modtmpl.c, vlib/preload.py, gcc, "
                      "ASan/UBSan"],
        checker_cmd="lake build PdshVerif.Props.C09 && #print axioms on every theorem of Props/C09.lean")
