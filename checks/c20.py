"""C20  Interrupts: batch ^C stops everything, interactive ^C only reports.

proof:          lean/PdshVerif/Props/C20.lean (LTS Dsh/Signals.lean = the fan-out protocol of dsh() extended by the
                signals thread, the environment (signal delivery, clock), thd_mutex and t[i].state)
correspondence: the unmodified dsh.c under the controlled scheduler (harness/sched; sigwait, raise, exit, time wrapped;
                the schedule decides when SIGINT/SIGTSTP arrive) vs the same LTS, compiled (`pdshmodel sig`): every
                event enabled, threadcount / t[i].state / enabled sets equal at every step, listing (whichever locking
                discipline prints it), canceled count, forwarded hosts, exit status equal, every stdio call made where
                the product model (Dsh/SignalsOutput.lean) has one
oracle:         spec-level monitors on the observable events of the real run (vlib/sigcheck.py:offenders); the real
                dsh.c on REAL threads with REAL signals, a gated transport and a settable clock
                (harness/sigthread_harness.c, vlib/sigthread.py: _mask_signals, the sigwait set, raise(SIGSTOP), errx,
                pthread_cancel/join decided by behaviour, no wall-clock race; the same scenarios with SIGINT/SIGTSTP
                inherited ignored / blocked / both, batch and interactive; and with the clock at 0, 1, 2, 2^31-2..2^31+1,
                2^32-2..2^32+1, 2^33: the INTR_TIME boundary straddling 2^31 and 2^32); the real execcmd.c/pipecmd.c on real children:
                the forwarded signal must ARRIVE at the command (observed in the command) wherever its just-forked child is
                between fork() and exec - before/after the dup2()s, inside closeall(), before the child lifts the inherited signal
                mask, before/after setsid(), before execvp()
generators:     vlib/sigphase.py (situations reached by steering the scheduler: a host in each phase, mutex holders, the
                INTR_TIME boundary, the shutdown tail; every pair of positions; interrupts during time-outs),
                vlib/sigrun.py (corpus, DFS, every position, random)
"""
from vlib import sigrun

LEVEL = "proof"
PROPS = "PdshVerif.Props.C20"
MANIFEST = dict(
    engine="sched",
    technique="Lean 4 proof (invariants, progress, erasure/commutation of the signal thread's steps, abort and cancel "
              "lemmas of the signal-extended fan-out LTS, all schedules and arrival times) + trace correspondence of the "
              "unmodified dsh.c under a controlled scheduler that delivers SIGINT/SIGTSTP at chosen steps",
    text="Theorems in lean/PdshVerif/Props/C20.lean about the labelled transition system Dsh/Signals.lean (dispatcher, "
         "workers with their thd_mutex-protected state writes, the signals thread with _handle_sigint/_handle_sigtstp/"
         "_fwd_signal/_list_slowthreads/_cancel_pending_threads, signal delivery and the clock as environment steps), for "
         "every fanout >= 1, every N, both wait constructs, every schedule and every arrival time of any number of "
         "signals.  The unmodified dsh.c runs under the controlled scheduler of harness/sched (sigwait wrapped: the "
         "schedule decides the step at which INT / INT-INT / INT-TSTP arrive: every position for N <= 3, random "
         "beyond; with and without -b); each run's event trace must be accepted step by step by the same `step` "
         "function with equal threadcount, t[i].state and enabled sets, and is judged by model-independent monitors "
         "(forwarding to exactly the running hosts, prompt non-zero exit, listing = hosts connecting/running, harmless "
         "single ^C = same outputs and return value as the signal-free run, ^C^Z cancels only pending hosts and no "
         "canceled host is connected afterwards, never a deadlock).  Deterministic in every run: a host in each of the six "
         "phases at once with the watchdog or a worker holding either mutex, 0..3 s on the clock between ^C and a second "
         "^C / ^Z (1 s = INTR_TIME exactly), signals around every step of the shutdown tail, every pair of positions on "
         "two tiny configurations, a signal at every position while the watchdog times hosts out, 15 scenarios (two with the clock set BACK between the signals) on "
         "real threads with real signals (gated transport, settable clock) plus 15 of them again with SIGINT/SIGTSTP "
         "inherited ignored, blocked or both, 52 of them again with pdsh started at extreme values of the clock (time(NULL) = "
         "0, 1, 2, 2^31-2 .. 2^31+1, 2^32-2 .. 2^32+1, 2^33; first/second interrupt one and two seconds apart straddling 2^31 "
         "and 2^32; a first ^C and a lone ^Z compare the whole clock with last_intr = 0: the decision must depend on the "
         "difference of the two instants only, Props/C20.lean decision_depends_on_difference_only / "
         "c_subtraction_wide_enough), and the module's signal function called while the just-forked child of the "
         "command is stopped before each of its libc calls between fork() and exec (the signal must arrive at the command).  "
         "dsh()'s _mask_signals(SIG_BLOCK)/(SIG_UNBLOCK) are steps of the accepted traces (wrapper Dsh/SignalsMask.lean: "
         "the dispatcher acts only in between).",
    design_ref="DESIGN.md section 5 C20 (and C03/C04), appendix A.1",
    note="Lean 4.33 kernel; axioms propext/Classical.choice/Quot.sound at most; protocol-level model tied to dsh.c by "
         "trace acceptance; pthread/sigwait semantics modelled, not verified; scheduler granularity = wrapped calls "
         "(plain memory races between _cancel_pending_threads and _update_connect_state are below it); asynchronous "
         "delivery inside libc is outside the model; stdio is modelled by per-call atomicity (product model "
         "Dsh/SignalsOutput.lean: an abort tears at most the record in progress, which is the last thing in the stream; "
         "glibc's lock-free flush at exit() duplicating buffered bytes is not modelled); the LTS accepts both locking "
         "disciplines of the listing (print under thd_mutex / copy, unlock, print); the canceled count may be printed inside or after "
         "the critical section; which signals _mask_signals blocks and sigwait waits for is decided on real threads under "
         "every inherited disposition/mask (Linux queues a blocked signal even when it is ignored: modelled so); deferred "
         "pthread_cancel of the signals thread and the join before dsh() returns are in the model (St.scan, SAct.die; "
         "signals_thread_ended_before_return, progress_needs_only_sigwait); forwarding below dsh.c is checked on the "
         "real execcmd.c/pipecmd.c with real children (harness/execsig_harness.c); the form of the worker's first state write (blind as pinned = finding "
         "F20-LOSTCANCEL: a created-but-not-yet-connecting host that ^C^Z reports as canceled runs anyway; guarded = "
         "repaired) is probed by behaviour on every run and model, acceptor and theorems cover both; harness, gcc, "
         "ASan/UBSan trusted")


def run(ctx):
    variant, wform, sform, cov = sigrun.run(ctx, PROPS, LEVEL)
    return ctx.finish(LEVEL, cov, assumptions=sigrun.assumptions(variant, wform, sform), trusted_base=sigrun.TRUSTED,
                      checker_cmd="lake build PdshVerif.Props.C20 && #print axioms on every theorem of Props/C20.lean")
