"""C04  Never more than `fanout` remote commands are in flight.

proof:          lean/PdshVerif/Props/C04.lean (LTS of dsh()'s dispatcher/worker/condvar protocol, every
                schedule, every number of spurious wake-ups; `while` variant bounded, `if` variant witness; section G:
                the same for EVERY signalling discipline (Dsh/FanG.lean), incl. the witness that under `if` a wake-up
                call made after the unlock breaks the bound without any spurious wake-up; section X: the bound for the
                fanout IN USE = the setting, whatever RLIMIT_NOFILE is and also when pthread_create fails, Dsh/FanX.lean)
correspondence: the unmodified dsh.c under the controlled scheduler (harness/sched) vs the same LTS,
                compiled (`pdshmodel fan`): every event enabled, threadcount equal, enabled sets equal
oracle:         monitors of the harness on observable events only: peak of (connects begun - teardowns
                finished) <= fanout; the dispatcher never parked with room
"""
from vlib import fancheck

LEVEL = "proof"
PROPS = "PdshVerif.Props.C04"
MANIFEST = dict(
    engine="sched",
    technique="Lean 4 proof (invariant of the fan-out LTS, all schedules incl. spurious wake-ups) + trace "
              "correspondence of the unmodified dsh.c under a controlled scheduler against the compiled LTS",
    text="Theorems in lean/PdshVerif/Props/C04.lean about the labelled transition system of dsh()'s dispatch loop, "
         "worker epilogue and drain loop (Dsh/Fan.lean as pinned, Dsh/FanG.lean with the signalling discipline left "
         "open -- wake-up call inside | after the critical section, signal | broadcast: section G, and the acceptor "
         "runs FanG.step; the wait-for-room construct is a parameter: `if` as in the "
         "pinned source, `while` as repaired): in-flight <= fanout for every fanout >= 1, every N, every schedule and "
         "any number of spurious wake-ups (while variant), a decided counterexample for the `if` variant, and work "
         "conservation; section X (Dsh/FanX.lean, run by the acceptor outside relay mode): the prologue "
         "_increase_nofile_limit never changes the fanout, so the bound holds for the setting under every descriptor "
         "limit (harness keys nofile / nofile_soft: fanout in use and soft limit after dsh() compared with the model "
         "function) and when pthread_create fails.  The unmodified dsh.c runs under a controlled scheduler (every pthread/libc call wrapped at "
         "link time, spurious wake-ups injected); each run's event trace must be accepted step by step by the same "
         "`step` function, with equal threadcount and equal enabled sets, and is judged by model-independent monitors.",
    design_ref="DESIGN.md section 5 C03/C04, appendix A.1",
    note="Lean 4.33 kernel; axioms propext/Classical.choice/Quot.sound at most; protocol-level model (operations on "
         "threadcount_mutex/threadcount_cond, thread creation, connect/destroy) tied to dsh.c by trace acceptance on "
         "random and exhaustively enumerated schedules; pthread semantics (POSIX mutex/condvar incl. spurious "
         "wake-ups) are modelled, not verified; real-kernel scheduling, pthread_create failure and workers that never "
         "return are outside the model; harness, gcc, ASan/UBSan trusted")


def run(ctx):
    variant, cov = fancheck.run(ctx, "C04", PROPS, LEVEL)
    if not ctx.replay and not ctx.violations and not ctx.broken:
        from vlib import fanreal
        fanreal.run_part(ctx, cov, ctx.quick())      # real exec transport: commands alive at the same time <= fanout
    return ctx.finish(LEVEL, cov, assumptions=fancheck.assumptions(variant),
                      trusted_base=fancheck.TRUSTED,
                      checker_cmd="lake build PdshVerif.Props.C04 && #print axioms on every theorem of Props/C04.lean")
