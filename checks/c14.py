"""C14  Printing a host list is lossless when it fits and safe when it does not.

proof:          lean/PdshVerif/Props/C14.lean (every store of hostlist_ranged_string and of the repaired
                hostlist_deranged_string lies inside the n bytes given, for every list and every n >= 1; D14
                witness for the unchanged test `ret > m`; truncation reported iff the text does not fit; reported
                length = text length; the buffer holds the text / a NUL-terminated prefix; the printed text reads
                back through the parser model of C01 as the same host sequence)
correspondence: real src/common/hostlist.c (assertions + ASan/UBSan, linked into harness/hl_harness.c, ops of
                hl_print_ops.h) vs `pdshmodel print model <variant>` on the same record lists: for EVERY buffer size
                n = 1 .. text length + 2, return value, position of the NUL, buffer contents, the guard bytes that
                changed on either side of the buffer, and the sizes at which an exact-size heap allocation makes
                ASan report; the scratch-built pdsh binary (-q / -Q with texts ending within +-2 of 1024 bytes and of the
                display capacity MEASURED on that binary, -w -^file around the 4095-byte exclusion buffer) vs the
                model of the two callers run with the measured capacity (the caller's buffer policy is an input)
oracle:         the property text on observables only (vlib/printcheck.py judge_sweep): no guard byte changes, a NUL
                inside n bytes, fits <=> length returned and the full text left, does not fit <=> -1 and a prefix
                left; the full text is parsed back by the real hostlist_create (in process, and again through the
                probe op compared with the hosts the range records denote), by the Lean parser model and by the
                independent string-level expander of Hostlist/Spec.lean
"""
import json
import os
import re

from vlib.hostlist import hx, unhx, LIMIT, parse_probe, parse_spec
from vlib.printcheck import (Gen, PrintRunner, PrintCli, FIXED, Rec, small_scope, start_pdsh_builds, stop_pdsh_builds, parse_dump, parse_sweep, judge_sweep, all_hosts,
                             parseback_signature, exact_fill, meta_name, meta_prefix, big_range, long_name)
from vlib.seqrun import run_batch

LEVEL = "proof"
PROPS = "PdshVerif.Props.C14"
MANIFEST = dict(
    engine="print",
    technique="Lean 4 proof about the executable model of the printing functions of hostlist.c (write log of the "
              "caller's buffer: every store inside the size given, truncation iff the text does not fit, reported "
              "length, buffer contents, round trip through the parser model) + differential correspondence of the "
              "real hostlist.c under ASan/UBSan with guard bytes and exact-size allocations, for every buffer size, "
              "against the compiled model + observable-level oracle from the property text",
    text="Theorems in lean/PdshVerif/Props/C14.lean about the model in lean/PdshVerif/Hostlist/Print.lean (spec: "
         "PrintSpec.lean); the model is executed against the real hostlist_ranged_string / hostlist_deranged_string "
         "(harness/hl_harness.c + hl_print_ops.h) on generated lists for every n from 1 to text length + 2 and against "
         "`pdsh -q/-Q -w` and `pdsh -w -^file` of a scratch build AND of an AddressSanitizer build of the same tree near the "
         "1024-byte / measured-display-capacity / 4095 / 8191-byte boundaries (opt_list's buffer policy is measured on the binary "
         "and handed to the model, never read from the source), and hostlist_shift_range / hostlist_pop_range until NULL (fixed stack buffers "
         "inside hostlist.c) against the model; the real code is also judged by the property "
         "text restated on observables, which yields the failing (list, n) as replay. The form of the truncation test "
         "of hostlist_deranged_string (D14) and of list_push_hostlist's retry condition (D2/F14-XLOOP) is probed on every "
         "run and the model runs in those variants; the parser model used for the round trip runs in the variant probed "
         "by harness/consts/hostlist.c.",
    design_ref="DESIGN.md section 5 C14, section 6 D14 / F14-META",
    note="Lean 4.33 kernel; axioms propext/Classical.choice/Quot.sound at most (audited per theorem every run); "
         "hand-written model tied to hostlist.c / opt.c by differential execution of the real sources built from "
         "/repo's working tree; glibc snprintf modelled not verified; lengths < 2^31 (C int); memory safety of the "
         "compiled code is observed (guard bytes, ASan exact-size allocations), the theorem is about the model's "
         "write log; harness, generators, gcc, ASan/UBSan trusted")


def kname(kind):
    return "ranged" if kind == "r" else "deranged"


def run(ctx):
    rng = ctx.rng
    replay_case = None
    if ctx.replay:
        rep = json.load(open(ctx.replay))
        if "ops" in rep.get("case", {}):
            replay_case = rep["case"]
        else:
            ctx.replay = None       # a theorem/correspondence replay names no input: the whole check is the replay
    ctx.gen_consts(["hostlist"])
    ctx.lean_build([PROPS, "pdshmodel"])
    ctx.audit(PROPS)
    pr = PrintRunner(ctx)
    cov = {"evaluations": 0, "distinct_nontrivial": 0, "samples": [],
           "rule": "host lists built (a) by hostlist_create from grammar-directed well-formed expressions (ranges, "
                   "single hosts, zero-padded widths, repeated hosts, prefixes ending in digits, numeric-only names, "
                   "two-bracket words, long names), (b) by incremental hostlist_push of names/expressions with runs that "
                   "coalesce, followed by delete_nth / delete_host / sort / uniq, (c) from raw range-record sequences "
                   "(adjacent uncoalesced ranges, mixed widths, numbers around 10^k, 2^32, 2^63, 2^64-2), (d) from names "
                   "whose text ends within +-2 of 16..1024 bytes, optionally followed by more hosts, (e) exhaustively: every "
                   "sequence of up to 2 (quick) / 3 (thorough, plus a sample of 4-5) records over 8 record shapes; every list is "
                   "printed in both forms for EVERY n from 1 to text length + 2; one evaluation = one (list, form, n) "
                   "call; non-trivial = a list with >= 2 range records whose compressed text has a bracket or whose "
                   "expanded text has >= 3 hosts; distinct = distinct record dump"}
    dist = {"calls": 0, "fits": 0, "truncating": 0, "exact-boundary": 0, "boundary": {}, "lists": 0, "exact-mode-lists": 0,
            "parseback": 0, "parseback-independent": 0, "cli": 0, "skipped-build-failed": 0, "origin": {}}
    builds = None
    if pr.build():
        if not (ctx.replay and replay_case is not None and replay_case.get("origin") != "cli"):
            builds = start_pdsh_builds(ctx)      # both pdsh builds, in the background, for the CLI part
        variant = pr.probe_variant()
        cov["variant_detected"] = {"D14 repaired (ret >= m)": variant == "fixed"}
        ctx.log("hostlist_deranged_string behaves as the `%s` variant: the model runs with that switch" % variant)
        nrv = pr.probe_nextrange()
        cov["variant_detected"]["F14-NEXTRANGE repaired (_iterator_advance_range guards hr[idx])"] = nrv == "fixed"
        ctx.log("hostlist_next_range behaves as the `%s` variant: %s" % (nrv, "every list is iterated to its NULL"
                if nrv == "fixed" else "the final call is not made when the record array is full"))
        rmv = pr.probe_rangemove()
        cov["variant_detected"]["F14-RANGEMOVE repaired (shift_range/pop_range count the records they moved)"] = rmv == "fixed"
        ctx.log("hostlist_shift_range / hostlist_pop_range keep their books as the `%s` variant" % rmv)
        gen = Gen(rng, cap=900 if ctx.quick() else 2000)
        cases = []
        if replay_case is not None:
            cases.append({"origin": replay_case.get("origin", "replay"), "ops": replay_case["ops"],
                          "desc": replay_case.get("desc", "")})
        else:
            for s in FIXED + load_corpus():
                cases.append({"origin": "corpus", "ops": ["create " + hx(s)], "desc": s[:200].decode("latin1")})
            cases.append({"origin": "corpus", "ops": ["create " + hx(b"foo[1-2]-[0-1]")], "desc": "foo[1-2]-[0-1]"})
            # joinable neighbours left UNJOINED by a delete through the public API (F14-RANGEMOVE: hostlist_shift_range /
            # hostlist_pop_range keep their books with the record count of the temporary list the group was joined in)
            for expr, gone in ((b"foo[1-2],x,foo[3-4],y", [b"x"]), (b"y,foo[1-2],x,foo[3-4]", [b"x"]),
                               (b"a[1-2],p,a[3-4],q,a[5-6],b,c[1-3]", [b"p", b"q"]), (b"n[01-02],z,n[03-04]", [b"z"]),
                               (b"k[1-3],k5,k[6-7]", [b"k5"])):
                cases.append({"origin": "corpus", "ops": ["create " + hx(expr)] + ["delete_host " + hx(g) for g in gone],
                              "desc": "%s minus %s" % (expr.decode(), b",".join(gone).decode())})
            # ONE bracket group whose text has 1022..1025 bytes: the fixed buffers of hostlist_shift_range (1024) and
            # hostlist_pop_range / hostlist_next_range (MAXHOSTRANGELEN) at their boundary
            # (48 twenty-digit numbers: a long group text with few hosts keeps the expanded text, and its sweep, short)
            for plen in (13, 14, 15, 16):
                s = b"g" * plen + b"[" + b",".join(b"%d" % (10 ** 19 + 2 * k) for k in range(48)) + b"]"
                cases.append({"origin": "corpus", "ops": ["create " + hx(s)], "desc": "one group of %d bytes" % len(s)})
            # numbers printed with a zero-padded WIDTH larger than the whole buffer / the room left (the parser keeps
            # width = digits of the low bound as typed, unbounded): `lo` alone overruns the remaining space, at every n
            for width in ((1030,) if ctx.quick() else (1000, 1030, 2000, 4100)):
                wide = Rec(b"n", 1, 2, width, False)
                for recs in ([wide], [Rec(b"login", 0, 0, 0, True), wide, Rec(b"n", 7, 9, 3, False)]):
                    if width > 1100 and len(recs) > 1:
                        continue
                    cases.append({"origin": "wide", "ops": ["pmk " + " ".join(r.field() for r in recs)],
                                  "desc": " ".join(r.field() for r in recs)})
            # MANY entries in ONE bracket (64, 65, 100, 1100 one-host ranges of one prefix): the compressed text is a single
            # long bracket list, read back by hostlist_create (pback) - the parser's per-bracket bookkeeping at and past
            # every power of two
            for k in (64, 65, 100, 1100):
                recs = [Rec(b"b", 2 * i + 1, 2 * i + 1, 1, False) for i in range(k)]
                cases.append({"origin": "long-bracket", "ops": ["pmk " + " ".join(r.field() for r in recs)],
                              "desc": "b[1,3,5,..] with %d entries" % k})
            cases.extend(small_scope(2 if ctx.quick() else 3))
            if not ctx.quick():
                from vlib.printcheck import SHAPES
                for _ in range(1200):           # a sample of the 4- and 5-record sequences over the same shapes
                    t = [rng.choice(SHAPES) for _ in range(rng.choice([4, 4, 5]))]
                    cases.append({"origin": "small-scope", "ops": ["pmk " + " ".join(r.field() for r in t)],
                                  "desc": " ".join(r.field() for r in t)})
            n = 300 if ctx.quick() else 2600
            for i in range(n):
                r = rng.random()
                cases.append(gen.create() if r < 0.38 else gen.pushes() if r < 0.62 else gen.raw() if r < 0.88
                             else gen.boundary())
        exact = set(i for i in range(len(cases)) if (i % 3 == 0 or cases[i]["origin"] in ("corpus", "boundary", "replay")))
        sweep_lists(ctx, pr, cases, exact, cov, dist)
        if replay_case is None:
            big_lists(ctx, pr, dist)
            dist["generator"] = gen.dist
            cli_check(ctx, pr, gen, dist, cov, builds=builds)
        elif replay_case.get("origin") == "cli":
            cli_check(ctx, pr, Gen(rng, 900), dist, cov, only=replay_case, builds=builds)
    stop_pdsh_builds(builds)
    cov["evaluations"] = dist["calls"]
    cov["distribution"] = dist
    cov["traces_validated_against_impl"] = dist["calls"]
    for b in ctx.broken[:4]:
        ctx.log("broken:", b[0], b[1], "::", str(b[2])[:700])
    return ctx.finish(
        LEVEL, cov,
        assumptions=["text lengths and buffer sizes < 2^31 (the C code keeps lengths in int)",
                     "range records are well formed (lo <= hi < 2^64-1, the invariant of the data structure)",
                     "glibc snprintf(\"%s\", \"%0*lu\") behaves as modelled and never fails; malloc never fails",
                     "round trip: no single-host name contains [ ] , blank or tab or is empty (NoMeta; such names - the "
                     "leftovers of two-bracket words - are finding F14-META), names shorter than 1023 bytes (D18), "
                     "ranges of <= 16384 hosts and <= 10240 ranges per bracket (the parser's limits; finding F14-BIGRANGE)",
                     "CLI part: target words are plain names (the -w path itself is C01's concern)"],
        trusted_base=["Lean 4.33 kernel", "axioms: propext, Classical.choice, Quot.sound at most (audited per theorem)",
                      "hand-written model lean/PdshVerif/Hostlist/Print.lean tied to hostlist.c (hostrange_to_string, "
                      "hostrange_numstr, _get_bracketed_list, _is_bracket_needed, hostlist_ranged_string, "
                      "hostlist_deranged_string) and opt.c (opt_list, list_push_hostlist) by differential execution",
                      "opt_list's display capacity is MEASURED on the pdsh binary of every run (no source literal is read); "
                      "list_push_hostlist's first block size matters to the unrepaired retry condition only",
                      "harness/hl_harness.c + hl_print_ops.h, vlib/printcheck.py (generators, oracle), gcc, ASan/UBSan"],
        checker_cmd="lake build PdshVerif.Props.C14 && #print axioms on every theorem of Props/C14.lean")


# --------------------------------------------------------------------------------------------------------------
def sweep_lists(ctx, pr, cases, exact, cov, dist):
    """every list, both forms, every n: impl vs model (correspondence) and impl vs the property text (oracle)"""
    res = pr.impl(cases, exact)
    ctx.log("harness done: %d lists" % len(cases))
    live, dumps, ex2 = [], [], set()
    for i, (c, (ans, crash)) in enumerate(zip(cases, res)):
        nb = len(c["ops"])
        case = {"origin": c["origin"], "ops": c["ops"], "desc": c["desc"]}
        if crash is not None and len(ans) < nb + 1:
            # the abort happened while the list was being BUILT (push/delete/sort/uniq: C16's concern, not printing)
            dist["skipped-build-crashed"] = dist.get("skipped-build-crashed", 0) + 1
            ctx.notes.append("list-building ops aborted (%s): %s" % (crash_class(crash), c["ops"][-3:]))
            continue
        if crash is not None:
            cls = crash_class(crash)
            ctx.offender("crash:" + cls, "hl_harness aborts while printing (answers so far: %d of %d): %s" %
                         (len(ans), nb + len(pr.OPS), crash[-300:]), dict(case, answers=ans[-3:]))
            continue
        if len(ans) <= nb or parse_dump(ans[nb]) is None or any(a.startswith(("null", "no-list")) for a in ans[:nb]):
            dist["skipped-build-failed"] += 1
            continue
        live.append((c, case, ans[nb:], i in exact))
        if i in exact:
            ex2.add(len(dumps))
        dumps.append(ans[nb])
    model = pr.model(dumps, ex2)
    ctx.log("model done")
    distinct = set()
    back_jobs = []
    for (c, case, ia, isx), ma, dump in zip(live, model, dumps):
        nhosts, recs = parse_dump(dump)
        case = dict(case, dump=dump[:600])
        dist["lists"] += 1
        dist["origin"][c["origin"]] = dist["origin"].get(c["origin"], 0) + 1
        names = dict(zip(pr.OPS + (pr.EXACT if isx else []), ia))
        mnames = dict(zip(pr.OPS + (pr.EXACT if isx else []), [dump] + ma[1:]))
        empty_name = any(r.single and not r.pre for r in recs)
        texts = {}
        for kind in "rd":
            it, mt = names["ptext " + kind].split(), mnames["ptext " + kind].split()
            if len(it) != 2 or len(mt) != 3 or it != mt[:2]:
                ctx.disagreement("print model vs hostlist.c (full text, %s)" % kname(kind),
                                 "impl `%s` model `%s`" % (names["ptext " + kind][:200], mnames["ptext " + kind][:200]), case)
            if len(mt) == 3 and mt[2] != "=" and not empty_name:
                ctx.disagreement("print model vs PrintSpec text (%s)" % kname(kind),
                                 "model text %s, spec %s" % (mt[1][:200], mt[2][:200]), case)
            if len(it) != 2:
                continue
            text = unhx(it[1])
            texts[kind] = text
            if int(it[0]) != len(text):
                ctx.offender("%s-length-misreported" % kname(kind), "returns %s for a text of %d bytes that fits" %
                             (it[0], len(text)), dict(case, kind=kname(kind), text=text[:300].decode("latin1")))
            # every n
            isw, msw = names["psweep %s +2" % kind], mnames["psweep %s +2" % kind]
            if isw != msw:
                ie, me = parse_sweep(isw) or [], parse_sweep(msw) or []
                k = next((j for j in range(min(len(ie), len(me))) if ie[j] != me[j]), min(len(ie), len(me)))
                ctx.disagreement("print model vs hostlist.c (%s, n = %d)" % (kname(kind), k + 1),
                                 "impl %s model %s" % (ie[k:k + 1], me[k:k + 1]), case)
            ent = parse_sweep(isw)
            if ent is None or len(ent) != len(text) + 2:
                ctx.disagreement("hl harness answer", "psweep %s: `%s`" % (kind, isw[:200]), case)
            else:
                judge_sweep(ctx, kind, recs, len(text), ent, dict(case, text=text[:300].decode("latin1")), dist, text=text)
            # parse back (real parser in process; Lean parser in the model)
            ib, mb = names["pback " + kind], mnames["pback " + kind]
            # the Lean parser runs in the probed variant (Cfg.probed): the two parsers must agree on every printed text
            if ib.split()[:2] != mb.split()[:2] and not (mb.startswith("ub:") and ib.startswith("crash")):
                ctx.disagreement("print model (Lean parser) vs hostlist_create on the printed text (%s)" % kname(kind),
                                 "impl `%s` model `%s`" % (ib[:200], mb[:200]), case)
            if not (c["origin"] == "raw" and empty_name):
                dist["parseback"] += 1
                if ib != "same %d" % sum(r.count() for r in recs):
                    ctx.offender(parseback_signature(kind, recs, ib.split(":")[0].split()[0]),
                                 "the %s text `%s` read back by hostlist_create is not the list it was printed from: %s"
                                 % (kname(kind), text[:120].decode("latin1"), ib[:200]),
                                 dict(case, kind=kname(kind), text=text[:600].decode("latin1"), parse_back=ib[:300]))
                elif sum(r.count() for r in recs) <= 4000 and not long_name(recs):
                    back_jobs.append((kind, text, recs, case))
            if isx:
                # a store just behind the buffer is reported as heap-buffer-overflow, or - when the chunk is the last one
                # of a mapped allocator region, so that no redzone follows it - as a plain SEGV on a write (or
                # `unknown-crash` on a mixed shadow byte): one class
                ix = re.sub(r":(SEGV|unknown-crash)\b", ":heap-buffer-overflow", names["pexact %s +2" % kind])
                mx = mnames["pexact %s +2" % kind]
                if ix != mx:
                    ctx.disagreement("print model vs hostlist.c under ASan, exact-size allocation (%s)" % kname(kind),
                                     "impl `%s` model `%s`" % (ix[:300], mx[:300]), case)
                if ix != "none":
                    for tok in ix[6:].split(",")[:50]:
                        if tok == "more":
                            continue
                        nn, _, cls = tok.partition(":")
                        fill = ":exact-fill" if kind == "d" and nn.isdigit() and exact_fill(recs, int(nn)) else ""
                        ctx.offender("%s-asan:%s%s" % (kname(kind), cls, fill),
                                     "hostlist_%s_string into an exact-size heap buffer of %s bytes: ASan reports %s" %
                                     (kname(kind), nn, cls), dict(case, kind=kname(kind), n=nn))
        # hostlist_shift_range / hostlist_pop_range / hostlist_next_range until NULL (fixed stack buffers inside hostlist.c,
        # under ASan)
        for which, fn in (("s", "hostlist_shift_range"), ("p", "hostlist_pop_range"), (pr.OPS[pr.NR][-1], "hostlist_next_range")):
            ir, mr = names["pranges " + which], mnames["pranges " + which]
            if which in "nN" and ir.endswith("!end-read-past-hr"):
                # the call that would return NULL reads hl->hr[nranges] with the array full (the harness does not make it)
                ir = ir[:-len("!end-read-past-hr")]
                ctx.offender("next-range-end-read-past-hr:nranges=size",
                             "hostlist_next_range: the call that ends the iteration reads hl->hr[%d] of a full array of %d records"
                             % (len(recs), len(recs)), dict(case, nranges=len(recs)))
            dist["range-calls"] = dist.get("range-calls", 0) + (0 if ir == "none" else ir.count("|") + 1)
            if ir != mr:
                ctx.disagreement("print model vs hostlist.c (%s until NULL)" % fn, "impl `%s` model `%s`" % (ir[:200], mr[:200]), case)
            if ir != "none":
                for piece in ir.split("|"):
                    if len(unhx(piece)) >= 1023:
                        bd = dist.setdefault("boundary", {})
                        key = "%s, group text cut at its fixed buffer" % fn
                        bd[key] = bd.get(key, 0) + 1
        # the same two functions on the records AS THEY ARE (a delete can leave joinable neighbours unjoined): their record
        # bookkeeping (finding F14-RANGEMOVE) - the list must be taken apart group by group, without a sanitizer report,
        # and be empty at the NULL
        for which, fn in (("S", "hostlist_shift_range"), ("P", "hostlist_pop_range")):
            ir, mr = names["pranges " + which], mnames["pranges " + which]
            crashed = re.search(r"!crash:(\S+)$", ir)
            bad = crashed or "!count=" in ir
            dist["range-move-lists"] = dist.get("range-move-lists", 0) + 1
            if mr.endswith("!ub"):
                dist["range-move-joining-group"] = dist.get("range-move-joining-group", 0) + 1
            if re.sub(r"!crash:\S+$", "!ub", ir) != mr:
                ctx.disagreement("print model vs hostlist.c (%s until NULL, records as given)" % fn,
                                 "impl `%s` model `%s`" % (ir[-200:], mr[-200:]), case)
            if bad:
                joining = mr.endswith("!ub") or joinable_neighbours(recs)
                ctx.offender("range-move%s:%s" % (":joined-while-moving" if joining else "", fn),
                             "%s until NULL on this list: %s%s" %
                             (fn, "the sanitizer reports " + crashed.group(1) if crashed else
                              "the list is not empty at the NULL / the pieces are wrong: " + ir[-40:],
                              " (moving a bracket group into the temporary list joined records; the books are kept with the "
                              "temporary list's record count)" if joining else ""),
                             dict(case, function=fn, answer=ir[-300:]))
        if isx:
            dist["exact-mode-lists"] += 1
        if len(recs) >= 2 and (b"[" in texts.get("r", b"") or sum(r.count() for r in recs) >= 3):
            distinct.add(dump)
        if len(cov["samples"]) < 5 and c["origin"] != "corpus" and len(dump) < 120 and len(recs) >= 2:
            cov["samples"].append({"origin": c["origin"], "dump": dump, "ranged": texts.get("r", b"").decode("latin1"),
                                   "deranged": texts.get("d", b"")[:80].decode("latin1"),
                                   "sweep_ranged_last3": names["psweep r +2"].split(" ")[-3:]})
    cov["distinct_nontrivial"] = cov.get("distinct_nontrivial", 0) + len(distinct)
    independent_parseback(ctx, pr, back_jobs, dist)


def independent_parseback(ctx, pr, jobs, dist):
    """the printed text expanded (1) by the real parser through the probe op, (2) by the string-level Lean spec of
    C01, each compared with the hosts the range records denote (computed here from the dump)"""
    if not jobs:
        return
    texts = [t for _, t, _, _ in jobs]
    impl = pr.hl.impl(["probe %s %d" % (hx(t), LIMIT) for t in texts])
    spec = pr.hl.spec(texts)
    for (kind, text, recs, case), a, sp in zip(jobs, impl, spec):
        dist["parseback-independent"] += 1
        want = all_hosts(recs)
        p = parse_probe(a)
        case = dict(case, kind=kname(kind), text=text[:600].decode("latin1"))
        if p["kind"] != "ok" or p["shift"] != want or p["shift_more"]:
            ctx.offender(parseback_signature(kind, recs, "probe"),
                         "hostlist_create(`%s`) + hostlist_shift does not give back the %d hosts of the list: %s" %
                         (text[:120].decode("latin1"), len(want), a[:160]), dict(case, probe=a[:300]))
        v = parse_spec(sp)
        if not v["ok"] or v["hosts1"] != want:
            ctx.offender(parseback_signature(kind, recs, "expansion"),
                         "the mathematical expansion of the %s text `%s` is not the host sequence of the list (%s)" %
                         (kname(kind), text[:120].decode("latin1"), sp[:120]), dict(case, spec=sp[:300]))


def big_lists(ctx, pr, dist):
    """lists whose compressed text is short but whose records exceed what the PARSER accepts (no sweeps)"""
    seqs = [["new", "push " + hx(b"a[1-16384]"), "push " + hx(b"a[16385-20000]"), "dump", "ptext r", "pback r"],
            ["new", "push " + hx(b"a[1-16384]"), "dump", "ptext r", "pback r"]]
    res = run_batch([pr.exe], seqs, env=pr.env, timeout=300)
    for q, (ans, crash) in zip(seqs, res):
        case = {"origin": "big", "ops": q[:-3], "desc": "coalesced range records"}
        if crash is not None or len(ans) != len(q):
            ctx.offender("crash:" + crash_class(crash or ""), "hl_harness aborts on %s" % q, case)
            continue
        d = parse_dump(ans[-3])
        if d is None:
            continue
        recs = d[1]
        m = ctx.model("print", "list %s\nptext r\npback r\n" % ans[-3], args=pr.margs())
        if m[1].split()[:2] != ans[-2].split() or m[2].split()[:2] != ans[-1].split()[:2]:
            ctx.disagreement("print model vs hostlist.c (big records)", "impl %s model %s" % (ans[-2:], m[1:]), case)
        dist["parseback"] += 1
        if ans[-1] != "same %d" % sum(r.count() for r in recs):
            text = unhx(ans[-2].split()[1])
            ctx.offender(parseback_signature("r", recs, ans[-1].split(":")[0].split()[0]),
                         "the ranged text `%s` read back by hostlist_create is not the list it was printed from: %s" %
                         (text[:100].decode("latin1"), ans[-1]), dict(case, dump=ans[-3][:300], text=text[:300].decode("latin1")))


def joinable_neighbours(recs):
    """does some record continue its predecessor (same prefix, both numeric, lo = hi + 1)?  hostlist_push_range would have
    joined them when their widths are compatible"""
    return any((not a.single) and (not b.single) and a.pre == b.pre and b.lo == a.hi + 1 for a, b in zip(recs, recs[1:]))


def crash_class(txt):
    import re
    m = re.search(r"ERROR: AddressSanitizer: (\S+)", txt)
    if m:
        return "asan:" + m.group(1)
    if "runtime error:" in txt:
        return "ubsan"
    if "Assertion" in txt:
        return "assert"
    if "TIMEOUT" in txt:
        return "timeout"
    return "harness"


# --------------------------------------------------------------------------------------------------------------
def cli_check(ctx, pr, gen, dist, cov, only=None, builds=None):
    """the two callers in the pdsh binary: opt_list (-q ranged, -Q deranged) and list_push_hostlist's exclusion text
    (-w -^file).  HOW BIG opt_list's display buffer is, and whether it grows, is the caller's policy: the display capacity is
    measured on the binary (first truncation of `pdsh -Q` on lists of 1100, 2200, .. bytes) and handed to the model; the
    oracle accepts the whole text or a proper prefix marked [truncated], nothing else."""
    cli = PrintCli(ctx, builds)
    if not cli.pdsh:
        return
    rng = ctx.rng
    cap, problems = cli.display_capacity()
    for pb in problems:
        ctx.offender("cli-garbled", pb, {"origin": "cli", "desc": "display capacity probe"})
    dist["display-capacity"] = cap if cap is not None else "unbounded below 4 MiB"
    cov.setdefault("variant_detected", {})["opt_list display capacity (observed caller policy)"] = dist["display-capacity"]
    ctx.log("opt_list shows target lists through a display capacity of %s bytes (observed); the model runs with it" %
            (cap if cap is not None else ">= 4 Mi"))
    mcap = cap if cap is not None else 1 << 40
    bases = sorted(set([1024] + ([cap] if cap is not None and cap <= 65536 else [])))
    jobs = []
    if only is not None:
        jobs.append((only["flag"], unhx(only["expr_hex"])))
    else:
        for flag in ("-q", "-Q"):
          for base in bases:                      # the historical 1024 and the observed capacity
            for d in (-2, -1, 0, 1, 2):
                for more in (0, 3):
                    # names of 7 bytes + comma: text of exactly base - 1 + d bytes, then `more` further hosts
                    names = []
                    while sum(len(x) + 1 for x in names) < base + 16:
                        names.append(bytes(rng.choice(b"abcdefghijklmnopqrstuvwxy") for _ in range(7)))
                    s = b",".join(names)
                    want = base - 1 + d
                    while len(s) > want:
                        s = s[:-1]
                    while len(s) < want:
                        s += b"z"
                    if s.endswith(b","):
                        s = s[:-1] + b"z"
                    if more:
                        s += b"," + b",".join(b"m%dx" % j for j in range(more))
                    jobs.append((flag, s))
        if cap is not None and cap > 65536:
            # a big display buffer: its boundary through numeric ranges (expanded form; the argument stays short).  The
            # Lean model needs time quadratic in the text: these cases are judged by the oracle and the ASan build only
            from vlib.printcheck import numeric_list
            for d in (-1, 0, 1):
                big_boundary(ctx, cli, cap, d, dist)
        for flag in ("-q", "-Q"):                   # lists a 1024-byte buffer cuts and a bigger one shows in full
            for want in (2047, 4096):
                names = []
                while sum(len(x) + 1 for x in names) < want + 16:
                    names.append(bytes(rng.choice(b"abcdefghijklmnopqrstuvwxy") for _ in range(7)))
                s = b",".join(names)[:want]
                if s.endswith(b","):
                    s = s[:-1] + b"z"
                jobs.append((flag, s))
        z = b"0" * 1030
        for flag in ("-q", "-Q"):          # the lower bound alone (1031 digits) is longer than wcoll_str[1024]
            jobs.append((flag, b"n[" + z + b"1-" + z + b"2]"))
            jobs.append((flag, b"login,n[" + z + b"1-" + z + b"2],n[007-009]"))
        for _ in range(4 if ctx.quick() else 40):
            c = gen.create()
            s = unhx(c["ops"][0].split()[1])
            if b"-" == s[:1] or b"^" in s or b"/" in s or b":" in s or b"@" in s or b"\t" in s or b" " in s or len(s) > 1500:
                continue
            jobs.append((rng.choice(["-q", "-Q"]), s))
    # the list pdsh holds = hostlist_create(expr) for plain words; records through the harness, expectation from the model
    seqs = [["create " + hx(s), "dump"] for _, s in jobs]
    res = run_batch([pr.exe], seqs, env=pr.env, timeout=300)
    # pdsh -w: wcoll_expand shifts every host out of that list and pushes it again (numbers > 2^25 and second
    # brackets make the records differ from hostlist_create's): the list opt_list prints is rebuilt the same way
    seqs2, keep = [], []
    for (flag, s), (ans, crash) in zip(jobs, res):
        if crash is not None or len(ans) != 2 or parse_dump(ans[1]) is None:
            continue
        recs = parse_dump(ans[1])[1]
        if sum(r.count() for r in recs) > 3000:
            if not meta_name(recs) and not meta_prefix(recs) and all(r.single or r.hi < (1 << 25) for r in recs):
                # big numeric lists (the boundary of a big display buffer): wcoll_expand's shift-and-push-again rebuilds
                # the same records
                seqs2.append(["create " + hx(s), "dump"])
                keep.append((flag, s))
            continue
        seqs2.append(["new"] + ["push " + hx(h) for h in all_hosts(recs)] + ["dump"])
        keep.append((flag, s))
    res2 = run_batch([pr.exe], seqs2, env=pr.env, timeout=300)
    for (flag, s), (ans, crash) in zip(keep, res2):
        if crash is not None or not ans or parse_dump(ans[-1]) is None or any(a.startswith("-1") for a in ans[1:-1]):
            continue
        ans = [ans[0], ans[-1]]
        recs = parse_dump(ans[1])[1]
        if meta_name(recs) or meta_prefix(recs):
            continue                      # names with brackets left after two expansions: outside plain target words
        # the capacity matters only when the text does not fit (C14.optListN_whole_when_fits): the model runs with the
        # observed capacity when it cuts this text, else with the smallest buffer that holds it
        m0 = ctx.model("print", "list %s\nptext %s\n" % (ans[1], "d" if flag == "-Q" else "r"), args=pr.margs(), timeout=600)
        flen = len(unhx(m0[1].split()[1]))
        mcap = cap if cap is not None and flen >= cap else flen + 2
        if mcap > 70000:
            continue
        m = ctx.model("print", "list %s\npcli %s %d\nptext %s\n" % (ans[1], flag[1], mcap, "d" if flag == "-Q" else "r"),
                      args=pr.margs(), timeout=600)
        full = unhx(m[2].split()[1])
        mline, _, moob = m[1].partition(":")
        case = {"origin": "cli", "flag": flag, "expr_hex": hx(s), "ops": ["create " + hx(s)],
                "desc": "pdsh %s -w <%d bytes>" % (flag, len(s)), "text_len": len(full)}
        cls, line = cli.targets(flag, ["-w", s.decode("latin1")], timeout=120)
        dist["cli"] += 1
        dist["calls"] += 1
        fill = ":exact-fill" if flag == "-Q" and cap is not None and len(full) < (1 << 20) and exact_fill(recs, cap) else ""
        for base in set([1024] + ([cap] if cap is not None else [])):
            dcap = len(full) - (base - 1)
            if -2 <= dcap <= 2:
                key = "pdsh %s, text = %s%+d bytes" % (flag, "1023" if base == 1024 else "capacity-1", dcap)
                dist.setdefault("boundary", {})[key] = dist.setdefault("boundary", {}).get(key, 0) + 1
        if cli.asan and cls != "timeout":
            # the same call in the AddressSanitizer build: a store outside wcoll_str[1024] is reported there
            acls, aline = cli.targets(flag, ["-w", s.decode("latin1")], asan=True, timeout=300)
            dist["cli-asan"] = dist.get("cli-asan", 0) + 1
            if acls.startswith("crash:asan"):
                ctx.offender("cli-" + acls[6:] + fill, "pdsh %s -w with a target text of %d bytes, AddressSanitizer build: %s" %
                             (flag, len(full), acls), dict(case, pdsh=acls))
                if not moob:
                    ctx.disagreement("print model (opt_list) vs pdsh %s (ASan build)" % flag,
                                     "%s, the model predicts no store outside wcoll_str" % acls, case)
            elif (acls, aline) != (cls, line):
                ctx.disagreement("pdsh %s: AddressSanitizer build vs normal build" % flag,
                                 "%s `..%s` vs %s `..%s`" % (acls, (aline or b"")[-40:], cls, (line or b"")[-40:]), case)
        if cls != "ok":
            if cls.startswith("crash") or cls == "timeout":
                ctx.offender("cli-crash" + fill, "pdsh %s -w with a target text of %d bytes: %s" % (flag, len(full), cls),
                             dict(case, pdsh=cls))
                if not moob:
                    ctx.disagreement("print model (opt_list) vs pdsh %s" % flag, "pdsh %s, the model predicts no store "
                                     "outside wcoll_str" % cls, case)
            else:
                ctx.disagreement("pdsh %s -w" % flag, "unexpected exit class %s" % cls, case)
            continue
        if mline != "no-nul" and line != unhx(mline) and not moob:
            ctx.disagreement("print model (opt_list) vs pdsh %s" % flag, "pdsh prints `..%s` model `..%s`" %
                             (line[-60:], unhx(mline)[-60:]), case)
        # oracle (policy-free): the whole text, or a PROPER prefix of it marked [truncated] - how long a list a caller
        # shows in full is its own business; a text that fitted a 1024-byte buffer must still be shown in full
        marked = line.endswith(b"[truncated]") and len(line) - 11 < len(full) and full.startswith(line[:-11])
        if line != full and not marked:
            sig = "cli-truncation-not-marked" if len(full) >= 1024 and full.startswith(line.replace(b"[truncated]", b"")[:len(full)]) \
                else "cli-text-differs"
            ctx.offender(sig + fill, "pdsh %s prints `..%s` for the %d-byte target text `..%s`: neither the text nor a proper "
                         "prefix of it marked [truncated]" % (flag, line[-50:].decode("latin1"), len(full),
                                                              full[-40:].decode("latin1")), case)
        elif marked and len(full) < 1024:
            ctx.offender("cli-text-differs" + fill, "pdsh %s cuts the %d-byte target text `..%s` after %d characters" %
                         (flag, len(full), full[-40:].decode("latin1"), len(line) - 11), case)
    if only is None:
        xlist_check(ctx, pr, cli, dist, cov)


def big_boundary(ctx, cli, cap, d, dist):
    """the boundary of a BIG display buffer (observed capacity `cap` > 64 KiB): `pdsh -Q` on numeric ranges whose expanded
    text has cap - 1 + d bytes, normal and AddressSanitizer build: the whole text, or its first cap - 1 characters marked
    [truncated] (the capacity observed by the probe must be the one that acts here)"""
    from vlib.printcheck import numeric_list
    expr, full = numeric_list(cap - 1 + d)
    case = {"origin": "cli", "flag": "-Q", "expr_hex": hx(expr), "ops": ["create " + hx(expr)],
            "desc": "pdsh -Q -w <numeric ranges, %d bytes expanded>" % len(full), "text_len": len(full)}
    for asan in ((False, True) if cli.asan else (False,)):
        cls, line = cli.targets("-Q", ["-w", expr.decode()], timeout=300, asan=asan)
        dist["cli"] += 1
        dist["calls"] += 1
        key = "pdsh -Q, text = capacity-1%+d bytes" % d
        dist.setdefault("boundary", {})[key] = dist.setdefault("boundary", {}).get(key, 0) + 1
        if cls != "ok":
            ctx.offender("cli-" + (cls[6:] if cls.startswith("crash:asan") else "crash"),
                         "pdsh -Q -w with a target text of %d bytes%s: %s" % (len(full), ", AddressSanitizer build" if asan else "", cls),
                         dict(case, pdsh=cls))
            continue
        marked = line.endswith(b"[truncated]") and len(line) - 11 < len(full) and full.startswith(line[:-11])
        if line != full and not marked:
            ctx.offender("cli-text-differs", "pdsh -Q prints `..%s` for the %d-byte target text: neither the text nor a proper "
                         "prefix of it marked [truncated]" % (line[-50:].decode("latin1"), len(full)), case)
        elif (line == full) != (len(full) < cap) or (marked and len(line) - 11 != cap - 1):
            ctx.disagreement("observed display capacity vs pdsh -Q", "capacity %d was observed, a text of %d bytes is shown %s" %
                             (cap, len(full), "in full" if line == full else "cut after %d characters" % (len(line) - 11)), case)


def xlist_names(want):
    """ungroupable 7-byte names whose compressed text has exactly `want` bytes"""
    names, total, i = [], 0, 0
    while total < want:
        left = want - total - (1 if names else 0)
        ln = 7 if left >= 9 else left
        nm = ((b"%c%x" % (97 + i % 26, i)) + b"z" * ln)[:ln]
        nm = nm[:-1] + b"z" if nm[-1:].isdigit() else nm
        names.append(nm)
        total += ln + (1 if len(names) > 1 else 0)
        i += 1
    return names, total


def xlist_case(want):
    """-> (lines of the file, records of the excluded list, LAST host, bytes of the compressed text).
    want = N: ungroupable names whose text has N bytes; want = ("wide", W): ONE range w[0..01-0..02] whose numbers are
    typed with W+1 digits (the lower bound alone is longer than the block list_push_hostlist starts with)"""
    if isinstance(want, tuple):
        z = b"0" * want[1]
        line = b"w[" + z + b"1-" + z + b"2]"
        return [line], [Rec(b"w", 1, 2, want[1] + 1, False)], b"w" + z + b"2", len(line)
    names, total = xlist_names(want)
    return names, [Rec(nm, 0, 0, 0, True) for nm in names], names[-1], total


def xlist_run(ctx, cli, want, timeout):
    """pdsh -q -w keep1,keep2,LAST -w -^file, LAST being the last host of the file: LAST is excluded iff the WHOLE
    text reaches the exclusion list"""
    lines, recs, last, total = xlist_case(want)
    path = os.path.join(cli.cwd, "xfile%s" % (want if not isinstance(want, tuple) else "w%d" % want[1]))
    with open(path, "wb") as f:
        f.write(b"\n".join(lines) + b"\n")
    cls, line = cli.targets("-q", ["-w", "keep1,keep2," + last.decode(), "-w", "-^" + path], timeout=timeout)
    return (lines, recs, last, path), total, cls, line


def xlist_check(ctx, pr, cli, dist, cov):
    """`-w -^file`: the excluded list is re-serialised by list_push_hostlist into 4096 bytes (n-1 = 4095 given).
    Which form of its retry condition the code under test contains (D2 / F14-XLOOP: `(n*=2 < 0x7fffff)` never grows
    the buffer) is probed first: a 4095-byte text either hangs (unchanged) or is handled (repaired)."""
    _, _, pcls, _ = xlist_run(ctx, cli, 4095, 3)
    pr.xvariant = "unchanged" if pcls == "timeout" else "fixed"
    cov.setdefault("variant_detected", {})["D2/F14-XLOOP repaired ((n *= 2) < 0x7fffff)"] = pr.xvariant == "fixed"
    ctx.log("list_push_hostlist behaves as the `%s` variant: the model runs with that switch" % pr.xvariant)
    wants = [4092, 4093, 4094, 4095, 4096]
    if pr.xvariant == "fixed" or not ctx.quick():
        wants += [8188, 8189, 8190, 8191, 8192, 9000, 20000]      # one and two doublings, the doubled buffer's boundary
    if pr.xvariant == "fixed" or not ctx.quick():
        wants += [("wide", 4100)]               # one range whose width alone exceeds the 4096-byte block
    for want in wants:
        (names, recs, last, path), total, cls, line = xlist_run(ctx, cli, want, 3 if pr.xvariant == "unchanged" else 20)
        m = ctx.model("print", "list %d %d %s\npxlist\n" % (len(recs), len(recs), " ".join(r.field() for r in recs)),
                      args=pr.margs())
        dist["cli"] += 1
        dist["calls"] += 1
        case = {"origin": "cli-xlist", "exclusion_text_bytes": total, "hosts_in_file": sum(r.count() for r in recs),
                "wide": isinstance(want, tuple)}
        for base in (4095, 8191):
            if -2 <= total - (base - 1) <= 2:
                key = "pdsh -w -^file, exclusion text = %d%+d bytes" % (base - 1, total - (base - 1))
                dist.setdefault("boundary", {})[key] = dist.setdefault("boundary", {}).get(key, 0) + 1
        if cli.asan and cls != "timeout":
            # the heap block of list_push_hostlist under AddressSanitizer (realloc / doubling bookkeeping)
            acls, aline = cli.targets("-q", ["-w", "keep1,keep2," + last.decode(), "-w", "-^" + path], timeout=30,
                                      asan=True)
            dist["cli-asan"] = dist.get("cli-asan", 0) + 1
            if acls.startswith("crash:asan"):
                ctx.offender("cli-xlist-" + acls[6:], "pdsh -q -w .. -w -^file with a %d-byte exclusion text, "
                             "AddressSanitizer build: %s" % (total, acls), dict(case, pdsh=acls))
            elif (acls, aline) != (cls, line):
                ctx.disagreement("pdsh -w -^file: AddressSanitizer build vs normal build",
                                 "%s `%s` vs %s `%s`" % (acls, (aline or b"")[:40], cls, (line or b"")[:40]), case)
        if (cls == "timeout") != (m[1] == "diverge"):
            ctx.disagreement("print model (list_push_hostlist) vs pdsh -w -^file", "pdsh %s model %s" % (cls, m[1][:40]), case)
        elif cls == "ok":
            mtext = unhx(m[1])
            excluded = (last in mtext.split(b",")) if not isinstance(want, tuple) else (mtext == names[0])
            mline = b"keep[1-2]" if excluded else b"keep[1-2]," + last
            if line != mline:
                ctx.disagreement("print model (list_push_hostlist) vs pdsh -w -^file", "pdsh lists `%s` model `%s`" %
                                 (line[:60], mline[:60]), case)
        if cls == "timeout":
            ctx.offender("cli-xlist-timeout" + (":text>=4095" if total >= 4095 else ""),
                         "pdsh -q -w .. -w -^file does not end when the excluded list's text has %d bytes" % total, case)
        elif cls != "ok" or line != b"keep[1-2]":
            ctx.offender("cli-xlist-wrong", "pdsh -q -w keep1,keep2,%s -w -^file (%d-byte exclusion text): %s `%s`" %
                         (last[:40].decode(), total, cls, (line or b"")[:80].decode("latin1")), case)


def load_corpus():
    from vlib.hostlist import VERIF_CORPUS
    d = os.path.join(VERIF_CORPUS, "C14")
    out = []
    if os.path.isdir(d):
        for f in sorted(os.listdir(d)):
            for l in open(os.path.join(d, f), "rb"):
                l = l.rstrip(b"\n")
                if l and not l.startswith(b"#"):
                    out.append(l)
    return out
